import DoviModel.Model.Json
import DoviModel.Model.Av1
import DoviModel.Model.Esc
/-!
# C view of a parsed RPU (`dolby_vision/src/capi.rs`, `c_structs/*.rs`)

`cview r` is what the three getters of the C API hand to a C caller for the RPU `r`: the field-by-field
copies of `c_structs/rpu_data_header.rs`, `rpu_data_mapping.rs`, `rpu_data_nlq.rs`, `vdr_dm_data.rs` and the
combined `DmData` of `extension_metadata.rs` (`combine_dm_data` / `set_blocks`). The C-side structures are
field-by-field mirrors of the `#[repr(C)]` structs (they hold only what the C structs hold, not the Rust
structures); the conversions copy exactly what the Rust `From` impls copy. Both are tied to the Rust text by
`tools/gen_source_cstructs.py` → `Gen/SourceCStructs.lean` → `C20.source_cstructs_agree…`. A pointer is an `Option`
(`none` = null pointer), the `-1` / empty markers are values. `CView.toJson` renders exactly the JSON object
the executor op `capi.view` prints from the real structs (shape documented in
`harness/libcase/src/ops_capi.rs`).

The second half models ownership: `allocs` lists the heap objects the conversions create
(`Box::into_raw`), `freeCalls` lists the pointer handed to the deallocator at every `Box::from_raw` /
`Vec::from_raw_parts` site of the `free` functions, with exactly the null checks the code has. Buffers that
are allocated and released unconditionally together with their owning box (the four arrays of a
`PolynomialCurve`, the five of an `MMRCurve`) are lumped with that box.

Core Lean only (the driver links against this).
-/
namespace Dovi

/-! ## JSON with `null` -/

inductive CJ where
  | null
  | num (n : Int)
  | bool (b : Bool)
  | str (s : String)
  | arr (l : List CJ)
  | obj (l : List (String × CJ))
deriving Repr, Inhabited

partial def CJ.render : CJ → String
  | .null => "null"
  | .num n => toString n
  | .bool b => if b then "true" else "false"
  | .str s => "\"" ++ s ++ "\""
  | .arr l => "[" ++ ",".intercalate (l.map CJ.render) ++ "]"
  | .obj l => "{" ++ ",".intercalate (l.map fun (k, v) => "\"" ++ k ++ "\":" ++ v.render) ++ "}"

def cn (n : Nat) : CJ := .num n
def cns (l : List Nat) : CJ := .arr (l.map cn)
def cis (l : List Int) : CJ := .arr (l.map CJ.num)
/-- a pointer: null or the pointee -/
def cptr {α} (f : α → CJ) : Option α → CJ
  | none => .null
  | some a => f a

/-! ## the structures a C caller sees

One Lean structure per `#[repr(C)]` struct of `c_structs/*.rs`, one Lean field per C field, same names, same
order. A `(data, len)` / `(list, len)` pair (`Data`, `U16Data`, `U64Data`, `I64Data`, the 2D / 3D variants, the
`LevelNBlockList`s) is a `List`; a fixed array is a `List`; a pointer is an `Option` (`none` = null). The only
data pointer the code can leave null is the one of `U16Data::empty()` (absent `nlq_pred_pivot_value`): it has the
extra flag `nlq_pred_data_null`, which is not a C field. `X.cFields` lists `(field name, C type as written in the
Rust source)` of the struct `X` mirrors; `Props/C20.lean` proves these lists equal to the ones regenerated from
the Rust sources (`Gen/SourceCStructs.lean`) and to the field names of the Lean structures themselves. -/

/-- `RpuDataHeader` of the C API (`c_structs/rpu_data_header.rs`). It has no `coefficient_log2_denom_length`,
`ext_mapping_idc_0_4`, `ext_mapping_idc_5_7` -/
structure CHeader where
  guessed_profile : Nat
  el_type : Option ElType
  rpu_nal_prefix : Nat
  rpu_type : Nat
  rpu_format : Nat
  vdr_rpu_profile : Nat
  vdr_rpu_level : Nat
  vdr_seq_info_present_flag : Bool
  chroma_resampling_explicit_filter_flag : Bool
  coefficient_data_type : Nat
  coefficient_log2_denom : Nat
  vdr_rpu_normalized_idc : Nat
  bl_video_full_range_flag : Bool
  bl_bit_depth_minus8 : Nat
  el_bit_depth_minus8 : Nat
  vdr_bit_depth_minus8 : Nat
  spatial_resampling_filter_flag : Bool
  reserved_zero_3bits : Nat
  el_spatial_resampling_filter_flag : Bool
  disable_residual_flag : Bool
  vdr_dm_metadata_present_flag : Bool
  use_prev_vdr_rpu_flag : Bool
  prev_vdr_rpu_id : Nat
deriving Repr, DecidableEq

def CHeader.cFields : List (String × String) :=
  [("guessed_profile", "u8"), ("el_type", "*const c_char"), ("rpu_nal_prefix", "u8"),
   ("rpu_type", "u8"), ("rpu_format", "u16"), ("vdr_rpu_profile", "u8"),
   ("vdr_rpu_level", "u8"), ("vdr_seq_info_present_flag", "bool"), ("chroma_resampling_explicit_filter_flag", "bool"),
   ("coefficient_data_type", "u8"), ("coefficient_log2_denom", "u64"), ("vdr_rpu_normalized_idc", "u8"),
   ("bl_video_full_range_flag", "bool"), ("bl_bit_depth_minus8", "u64"), ("el_bit_depth_minus8", "u64"),
   ("vdr_bit_depth_minus8", "u64"), ("spatial_resampling_filter_flag", "bool"), ("reserved_zero_3bits", "u8"),
   ("el_spatial_resampling_filter_flag", "bool"), ("disable_residual_flag", "bool"), ("vdr_dm_metadata_present_flag", "bool"),
   ("use_prev_vdr_rpu_flag", "bool"), ("prev_vdr_rpu_id", "u64")]

/-- `PolynomialCurve` (`c_structs/rpu_data_mapping.rs`) -/
structure CPoly where
  /-- `U64Data` -/
  poly_order_minus1 : List Nat
  /-- `Data`: one byte per flag (`e as u8`) -/
  linear_interp_flag : List Nat
  /-- `I64Data2D`: one `I64Data` per piece -/
  poly_coef_int : List (List Int)
  /-- `U64Data2D` -/
  poly_coef : List (List Nat)
deriving Repr, DecidableEq

def CPoly.cFields : List (String × String) :=
  [("poly_order_minus1", "U64Data"), ("linear_interp_flag", "Data"), ("poly_coef_int", "I64Data2D"),
   ("poly_coef", "U64Data2D")]

/-- `MMRCurve` (`c_structs/rpu_data_mapping.rs`) -/
structure CMmr where
  /-- `Data` -/
  mmr_order_minus1 : List Nat
  /-- `I64Data` -/
  mmr_constant_int : List Int
  /-- `U64Data` -/
  mmr_constant : List Nat
  /-- `I64Data3D`: piece → order → coefficient, nested as in the Rust `Vec<ArrayVec<[ArrayVec<..>; 3]>>` -/
  mmr_coef_int : List (List (List Int))
  /-- `U64Data3D` -/
  mmr_coef : List (List (List Nat))
deriving Repr, DecidableEq

def CMmr.cFields : List (String × String) :=
  [("mmr_order_minus1", "Data"), ("mmr_constant_int", "I64Data"), ("mmr_constant", "U64Data"),
   ("mmr_coef_int", "I64Data3D"), ("mmr_coef", "U64Data3D")]

/-- `ReshapingCurve` (`c_structs/rpu_data_mapping.rs`) -/
structure CCurve where
  num_pivots_minus2 : Nat
  /-- `U16Data` built from a `Vec`: never a null data pointer -/
  pivots : List Nat
  /-- `curve.mapping_idc as u8` -/
  mapping_idc : Nat
  polynomial : Option CPoly
  mmr : Option CMmr
deriving Repr, DecidableEq

def CCurve.cFields : List (String × String) :=
  [("num_pivots_minus2", "u64"), ("pivots", "U16Data"), ("mapping_idc", "u8"),
   ("polynomial", "*const PolynomialCurve"), ("mmr", "*const MMRCurve")]

/-- `RpuDataNlq` (`c_structs/rpu_data_nlq.rs`): seven arrays of `NUM_COMPONENTS` = 3 entries -/
structure CNlq where
  nlq_offset : List Nat
  vdr_in_max_int : List Nat
  vdr_in_max : List Nat
  linear_deadzone_slope_int : List Nat
  linear_deadzone_slope : List Nat
  linear_deadzone_threshold_int : List Nat
  linear_deadzone_threshold : List Nat
deriving Repr, DecidableEq

def CNlq.cFields : List (String × String) :=
  [("nlq_offset", "[u16; NUM_COMPONENTS]"), ("vdr_in_max_int", "[u64; NUM_COMPONENTS]"),
   ("vdr_in_max", "[u64; NUM_COMPONENTS]"), ("linear_deadzone_slope_int", "[u64; NUM_COMPONENTS]"),
   ("linear_deadzone_slope", "[u64; NUM_COMPONENTS]"), ("linear_deadzone_threshold_int", "[u64; NUM_COMPONENTS]"),
   ("linear_deadzone_threshold", "[u64; NUM_COMPONENTS]")]

/-- `RpuDataMapping` (`c_structs/rpu_data_mapping.rs`) -/
structure CMapping where
  vdr_rpu_id : Nat
  mapping_color_space : Nat
  mapping_chroma_format_idc : Nat
  num_x_partitions_minus1 : Nat
  num_y_partitions_minus1 : Nat
  /-- `[ReshapingCurve; NUM_COMPONENTS]` -/
  curves : List CCurve
  /-- `-1` represents `Option::None` -/
  nlq_method_idc : Int
  /-- `-1` represents `Option::None` -/
  nlq_num_pivots_minus2 : Int
  /-- `U16Data`; length zero when not present -/
  nlq_pred_pivot_value : List Nat
  /-- not a C field: `U16Data::empty()` carries a null data pointer -/
  nlq_pred_data_null : Bool
  nlq : Option CNlq
deriving Repr, DecidableEq

def CMapping.cFields : List (String × String) :=
  [("vdr_rpu_id", "u64"), ("mapping_color_space", "u64"), ("mapping_chroma_format_idc", "u64"),
   ("num_x_partitions_minus1", "u64"), ("num_y_partitions_minus1", "u64"),
   ("curves", "[ReshapingCurve; NUM_COMPONENTS]"), ("nlq_method_idc", "i32"), ("nlq_num_pivots_minus2", "i32"),
   ("nlq_pred_pivot_value", "U16Data"), ("nlq", "*const RpuDataNlq")]

/-- the Lean-only fields of the mirrors (null flags of data pointers) -/
def cAuxFields : List String := ["nlq_pred_data_null"]

/-- the combined `DmData` of the C API (`c_structs/extension_metadata.rs`). The pointees are the
`ExtMetadataBlockLevelN` structs themselves: they are `#[repr(C)]` in `rpu/extension_metadata/blocks/levelN.rs`
and serve as Rust and as C structs (the conversion clones them), so a `Block` of the model stands for both; the
pointer type fixes the level. `level2` / `level8` / `level10` are `LevelNBlockList { list, len }` -/
structure CLevels where
  num_ext_blocks : Nat
  level1 : Option Block
  level2 : List Block
  level3 : Option Block
  level4 : Option Block
  level5 : Option Block
  level6 : Option Block
  level8 : List Block
  level9 : Option Block
  level10 : List Block
  level11 : Option Block
  level254 : Option Block
  level255 : Option Block
deriving Repr, DecidableEq

def CLevels.cFields : List (String × String) :=
  [("num_ext_blocks", "u64"), ("level1", "*const ExtMetadataBlockLevel1"), ("level2", "Level2BlockList"),
   ("level3", "*const ExtMetadataBlockLevel3"), ("level4", "*const ExtMetadataBlockLevel4"),
   ("level5", "*const ExtMetadataBlockLevel5"), ("level6", "*const ExtMetadataBlockLevel6"),
   ("level8", "Level8BlockList"), ("level9", "*const ExtMetadataBlockLevel9"), ("level10", "Level10BlockList"),
   ("level11", "*const ExtMetadataBlockLevel11"), ("level254", "*const ExtMetadataBlockLevel254"),
   ("level255", "*const ExtMetadataBlockLevel255")]

/-- the C fields of the `#[repr(C)]` struct `ExtMetadataBlockLevelN` (declaration order; L8 / L9 / L10 start
with `length`) -/
def cBlockFieldNames (level : Nat) : List String :=
  if level == 8 || level == 9 || level == 10 then "length" :: blockFieldNames level else blockFieldNames level

/-- `VdrDmData` of the C API (`c_structs/vdr_dm_data.rs`) -/
structure CDm where
  compressed : Bool
  affected_dm_metadata_id : Nat
  current_dm_metadata_id : Nat
  scene_refresh_flag : Nat
  ycc_to_rgb_coef0 : Int
  ycc_to_rgb_coef1 : Int
  ycc_to_rgb_coef2 : Int
  ycc_to_rgb_coef3 : Int
  ycc_to_rgb_coef4 : Int
  ycc_to_rgb_coef5 : Int
  ycc_to_rgb_coef6 : Int
  ycc_to_rgb_coef7 : Int
  ycc_to_rgb_coef8 : Int
  ycc_to_rgb_offset0 : Int
  ycc_to_rgb_offset1 : Int
  ycc_to_rgb_offset2 : Int
  rgb_to_lms_coef0 : Int
  rgb_to_lms_coef1 : Int
  rgb_to_lms_coef2 : Int
  rgb_to_lms_coef3 : Int
  rgb_to_lms_coef4 : Int
  rgb_to_lms_coef5 : Int
  rgb_to_lms_coef6 : Int
  rgb_to_lms_coef7 : Int
  rgb_to_lms_coef8 : Int
  signal_eotf : Int
  signal_eotf_param0 : Int
  signal_eotf_param1 : Int
  signal_eotf_param2 : Int
  signal_bit_depth : Int
  signal_color_space : Int
  signal_chroma_format : Int
  signal_full_range_flag : Int
  source_min_pq : Int
  source_max_pq : Int
  source_diagonal : Int
  dm_data : CLevels
deriving Repr, DecidableEq

def CDm.cFields : List (String × String) :=
  [("compressed", "bool"), ("affected_dm_metadata_id", "u64"), ("current_dm_metadata_id", "u64"),
   ("scene_refresh_flag", "u64"),
   ("ycc_to_rgb_coef0", "i16"), ("ycc_to_rgb_coef1", "i16"), ("ycc_to_rgb_coef2", "i16"), ("ycc_to_rgb_coef3", "i16"),
   ("ycc_to_rgb_coef4", "i16"), ("ycc_to_rgb_coef5", "i16"), ("ycc_to_rgb_coef6", "i16"), ("ycc_to_rgb_coef7", "i16"),
   ("ycc_to_rgb_coef8", "i16"), ("ycc_to_rgb_offset0", "u32"), ("ycc_to_rgb_offset1", "u32"), ("ycc_to_rgb_offset2", "u32"),
   ("rgb_to_lms_coef0", "i16"), ("rgb_to_lms_coef1", "i16"), ("rgb_to_lms_coef2", "i16"), ("rgb_to_lms_coef3", "i16"),
   ("rgb_to_lms_coef4", "i16"), ("rgb_to_lms_coef5", "i16"), ("rgb_to_lms_coef6", "i16"), ("rgb_to_lms_coef7", "i16"),
   ("rgb_to_lms_coef8", "i16"), ("signal_eotf", "u16"), ("signal_eotf_param0", "u16"), ("signal_eotf_param1", "u16"),
   ("signal_eotf_param2", "u32"), ("signal_bit_depth", "u8"), ("signal_color_space", "u8"), ("signal_chroma_format", "u8"),
   ("signal_full_range_flag", "u8"), ("source_min_pq", "u16"), ("source_max_pq", "u16"), ("source_diagonal", "u16"),
   ("dm_data", "DmData")]

/-- the 32 payload fields of the C struct, in declaration order -/
def CDm.mainVals (d : CDm) : List Int :=
  [d.ycc_to_rgb_coef0, d.ycc_to_rgb_coef1, d.ycc_to_rgb_coef2, d.ycc_to_rgb_coef3, d.ycc_to_rgb_coef4, d.ycc_to_rgb_coef5,
   d.ycc_to_rgb_coef6, d.ycc_to_rgb_coef7, d.ycc_to_rgb_coef8, d.ycc_to_rgb_offset0, d.ycc_to_rgb_offset1, d.ycc_to_rgb_offset2,
   d.rgb_to_lms_coef0, d.rgb_to_lms_coef1, d.rgb_to_lms_coef2, d.rgb_to_lms_coef3, d.rgb_to_lms_coef4, d.rgb_to_lms_coef5,
   d.rgb_to_lms_coef6, d.rgb_to_lms_coef7, d.rgb_to_lms_coef8, d.signal_eotf, d.signal_eotf_param0, d.signal_eotf_param1,
   d.signal_eotf_param2, d.signal_bit_depth, d.signal_color_space, d.signal_chroma_format, d.signal_full_range_flag, d.source_min_pq,
   d.source_max_pq, d.source_diagonal]

/-- a `(pointer, len)` struct of `buffers.rs` / a `LevelNBlockList` -/
def cPairStruct (ptrField ptrType : String) : List (String × String) := [(ptrField, ptrType), ("len", "size_t")]

/-- every `#[repr(C)]` struct of `c_structs/*.rs` (files in alphabetical order, structs in declaration order) with
its fields, and how the model represents it: the nine buffer structs and the three block lists are `List`s, the
other structs have the mirror named next to them; `RpuOpaqueList` (`dovi_parse_rpu_bin_file`) is not modelled -/
def cStructs : List (String × List (String × String)) := [
  ("Data", cPairStruct "data" "*const u8"), ("U16Data", cPairStruct "data" "*const u16"),
  ("U64Data", cPairStruct "data" "*const u64"), ("I64Data", cPairStruct "data" "*const i64"),
  ("Data2D", cPairStruct "list" "*const *const Data"), ("U64Data2D", cPairStruct "list" "*const *const U64Data"),
  ("I64Data2D", cPairStruct "list" "*const *const I64Data"), ("U64Data3D", cPairStruct "list" "*const *const U64Data2D"),
  ("I64Data3D", cPairStruct "list" "*const *const I64Data2D"),
  ("DmData", CLevels.cFields),
  ("Level2BlockList", cPairStruct "list" "*const *const ExtMetadataBlockLevel2"),
  ("Level8BlockList", cPairStruct "list" "*const *const ExtMetadataBlockLevel8"),
  ("Level10BlockList", cPairStruct "list" "*const *const ExtMetadataBlockLevel10"),
  ("RpuOpaqueList", [("list", "*const *mut RpuOpaque"), ("len", "size_t"), ("error", "*const c_char")]),
  ("RpuDataHeader", CHeader.cFields),
  ("RpuDataMapping", CMapping.cFields), ("ReshapingCurve", CCurve.cFields), ("PolynomialCurve", CPoly.cFields),
  ("MMRCurve", CMmr.cFields),
  ("RpuDataNlq", CNlq.cFields),
  ("VdrDmData", CDm.cFields)]

/-- the block levels that have a `#[repr(C)]` struct -/
def cBlockLevels : List Nat := [1, 2, 3, 4, 5, 6, 8, 9, 10, 11, 254, 255]

structure CView where
  header : CHeader
  mapping : Option CMapping
  dm : Option CDm
deriving Repr, DecidableEq

/-! ## the conversions (`From<&Rust struct>`): each copies exactly the fields the Rust `impl` copies -/

/-- `e as u8` of a `bool` (`Data::from(Vec<bool>)`) -/
def boolU8 (b : Bool) : Nat := if b then 1 else 0

/-- `PolynomialCurve::from(&DoviPolynomialCurve)`: `U64Data::from`, `Data::from(Vec<bool>)`, `I64Data2D::from`,
`U64Data2D::from` of the cloned vectors -/
def cPoly (p : PolyCurve) : CPoly :=
  { poly_order_minus1 := p.poly_order_minus1, linear_interp_flag := p.linear_interp_flag.map boolU8,
    poly_coef_int := p.poly_coef_int, poly_coef := p.poly_coef }

/-- `MMRCurve::from(&DoviMMRCurve)`: the 3D buffers keep the nesting piece → order → coefficient -/
def cMmr (m : MmrCurve) : CMmr :=
  { mmr_order_minus1 := m.mmr_order_minus1, mmr_constant_int := m.mmr_constant_int, mmr_constant := m.mmr_constant,
    mmr_coef_int := m.mmr_coef_int, mmr_coef := m.mmr_coef }

/-- `RpuDataNlq::from(&RuRpuDataNlq)` -/
def cNlq (n : Nlq) : CNlq :=
  { nlq_offset := n.nlq_offset, vdr_in_max_int := n.vdr_in_max_int, vdr_in_max := n.vdr_in_max,
    linear_deadzone_slope_int := n.linear_deadzone_slope_int, linear_deadzone_slope := n.linear_deadzone_slope,
    linear_deadzone_threshold_int := n.linear_deadzone_threshold_int,
    linear_deadzone_threshold := n.linear_deadzone_threshold }

/-- `ReshapingCurve::from(&DoviReshapingCurve)` -/
def cCurve (c : Curve) : CCurve :=
  { num_pivots_minus2 := c.num_pivots_minus2, pivots := c.pivots, mapping_idc := c.mapping_idc.toNat,
    polynomial := c.polynomial.map cPoly, mmr := c.mmr.map cMmr }

/-- `map_or(-1, |e| e as i32)` -/
def optMarker : Option Nat → Int
  | none => -1
  | some v => v

/-- `curves` is a Rust array of three components -/
def Mapping.curve (m : Mapping) (i : Nat) : Curve := m.curves.getD i {}

/-- `RpuDataMapping::from(&RuRpuDataMapping)`; `U16Data::from(Option<[u16; N]>)` is
`map_or(U16Data::empty(), U16Data::from)` -/
def cMapping (m : Mapping) : CMapping :=
  { vdr_rpu_id := m.vdr_rpu_id, mapping_color_space := m.mapping_color_space,
    mapping_chroma_format_idc := m.mapping_chroma_format_idc,
    num_x_partitions_minus1 := m.num_x_partitions_minus1, num_y_partitions_minus1 := m.num_y_partitions_minus1,
    curves := [cCurve (m.curve 0), cCurve (m.curve 1), cCurve (m.curve 2)],
    nlq_method_idc := optMarker m.nlq_method_idc,
    nlq_num_pivots_minus2 := optMarker m.nlq_num_pivots_minus2,
    nlq_pred_pivot_value := m.nlq_pred_pivot_value.getD [],
    nlq_pred_data_null := m.nlq_pred_pivot_value.isNone,
    nlq := m.nlq.map cNlq }

/-- `set_blocks`: a later block of a single-instance level overwrites the pointer -/
def lastOfLevel (bs : List Block) (l : Nat) : Option Block :=
  (bs.filter (·.level == l)).getLast?

/-- `LevelNBlockList::from(blocks)`: filter, in order -/
def levelList (bs : List Block) (l : Nat) : List Block := bs.filter (·.level == l)

def containerBlocks : Option Container → List Block
  | some c => c.blocks
  | none => []

def containerCount : Option Container → Nat
  | some c => c.num_ext_blocks
  | none => 0

/-- every block `set_blocks` walks over, CM v2.9 container first -/
def DmData.allBlocks (d : DmData) : List Block := containerBlocks d.cmv29 ++ containerBlocks d.cmv40

/-- `DmData::combine_dm_data` -/
def cLevels (d : DmData) : CLevels :=
  let all := d.allBlocks
  { num_ext_blocks := containerCount d.cmv29 + containerCount d.cmv40,
    level1 := lastOfLevel all 1,
    level2 := levelList (containerBlocks d.cmv29) 2,
    level3 := lastOfLevel all 3,
    level4 := lastOfLevel all 4,
    level5 := lastOfLevel all 5,
    level6 := lastOfLevel all 6,
    level8 := levelList (containerBlocks d.cmv40) 8,
    level9 := lastOfLevel all 9,
    level10 := levelList (containerBlocks d.cmv40) 10,
    level11 := lastOfLevel all 11,
    level254 := lastOfLevel all 254,
    level255 := lastOfLevel all 255 }

/-- `data.<name>` for one of the 32 payload fields: the model keeps them in `main`, in the order of
`dmMainNames` (the Rust declaration order) -/
def DmData.mainNamed (d : DmData) (name : String) : Int := d.main.getD (dmMainNames.idxOf name) 0

/-- `VdrDmData::from(&RuVdrDmData)` -/
def cDm (d : DmData) : CDm :=
  { compressed := d.compressed, affected_dm_metadata_id := d.affected_dm_metadata_id,
    current_dm_metadata_id := d.current_dm_metadata_id, scene_refresh_flag := d.scene_refresh_flag,
    ycc_to_rgb_coef0 := d.mainNamed "ycc_to_rgb_coef0",
    ycc_to_rgb_coef1 := d.mainNamed "ycc_to_rgb_coef1",
    ycc_to_rgb_coef2 := d.mainNamed "ycc_to_rgb_coef2",
    ycc_to_rgb_coef3 := d.mainNamed "ycc_to_rgb_coef3",
    ycc_to_rgb_coef4 := d.mainNamed "ycc_to_rgb_coef4",
    ycc_to_rgb_coef5 := d.mainNamed "ycc_to_rgb_coef5",
    ycc_to_rgb_coef6 := d.mainNamed "ycc_to_rgb_coef6",
    ycc_to_rgb_coef7 := d.mainNamed "ycc_to_rgb_coef7",
    ycc_to_rgb_coef8 := d.mainNamed "ycc_to_rgb_coef8",
    ycc_to_rgb_offset0 := d.mainNamed "ycc_to_rgb_offset0",
    ycc_to_rgb_offset1 := d.mainNamed "ycc_to_rgb_offset1",
    ycc_to_rgb_offset2 := d.mainNamed "ycc_to_rgb_offset2",
    rgb_to_lms_coef0 := d.mainNamed "rgb_to_lms_coef0",
    rgb_to_lms_coef1 := d.mainNamed "rgb_to_lms_coef1",
    rgb_to_lms_coef2 := d.mainNamed "rgb_to_lms_coef2",
    rgb_to_lms_coef3 := d.mainNamed "rgb_to_lms_coef3",
    rgb_to_lms_coef4 := d.mainNamed "rgb_to_lms_coef4",
    rgb_to_lms_coef5 := d.mainNamed "rgb_to_lms_coef5",
    rgb_to_lms_coef6 := d.mainNamed "rgb_to_lms_coef6",
    rgb_to_lms_coef7 := d.mainNamed "rgb_to_lms_coef7",
    rgb_to_lms_coef8 := d.mainNamed "rgb_to_lms_coef8",
    signal_eotf := d.mainNamed "signal_eotf",
    signal_eotf_param0 := d.mainNamed "signal_eotf_param0",
    signal_eotf_param1 := d.mainNamed "signal_eotf_param1",
    signal_eotf_param2 := d.mainNamed "signal_eotf_param2",
    signal_bit_depth := d.mainNamed "signal_bit_depth",
    signal_color_space := d.mainNamed "signal_color_space",
    signal_chroma_format := d.mainNamed "signal_chroma_format",
    signal_full_range_flag := d.mainNamed "signal_full_range_flag",
    source_min_pq := d.mainNamed "source_min_pq",
    source_max_pq := d.mainNamed "source_max_pq",
    source_diagonal := d.mainNamed "source_diagonal",
    dm_data := cLevels d }

/-- `RpuDataHeader::from(&RuRpuDataHeader)`: `guessed_profile` is recomputed from the header, `el_type` is null -/
def cHeaderFrom (header : Header) : CHeader :=
  { guessed_profile := header.getDoviProfile,
    el_type := none,
    rpu_nal_prefix := header.rpu_nal_prefix,
    rpu_type := header.rpu_type,
    rpu_format := header.rpu_format,
    vdr_rpu_profile := header.vdr_rpu_profile,
    vdr_rpu_level := header.vdr_rpu_level,
    vdr_seq_info_present_flag := header.vdr_seq_info_present_flag,
    chroma_resampling_explicit_filter_flag := header.chroma_resampling_explicit_filter_flag,
    coefficient_data_type := header.coefficient_data_type,
    coefficient_log2_denom := header.coefficient_log2_denom,
    vdr_rpu_normalized_idc := header.vdr_rpu_normalized_idc,
    bl_video_full_range_flag := header.bl_video_full_range_flag,
    bl_bit_depth_minus8 := header.bl_bit_depth_minus8,
    el_bit_depth_minus8 := header.el_bit_depth_minus8,
    vdr_bit_depth_minus8 := header.vdr_bit_depth_minus8,
    spatial_resampling_filter_flag := header.spatial_resampling_filter_flag,
    reserved_zero_3bits := header.reserved_zero_3bits,
    el_spatial_resampling_filter_flag := header.el_spatial_resampling_filter_flag,
    disable_residual_flag := header.disable_residual_flag,
    vdr_dm_metadata_present_flag := header.vdr_dm_metadata_present_flag,
    use_prev_vdr_rpu_flag := header.use_prev_vdr_rpu_flag,
    prev_vdr_rpu_id := header.prev_vdr_rpu_id }

/-- `dovi_rpu_get_header`: the converted header, with `el_type` set from the RPU when it has one -/
def cHeader (r : Rpu) : CHeader :=
  { cHeaderFrom r.header with el_type := r.el_type }

/-- the three getters on a handle that holds `r` -/
def cview (r : Rpu) : CView :=
  { header := cHeader r, mapping := r.rpu_data_mapping.map cMapping, dm := r.vdr_dm_data.map cDm }

/-! ## rendering (the shape `capi.view` prints) -/

def CHeader.toJson (c : CHeader) : CJ :=
  .obj [
  ("guessed_profile", cn c.guessed_profile),
  ("el_type", match c.el_type with | some .mel => .str "MEL" | some .fel => .str "FEL" | none => .null),
  ("rpu_nal_prefix", cn c.rpu_nal_prefix),
  ("rpu_type", cn c.rpu_type),
  ("rpu_format", cn c.rpu_format),
  ("vdr_rpu_profile", cn c.vdr_rpu_profile),
  ("vdr_rpu_level", cn c.vdr_rpu_level),
  ("vdr_seq_info_present_flag", .bool c.vdr_seq_info_present_flag),
  ("chroma_resampling_explicit_filter_flag", .bool c.chroma_resampling_explicit_filter_flag),
  ("coefficient_data_type", cn c.coefficient_data_type),
  ("coefficient_log2_denom", cn c.coefficient_log2_denom),
  ("vdr_rpu_normalized_idc", cn c.vdr_rpu_normalized_idc),
  ("bl_video_full_range_flag", .bool c.bl_video_full_range_flag),
  ("bl_bit_depth_minus8", cn c.bl_bit_depth_minus8),
  ("el_bit_depth_minus8", cn c.el_bit_depth_minus8),
  ("vdr_bit_depth_minus8", cn c.vdr_bit_depth_minus8),
  ("spatial_resampling_filter_flag", .bool c.spatial_resampling_filter_flag),
  ("reserved_zero_3bits", cn c.reserved_zero_3bits),
  ("el_spatial_resampling_filter_flag", .bool c.el_spatial_resampling_filter_flag),
  ("disable_residual_flag", .bool c.disable_residual_flag),
  ("vdr_dm_metadata_present_flag", .bool c.vdr_dm_metadata_present_flag),
  ("use_prev_vdr_rpu_flag", .bool c.use_prev_vdr_rpu_flag),
  ("prev_vdr_rpu_id", cn c.prev_vdr_rpu_id)]

def polyJson (p : CPoly) : CJ := .obj [
  ("poly_order_minus1", cns p.poly_order_minus1), ("linear_interp_flag", cns p.linear_interp_flag),
  ("poly_coef_int", .arr (p.poly_coef_int.map cis)), ("poly_coef", .arr (p.poly_coef.map cns))]

def mmrJson (m : CMmr) : CJ := .obj [
  ("mmr_order_minus1", cns m.mmr_order_minus1), ("mmr_constant_int", cis m.mmr_constant_int),
  ("mmr_constant", cns m.mmr_constant),
  ("mmr_coef_int", .arr (m.mmr_coef_int.map fun r => .arr (r.map cis))),
  ("mmr_coef", .arr (m.mmr_coef.map fun r => .arr (r.map cns)))]

def CCurve.toJson (c : CCurve) : CJ := .obj [
  ("num_pivots_minus2", cn c.num_pivots_minus2), ("pivots", cns c.pivots), ("mapping_idc", cn c.mapping_idc),
  ("polynomial", cptr polyJson c.polynomial), ("mmr", cptr mmrJson c.mmr)]

def nlqJson (n : CNlq) : CJ := .obj [
  ("nlq_offset", cns n.nlq_offset), ("vdr_in_max_int", cns n.vdr_in_max_int), ("vdr_in_max", cns n.vdr_in_max),
  ("linear_deadzone_slope_int", cns n.linear_deadzone_slope_int), ("linear_deadzone_slope", cns n.linear_deadzone_slope),
  ("linear_deadzone_threshold_int", cns n.linear_deadzone_threshold_int),
  ("linear_deadzone_threshold", cns n.linear_deadzone_threshold)]

/-- (the null flag of the `nlq_pred_pivot_value` data pointer is not printed: `capi.view` prints a null data
pointer with `len` 0 as `[]`) -/
def CMapping.toJson (m : CMapping) : CJ := .obj [
  ("vdr_rpu_id", cn m.vdr_rpu_id), ("mapping_color_space", cn m.mapping_color_space),
  ("mapping_chroma_format_idc", cn m.mapping_chroma_format_idc),
  ("num_x_partitions_minus1", cn m.num_x_partitions_minus1), ("num_y_partitions_minus1", cn m.num_y_partitions_minus1),
  ("curves", .arr (m.curves.map CCurve.toJson)),
  ("nlq_method_idc", .num m.nlq_method_idc), ("nlq_num_pivots_minus2", .num m.nlq_num_pivots_minus2),
  ("nlq_pred_pivot_value", cns m.nlq_pred_pivot_value), ("nlq", cptr nlqJson m.nlq)]

/-- a block struct as C sees it: every field in declaration order, `length` first for L8/L9/L10 -/
def cBlockJson (b : Block) : CJ :=
  let fields := ((blockFieldNames b.level).zip b.vals).map fun (n, v) =>
    (n, if n == "reference_mode_flag" then CJ.bool (v != 0) else CJ.num v)
  .obj (if b.level == 8 || b.level == 9 || b.level == 10 then ("length", cn b.length) :: fields else fields)

def cListJson (l : List Block) : CJ := .obj [("len", cn l.length), ("list", .arr (l.map cBlockJson))]

def CLevels.toJson (x : CLevels) : CJ := .obj [
  ("num_ext_blocks", cn x.num_ext_blocks),
  ("level1", cptr cBlockJson x.level1), ("level2", cListJson x.level2), ("level3", cptr cBlockJson x.level3),
  ("level4", cptr cBlockJson x.level4), ("level5", cptr cBlockJson x.level5), ("level6", cptr cBlockJson x.level6),
  ("level8", cListJson x.level8), ("level9", cptr cBlockJson x.level9), ("level10", cListJson x.level10),
  ("level11", cptr cBlockJson x.level11), ("level254", cptr cBlockJson x.level254),
  ("level255", cptr cBlockJson x.level255)]

def CDm.toJson (d : CDm) : CJ := .obj (
  [("compressed", .bool d.compressed), ("affected_dm_metadata_id", cn d.affected_dm_metadata_id),
   ("current_dm_metadata_id", cn d.current_dm_metadata_id), ("scene_refresh_flag", cn d.scene_refresh_flag)] ++
  (dmMainNames.zip d.mainVals).map (fun (n, v) => (n, CJ.num v)) ++
  [("dm_data", d.dm_data.toJson)])

def CView.toJson (v : CView) : CJ := .obj [
  ("header", v.header.toJson), ("mapping", cptr CMapping.toJson v.mapping), ("dm", cptr CDm.toJson v.dm)]

/-! ## the handle (`RpuOpaque`) and the three parse wrappers -/

/-- `RpuOpaque { rpu: Option<DoviRpu>, error: Option<CString> }` (the text of the error is not modelled) -/
structure Handle where
  rpu : Option Rpu
  error : Bool
deriving Repr, DecidableEq

/-- `RpuOpaque::from(Result<DoviRpu>)`; a panic inside `extern "C"` aborts the process: no handle -/
def Handle.ofRes : Res Rpu → Option Handle
  | .ok r => some { rpu := some r, error := false }
  | .error => some { rpu := none, error := true }
  | .panic => none

/-- `DoviRpu::parse_unspec62_nalu` -/
def parseNaluEntry (d : Bytes) : Res Rpu := (trimPrefix d).bind fun t => parseRpu (Esc.unescape t)

def cParseRpu (d : Bytes) : Option Handle := Handle.ofRes (parseRpuEntry d)
def cParseNalu (d : Bytes) : Option Handle := Handle.ofRes (parseNaluEntry d)
def cParseAv1 (d : Bytes) : Option Handle := Handle.ofRes (Av1.parseObu d)

/-- `dovi_rpu_get_error` returns non-null -/
def Handle.getError (h : Handle) : Bool := h.error
/-- `dovi_rpu_get_header` (null when the handle holds no RPU) -/
def Handle.getHeader (h : Handle) : Option CHeader := h.rpu.map cHeader
def Handle.getMapping (h : Handle) : Option CMapping := h.rpu.bind fun r => r.rpu_data_mapping.map cMapping
def Handle.getDm (h : Handle) : Option CDm := h.rpu.bind fun r => r.vdr_dm_data.map cDm

/-! ## the write / conversion / edit wrappers -/

/-- the four Rust writers behind `dovi_write_rpu`, `dovi_write_unspec62_nalu`,
`dovi_write_av1_rpu_metadata_obu_t35_payload`, `dovi_write_av1_rpu_metadata_obu_t35_complete` -/
def rustWriters (r : Rpu) : List (Res Bytes) :=
  let w := writeRpu r
  [w, w.bind fun o => .ok (0x7C :: 0x01 :: Esc.escape o), w.bind Av1.wrap, w.bind Av1.wrapComplete]

/-- what a write wrapper hands back: `some (some bytes)` = a `Data`, `some none` = null pointer (and the error
is logged to the handle), `none` = the process aborted (panic inside `extern "C"`) -/
def cData : Res Bytes → Option (Option Bytes)
  | .ok o => some (some o)
  | .error => some none
  | .panic => none

/-- return code of `dovi_convert_rpu_with_mode` / `dovi_rpu_set_active_area_offsets` for a Rust result -/
def cRc {α} : Res α → Option Int
  | .ok _ => some 0
  | .error => some (-1)
  | .panic => none

/-! ## ownership: what the getters allocate, what the free functions release -/

inductive Obj where
  | hdr                        -- Box<RpuDataHeader>
  | map                        -- Box<RpuDataMapping>
  | dm                         -- Box<VdrDmData>
  | nlq                        -- Box<RpuDataNlq>
  | nlqPred                    -- the nlq_pred_pivot_value buffer
  | pivots (c : Nat)           -- the pivots buffer of component c
  | poly (c : Nat)             -- Box<PolynomialCurve> of component c and its four arrays
  | mmr (c : Nat)              -- Box<MMRCurve> of component c and its five arrays
  | single (level : Nat)       -- Box<ExtMetadataBlockLevelN> behind a single-instance pointer
  | list (level : Nat)         -- the boxed slice of pointers of a LevelNBlockList
  | item (level : Nat) (i : Nat)   -- Box<ExtMetadataBlockLevelN> number i of a list
deriving Repr, DecidableEq

def someIf (b : Bool) (o : Obj) : List Obj := if b then [o] else []

/-- `ReshapingCurve::from`: pivots always, one box per present curve kind -/
def allocsCurve (i : Nat) (c : Curve) : List Obj :=
  [.pivots i] ++ someIf c.polynomial.isSome (.poly i) ++ someIf c.mmr.isSome (.mmr i)

/-- `RpuDataMapping::from` -/
def allocsMapping (m : Mapping) : List Obj :=
  [.map] ++ allocsCurve 0 (m.curve 0) ++ allocsCurve 1 (m.curve 1) ++ allocsCurve 2 (m.curve 2) ++
  someIf m.nlq_pred_pivot_value.isSome .nlqPred ++ someIf m.nlq.isSome .nlq

def singleLevels : List Nat := [1, 3, 4, 5, 6, 9, 11, 254, 255]

/-- the arms of `DmData::set_blocks` as the model has them: a block of a single-instance level is boxed into the
pointer field of its level, a block of a list level (and a `Reserved` block) into nothing -/
def cSetBlocksArms : List (String × String) :=
  cBlockLevels.map (fun l => ("Level" ++ toString l, if singleLevels.contains l then "level" ++ toString l else "")) ++
  [("Reserved", "")]

/-- the lists `set_blocks` assigns per container: L2 from the CM v2.9 container only, L8 and L10 from the CM v4.0
container only (`cLevels`), each list filtered by its own level (`levelList`) -/
def cSetBlocksLists : List (String × String) :=
  [("V29", "level2 = Level2BlockList"), ("V40", "level8 = Level8BlockList"), ("V40", "level10 = Level10BlockList")]
def cListFilters : List (String × String) :=
  [("Level2BlockList", "Level2"), ("Level8BlockList", "Level8"), ("Level10BlockList", "Level10")]

/-- `DmData::default()`: every single-instance pointer null, every list empty (what `cLevels {}` gives) -/
def cDmDataDefault : List (String × String) :=
  CLevels.cFields.map fun (f, _) =>
    (f, if (singleLevels.map fun l => "level" ++ toString l).contains f then "null()" else "Default::default()")

/-- `set_blocks`: one `Box::into_raw` per block of a single-instance level (lists are built separately) -/
def allocsSingles (bs : List Block) : List Obj :=
  bs.filterMap fun b => if singleLevels.contains b.level then some (.single b.level) else none

def itemsOf (l n : Nat) : List Obj := (List.range n).map (Obj.item l)

/-- `VdrDmData::from` / `combine_dm_data` -/
def allocsDm (d : DmData) : List Obj :=
  [.dm] ++ allocsSingles d.allBlocks ++
  [.list 2] ++ itemsOf 2 (levelList (containerBlocks d.cmv29) 2).length ++
  [.list 8] ++ itemsOf 8 (levelList (containerBlocks d.cmv40) 8).length ++
  [.list 10] ++ itemsOf 10 (levelList (containerBlocks d.cmv40) 10).length

/-- everything the three getters allocate for `r` -/
def allocs (r : Rpu) : List Obj :=
  [.hdr] ++ (match r.rpu_data_mapping with | some m => allocsMapping m | none => []) ++
  (match r.vdr_dm_data with | some d => allocsDm d | none => [])

/-- a pointer value: null or the object it points to -/
abbrev Ptr := Option Obj

def ptrOf {α} (o : Obj) (x : Option α) : Ptr := x.map fun _ => o

/-- a deallocation site behind an `if !ptr.is_null()` check -/
def guarded (p : Ptr) : List Ptr := if p.isSome then [p] else []

/-- `ReshapingCurve::free`: `if polynomial … else if mmr …` -/
def freeCurve (i : Nat) (c : CCurve) : List Ptr :=
  [some (.pivots i)] ++
  (if c.polynomial.isSome then [ptrOf (.poly i) c.polynomial] else guarded (ptrOf (.mmr i) c.mmr))

/-- `dovi_rpu_free_data_mapping` on the pointer the getter returned -/
def freeMapping (m : CMapping) : List Ptr :=
  freeCurve 0 (m.curves.getD 0 (cCurve {})) ++ freeCurve 1 (m.curves.getD 1 (cCurve {})) ++
  freeCurve 2 (m.curves.getD 2 (cCurve {})) ++
  guarded (if m.nlq_pred_data_null then none else some .nlqPred) ++
  guarded (ptrOf .nlq m.nlq) ++ [some .map]

/-- `LevelNBlockList::free` -/
def freeList (l : Nat) (bs : List Block) : List Ptr := [some (.list l)] ++ (itemsOf l bs.length).map some

/-- `dovi_rpu_free_vdr_dm_data` → `DmData::free` (with the null checks of `free_block`) -/
def freeDm (d : CDm) : List Ptr :=
  let x := d.dm_data
  guarded (ptrOf (.single 1) x.level1) ++ freeList 2 x.level2 ++
  guarded (ptrOf (.single 3) x.level3) ++ guarded (ptrOf (.single 4) x.level4) ++
  guarded (ptrOf (.single 5) x.level5) ++ guarded (ptrOf (.single 6) x.level6) ++
  freeList 8 x.level8 ++ guarded (ptrOf (.single 9) x.level9) ++ freeList 10 x.level10 ++
  guarded (ptrOf (.single 11) x.level11) ++ guarded (ptrOf (.single 254) x.level254) ++
  guarded (ptrOf (.single 255) x.level255) ++ [some .dm]

/-- the frees of the call sequence: each getter result that is non-null is passed to its free function once
(`el_type` points to a static string and is not owned) -/
def freeCalls (v : CView) : List Ptr :=
  [some .hdr] ++ (match v.mapping with | some m => freeMapping m | none => []) ++
  (match v.dm with | some d => freeDm d | none => [])

/-- the objects actually released -/
def frees (v : CView) : List Obj := (freeCalls v).filterMap id

/-- the ownership hypotheses, as executable checks (the driver evaluates them on every parsed case) -/
def Curve.notMixed (c : Curve) : Bool := !(c.polynomial.isSome && c.mmr.isSome)
def Mapping.notMixed (m : Mapping) : Bool := (m.curve 0).notMixed && (m.curve 1).notMixed && (m.curve 2).notMixed
def DmData.singlesOnce (d : DmData) : Bool := singleLevels.all fun l => countLevel d.allBlocks l ≤ 1
def Rpu.ownershipOk (r : Rpu) : Bool :=
  (match r.rpu_data_mapping with | some m => m.notMixed | none => true) &&
  (match r.vdr_dm_data with | some d => d.singlesOnce | none => true)

end Dovi
