import DoviModel.Model.Json
import DoviModel.Model.Av1
import DoviModel.Model.Esc
/-!
# C view of a parsed RPU (`dolby_vision/src/capi.rs`, `c_structs/*.rs`)

`cview r` is what the three getters of the C API hand to a C caller for the RPU `r`: the field-by-field
copies of `c_structs/rpu_data_header.rs`, `rpu_data_mapping.rs`, `rpu_data_nlq.rs`, `vdr_dm_data.rs` and the
combined `DmData` of `extension_metadata.rs` (`combine_dm_data` / `set_blocks`). A pointer is an `Option`
(`none` = null pointer), the `-1` / empty markers are values. `CView.toJson` renders exactly the JSON object
the executor op `capi.view` prints from the real structs (shape documented in
`harness/libcase/src/ops_capi.rs`).

The second half models ownership: `allocs` lists the heap objects the conversions create
(`Box::into_raw`), `freeCalls` lists the pointer handed to the deallocator at every `Box::from_raw` /
`Vec::from_raw_parts` site of the `free` functions, with exactly the null checks the code has. Buffers that
are allocated and released unconditionally together with their owning box (the four arrays of a
`PolynomialCurve`, the five of an `MMRCurve`) are lumped with that box.

Core Lean only (the driver links against this).
-/
namespace Dovi

/-! ## JSON with `null` -/

inductive CJ where
  | null
  | num (n : Int)
  | bool (b : Bool)
  | str (s : String)
  | arr (l : List CJ)
  | obj (l : List (String × CJ))
deriving Repr, Inhabited

partial def CJ.render : CJ → String
  | .null => "null"
  | .num n => toString n
  | .bool b => if b then "true" else "false"
  | .str s => "\"" ++ s ++ "\""
  | .arr l => "[" ++ ",".intercalate (l.map CJ.render) ++ "]"
  | .obj l => "{" ++ ",".intercalate (l.map fun (k, v) => "\"" ++ k ++ "\":" ++ v.render) ++ "}"

def cn (n : Nat) : CJ := .num n
def cns (l : List Nat) : CJ := .arr (l.map cn)
def cis (l : List Int) : CJ := .arr (l.map CJ.num)
/-- a pointer: null or the pointee -/
def cptr {α} (f : α → CJ) : Option α → CJ
  | none => .null
  | some a => f a

/-! ## the structures a C caller sees -/

/-- `RpuDataHeader` of the C API: `guessed_profile`, `el_type` (static string or null) and the copied fields
of the Rust header (`hdr`; the C struct has no `coefficient_log2_denom_length` / `ext_mapping_idc_*`) -/
structure CHeader where
  guessed_profile : Nat
  el_type : Option ElType
  hdr : Header
deriving Repr, DecidableEq

structure CCurve where
  num_pivots_minus2 : Nat
  pivots : List Nat
  mapping_idc : Nat
  polynomial : Option PolyCurve
  mmr : Option MmrCurve
deriving Repr, DecidableEq

structure CMapping where
  vdr_rpu_id : Nat
  mapping_color_space : Nat
  mapping_chroma_format_idc : Nat
  num_x_partitions_minus1 : Nat
  num_y_partitions_minus1 : Nat
  curves : List CCurve
  /-- `-1` represents `Option::None` -/
  nlq_method_idc : Int
  /-- `-1` represents `Option::None` -/
  nlq_num_pivots_minus2 : Int
  /-- length zero when not present -/
  nlq_pred_pivot_value : List Nat
  /-- `U16Data::empty()` carries a null data pointer -/
  nlq_pred_data_null : Bool
  nlq : Option Nlq
deriving Repr, DecidableEq

/-- the combined `DmData` of the C API -/
structure CLevels where
  num_ext_blocks : Nat
  level1 : Option Block
  level2 : List Block
  level3 : Option Block
  level4 : Option Block
  level5 : Option Block
  level6 : Option Block
  level8 : List Block
  level9 : Option Block
  level10 : List Block
  level11 : Option Block
  level254 : Option Block
  level255 : Option Block
deriving Repr, DecidableEq

structure CDm where
  compressed : Bool
  affected_dm_metadata_id : Nat
  current_dm_metadata_id : Nat
  scene_refresh_flag : Nat
  main : List Int
  dm_data : CLevels
deriving Repr, DecidableEq

structure CView where
  header : CHeader
  mapping : Option CMapping
  dm : Option CDm
deriving Repr, DecidableEq

/-! ## the conversions (`From<&Rust struct>`) -/

def cCurve (c : Curve) : CCurve :=
  { num_pivots_minus2 := c.num_pivots_minus2, pivots := c.pivots, mapping_idc := c.mapping_idc.toNat,
    polynomial := c.polynomial, mmr := c.mmr }

/-- `map_or(-1, |e| e as i32)` -/
def optMarker : Option Nat → Int
  | none => -1
  | some v => v

/-- `curves` is a Rust array of three components -/
def Mapping.curve (m : Mapping) (i : Nat) : Curve := m.curves.getD i {}

def cMapping (m : Mapping) : CMapping :=
  { vdr_rpu_id := m.vdr_rpu_id, mapping_color_space := m.mapping_color_space,
    mapping_chroma_format_idc := m.mapping_chroma_format_idc,
    num_x_partitions_minus1 := m.num_x_partitions_minus1, num_y_partitions_minus1 := m.num_y_partitions_minus1,
    curves := [cCurve (m.curve 0), cCurve (m.curve 1), cCurve (m.curve 2)],
    nlq_method_idc := optMarker m.nlq_method_idc,
    nlq_num_pivots_minus2 := optMarker m.nlq_num_pivots_minus2,
    nlq_pred_pivot_value := m.nlq_pred_pivot_value.getD [],
    nlq_pred_data_null := m.nlq_pred_pivot_value.isNone,
    nlq := m.nlq }

/-- `set_blocks`: a later block of a single-instance level overwrites the pointer -/
def lastOfLevel (bs : List Block) (l : Nat) : Option Block :=
  (bs.filter (·.level == l)).getLast?

/-- `LevelNBlockList::from(blocks)`: filter, in order -/
def levelList (bs : List Block) (l : Nat) : List Block := bs.filter (·.level == l)

def containerBlocks : Option Container → List Block
  | some c => c.blocks
  | none => []

def containerCount : Option Container → Nat
  | some c => c.num_ext_blocks
  | none => 0

/-- every block `set_blocks` walks over, CM v2.9 container first -/
def DmData.allBlocks (d : DmData) : List Block := containerBlocks d.cmv29 ++ containerBlocks d.cmv40

/-- `DmData::combine_dm_data` -/
def cLevels (d : DmData) : CLevels :=
  let all := d.allBlocks
  { num_ext_blocks := containerCount d.cmv29 + containerCount d.cmv40,
    level1 := lastOfLevel all 1,
    level2 := levelList (containerBlocks d.cmv29) 2,
    level3 := lastOfLevel all 3,
    level4 := lastOfLevel all 4,
    level5 := lastOfLevel all 5,
    level6 := lastOfLevel all 6,
    level8 := levelList (containerBlocks d.cmv40) 8,
    level9 := lastOfLevel all 9,
    level10 := levelList (containerBlocks d.cmv40) 10,
    level11 := lastOfLevel all 11,
    level254 := lastOfLevel all 254,
    level255 := lastOfLevel all 255 }

def cDm (d : DmData) : CDm :=
  { compressed := d.compressed, affected_dm_metadata_id := d.affected_dm_metadata_id,
    current_dm_metadata_id := d.current_dm_metadata_id, scene_refresh_flag := d.scene_refresh_flag,
    main := d.main, dm_data := cLevels d }

/-- `dovi_rpu_get_header`: `guessed_profile` is recomputed from the header, `el_type` comes from the RPU -/
def cHeader (r : Rpu) : CHeader :=
  { guessed_profile := r.header.getDoviProfile, el_type := r.el_type, hdr := r.header }

/-- the three getters on a handle that holds `r` -/
def cview (r : Rpu) : CView :=
  { header := cHeader r, mapping := r.rpu_data_mapping.map cMapping, dm := r.vdr_dm_data.map cDm }

/-! ## rendering (the shape `capi.view` prints) -/

def CHeader.toJson (c : CHeader) : CJ :=
  let h := c.hdr
  .obj [
  ("guessed_profile", cn c.guessed_profile),
  ("el_type", match c.el_type with | some .mel => .str "MEL" | some .fel => .str "FEL" | none => .null),
  ("rpu_nal_prefix", cn h.rpu_nal_prefix), ("rpu_type", cn h.rpu_type), ("rpu_format", cn h.rpu_format),
  ("vdr_rpu_profile", cn h.vdr_rpu_profile), ("vdr_rpu_level", cn h.vdr_rpu_level),
  ("vdr_seq_info_present_flag", .bool h.vdr_seq_info_present_flag),
  ("chroma_resampling_explicit_filter_flag", .bool h.chroma_resampling_explicit_filter_flag),
  ("coefficient_data_type", cn h.coefficient_data_type), ("coefficient_log2_denom", cn h.coefficient_log2_denom),
  ("vdr_rpu_normalized_idc", cn h.vdr_rpu_normalized_idc),
  ("bl_video_full_range_flag", .bool h.bl_video_full_range_flag),
  ("bl_bit_depth_minus8", cn h.bl_bit_depth_minus8), ("el_bit_depth_minus8", cn h.el_bit_depth_minus8),
  ("vdr_bit_depth_minus8", cn h.vdr_bit_depth_minus8),
  ("spatial_resampling_filter_flag", .bool h.spatial_resampling_filter_flag),
  ("reserved_zero_3bits", cn h.reserved_zero_3bits),
  ("el_spatial_resampling_filter_flag", .bool h.el_spatial_resampling_filter_flag),
  ("disable_residual_flag", .bool h.disable_residual_flag),
  ("vdr_dm_metadata_present_flag", .bool h.vdr_dm_metadata_present_flag),
  ("use_prev_vdr_rpu_flag", .bool h.use_prev_vdr_rpu_flag), ("prev_vdr_rpu_id", cn h.prev_vdr_rpu_id)]

def polyJson (p : PolyCurve) : CJ := .obj [
  ("poly_order_minus1", cns p.poly_order_minus1),
  ("linear_interp_flag", .arr (p.linear_interp_flag.map fun b => CJ.num (if b then 1 else 0))),
  ("poly_coef_int", .arr (p.poly_coef_int.map cis)), ("poly_coef", .arr (p.poly_coef.map cns))]

def mmrJson (m : MmrCurve) : CJ := .obj [
  ("mmr_order_minus1", cns m.mmr_order_minus1), ("mmr_constant_int", cis m.mmr_constant_int),
  ("mmr_constant", cns m.mmr_constant),
  ("mmr_coef_int", .arr (m.mmr_coef_int.map fun r => .arr (r.map cis))),
  ("mmr_coef", .arr (m.mmr_coef.map fun r => .arr (r.map cns)))]

def CCurve.toJson (c : CCurve) : CJ := .obj [
  ("num_pivots_minus2", cn c.num_pivots_minus2), ("pivots", cns c.pivots), ("mapping_idc", cn c.mapping_idc),
  ("polynomial", cptr polyJson c.polynomial), ("mmr", cptr mmrJson c.mmr)]

def nlqJson (n : Nlq) : CJ := .obj [
  ("nlq_offset", cns n.nlq_offset), ("vdr_in_max_int", cns n.vdr_in_max_int), ("vdr_in_max", cns n.vdr_in_max),
  ("linear_deadzone_slope_int", cns n.linear_deadzone_slope_int), ("linear_deadzone_slope", cns n.linear_deadzone_slope),
  ("linear_deadzone_threshold_int", cns n.linear_deadzone_threshold_int),
  ("linear_deadzone_threshold", cns n.linear_deadzone_threshold)]

def CMapping.toJson (m : CMapping) : CJ := .obj [
  ("vdr_rpu_id", cn m.vdr_rpu_id), ("mapping_color_space", cn m.mapping_color_space),
  ("mapping_chroma_format_idc", cn m.mapping_chroma_format_idc),
  ("num_x_partitions_minus1", cn m.num_x_partitions_minus1), ("num_y_partitions_minus1", cn m.num_y_partitions_minus1),
  ("curves", .arr (m.curves.map CCurve.toJson)),
  ("nlq_method_idc", .num m.nlq_method_idc), ("nlq_num_pivots_minus2", .num m.nlq_num_pivots_minus2),
  ("nlq_pred_pivot_value", cns m.nlq_pred_pivot_value), ("nlq", cptr nlqJson m.nlq)]

/-- a block struct as C sees it: every field in declaration order, `length` first for L8/L9/L10 -/
def cBlockJson (b : Block) : CJ :=
  let fields := ((blockFieldNames b.level).zip b.vals).map fun (n, v) =>
    (n, if n == "reference_mode_flag" then CJ.bool (v != 0) else CJ.num v)
  .obj (if b.level == 8 || b.level == 9 || b.level == 10 then ("length", cn b.length) :: fields else fields)

def cListJson (l : List Block) : CJ := .obj [("len", cn l.length), ("list", .arr (l.map cBlockJson))]

def CLevels.toJson (x : CLevels) : CJ := .obj [
  ("num_ext_blocks", cn x.num_ext_blocks),
  ("level1", cptr cBlockJson x.level1), ("level2", cListJson x.level2), ("level3", cptr cBlockJson x.level3),
  ("level4", cptr cBlockJson x.level4), ("level5", cptr cBlockJson x.level5), ("level6", cptr cBlockJson x.level6),
  ("level8", cListJson x.level8), ("level9", cptr cBlockJson x.level9), ("level10", cListJson x.level10),
  ("level11", cptr cBlockJson x.level11), ("level254", cptr cBlockJson x.level254),
  ("level255", cptr cBlockJson x.level255)]

def CDm.toJson (d : CDm) : CJ := .obj (
  [("compressed", .bool d.compressed), ("affected_dm_metadata_id", cn d.affected_dm_metadata_id),
   ("current_dm_metadata_id", cn d.current_dm_metadata_id), ("scene_refresh_flag", cn d.scene_refresh_flag)] ++
  (dmMainNames.zip d.main).map (fun (n, v) => (n, CJ.num v)) ++
  [("dm_data", d.dm_data.toJson)])

def CView.toJson (v : CView) : CJ := .obj [
  ("header", v.header.toJson), ("mapping", cptr CMapping.toJson v.mapping), ("dm", cptr CDm.toJson v.dm)]

/-! ## the handle (`RpuOpaque`) and the three parse wrappers -/

/-- `RpuOpaque { rpu: Option<DoviRpu>, error: Option<CString> }` (the text of the error is not modelled) -/
structure Handle where
  rpu : Option Rpu
  error : Bool
deriving Repr, DecidableEq

/-- `RpuOpaque::from(Result<DoviRpu>)`; a panic inside `extern "C"` aborts the process: no handle -/
def Handle.ofRes : Res Rpu → Option Handle
  | .ok r => some { rpu := some r, error := false }
  | .error => some { rpu := none, error := true }
  | .panic => none

/-- `DoviRpu::parse_unspec62_nalu` -/
def parseNaluEntry (d : Bytes) : Res Rpu := (trimPrefix d).bind fun t => parseRpu (Esc.unescape t)

def cParseRpu (d : Bytes) : Option Handle := Handle.ofRes (parseRpuEntry d)
def cParseNalu (d : Bytes) : Option Handle := Handle.ofRes (parseNaluEntry d)
def cParseAv1 (d : Bytes) : Option Handle := Handle.ofRes (Av1.parseObu d)

/-- `dovi_rpu_get_error` returns non-null -/
def Handle.getError (h : Handle) : Bool := h.error
/-- `dovi_rpu_get_header` (null when the handle holds no RPU) -/
def Handle.getHeader (h : Handle) : Option CHeader := h.rpu.map cHeader
def Handle.getMapping (h : Handle) : Option CMapping := h.rpu.bind fun r => r.rpu_data_mapping.map cMapping
def Handle.getDm (h : Handle) : Option CDm := h.rpu.bind fun r => r.vdr_dm_data.map cDm

/-! ## the write / conversion / edit wrappers -/

/-- the four Rust writers behind `dovi_write_rpu`, `dovi_write_unspec62_nalu`,
`dovi_write_av1_rpu_metadata_obu_t35_payload`, `dovi_write_av1_rpu_metadata_obu_t35_complete` -/
def rustWriters (r : Rpu) : List (Res Bytes) :=
  let w := writeRpu r
  [w, w.bind fun o => .ok (0x7C :: 0x01 :: Esc.escape o), w.bind Av1.wrap, w.bind Av1.wrapComplete]

/-- what a write wrapper hands back: `some (some bytes)` = a `Data`, `some none` = null pointer (and the error
is logged to the handle), `none` = the process aborted (panic inside `extern "C"`) -/
def cData : Res Bytes → Option (Option Bytes)
  | .ok o => some (some o)
  | .error => some none
  | .panic => none

/-- return code of `dovi_convert_rpu_with_mode` / `dovi_rpu_set_active_area_offsets` for a Rust result -/
def cRc {α} : Res α → Option Int
  | .ok _ => some 0
  | .error => some (-1)
  | .panic => none

/-! ## ownership: what the getters allocate, what the free functions release -/

inductive Obj where
  | hdr                        -- Box<RpuDataHeader>
  | map                        -- Box<RpuDataMapping>
  | dm                         -- Box<VdrDmData>
  | nlq                        -- Box<RpuDataNlq>
  | nlqPred                    -- the nlq_pred_pivot_value buffer
  | pivots (c : Nat)           -- the pivots buffer of component c
  | poly (c : Nat)             -- Box<PolynomialCurve> of component c and its four arrays
  | mmr (c : Nat)              -- Box<MMRCurve> of component c and its five arrays
  | single (level : Nat)       -- Box<ExtMetadataBlockLevelN> behind a single-instance pointer
  | list (level : Nat)         -- the boxed slice of pointers of a LevelNBlockList
  | item (level : Nat) (i : Nat)   -- Box<ExtMetadataBlockLevelN> number i of a list
deriving Repr, DecidableEq

def someIf (b : Bool) (o : Obj) : List Obj := if b then [o] else []

/-- `ReshapingCurve::from`: pivots always, one box per present curve kind -/
def allocsCurve (i : Nat) (c : Curve) : List Obj :=
  [.pivots i] ++ someIf c.polynomial.isSome (.poly i) ++ someIf c.mmr.isSome (.mmr i)

/-- `RpuDataMapping::from` -/
def allocsMapping (m : Mapping) : List Obj :=
  [.map] ++ allocsCurve 0 (m.curve 0) ++ allocsCurve 1 (m.curve 1) ++ allocsCurve 2 (m.curve 2) ++
  someIf m.nlq_pred_pivot_value.isSome .nlqPred ++ someIf m.nlq.isSome .nlq

def singleLevels : List Nat := [1, 3, 4, 5, 6, 9, 11, 254, 255]

/-- `set_blocks`: one `Box::into_raw` per block of a single-instance level (lists are built separately) -/
def allocsSingles (bs : List Block) : List Obj :=
  bs.filterMap fun b => if singleLevels.contains b.level then some (.single b.level) else none

def itemsOf (l n : Nat) : List Obj := (List.range n).map (Obj.item l)

/-- `VdrDmData::from` / `combine_dm_data` -/
def allocsDm (d : DmData) : List Obj :=
  [.dm] ++ allocsSingles d.allBlocks ++
  [.list 2] ++ itemsOf 2 (levelList (containerBlocks d.cmv29) 2).length ++
  [.list 8] ++ itemsOf 8 (levelList (containerBlocks d.cmv40) 8).length ++
  [.list 10] ++ itemsOf 10 (levelList (containerBlocks d.cmv40) 10).length

/-- everything the three getters allocate for `r` -/
def allocs (r : Rpu) : List Obj :=
  [.hdr] ++ (match r.rpu_data_mapping with | some m => allocsMapping m | none => []) ++
  (match r.vdr_dm_data with | some d => allocsDm d | none => [])

/-- a pointer value: null or the object it points to -/
abbrev Ptr := Option Obj

def ptrOf {α} (o : Obj) (x : Option α) : Ptr := x.map fun _ => o

/-- a deallocation site behind an `if !ptr.is_null()` check -/
def guarded (p : Ptr) : List Ptr := if p.isSome then [p] else []

/-- `ReshapingCurve::free`: `if polynomial … else if mmr …` -/
def freeCurve (i : Nat) (c : CCurve) : List Ptr :=
  [some (.pivots i)] ++
  (if c.polynomial.isSome then [ptrOf (.poly i) c.polynomial] else guarded (ptrOf (.mmr i) c.mmr))

/-- `dovi_rpu_free_data_mapping` on the pointer the getter returned -/
def freeMapping (m : CMapping) : List Ptr :=
  freeCurve 0 (m.curves.getD 0 (cCurve {})) ++ freeCurve 1 (m.curves.getD 1 (cCurve {})) ++
  freeCurve 2 (m.curves.getD 2 (cCurve {})) ++
  guarded (if m.nlq_pred_data_null then none else some .nlqPred) ++
  guarded (ptrOf .nlq m.nlq) ++ [some .map]

/-- `LevelNBlockList::free` -/
def freeList (l : Nat) (bs : List Block) : List Ptr := [some (.list l)] ++ (itemsOf l bs.length).map some

/-- `dovi_rpu_free_vdr_dm_data` → `DmData::free` (with the null checks of `free_block`) -/
def freeDm (d : CDm) : List Ptr :=
  let x := d.dm_data
  guarded (ptrOf (.single 1) x.level1) ++ freeList 2 x.level2 ++
  guarded (ptrOf (.single 3) x.level3) ++ guarded (ptrOf (.single 4) x.level4) ++
  guarded (ptrOf (.single 5) x.level5) ++ guarded (ptrOf (.single 6) x.level6) ++
  freeList 8 x.level8 ++ guarded (ptrOf (.single 9) x.level9) ++ freeList 10 x.level10 ++
  guarded (ptrOf (.single 11) x.level11) ++ guarded (ptrOf (.single 254) x.level254) ++
  guarded (ptrOf (.single 255) x.level255) ++ [some .dm]

/-- the frees of the call sequence: each getter result that is non-null is passed to its free function once
(`el_type` points to a static string and is not owned) -/
def freeCalls (v : CView) : List Ptr :=
  [some .hdr] ++ (match v.mapping with | some m => freeMapping m | none => []) ++
  (match v.dm with | some d => freeDm d | none => [])

/-- the objects actually released -/
def frees (v : CView) : List Obj := (freeCalls v).filterMap id

/-- the ownership hypotheses, as executable checks (the driver evaluates them on every parsed case) -/
def Curve.notMixed (c : Curve) : Bool := !(c.polynomial.isSome && c.mmr.isSome)
def Mapping.notMixed (m : Mapping) : Bool := (m.curve 0).notMixed && (m.curve 1).notMixed && (m.curve 2).notMixed
def DmData.singlesOnce (d : DmData) : Bool := singleLevels.all fun l => countLevel d.allBlocks l ≤ 1
def Rpu.ownershipOk (r : Rpu) : Bool :=
  (match r.rpu_data_mapping with | some m => m.notMixed | none => true) &&
  (match r.vdr_dm_data with | some d => d.singlesOnce | none => true)

end Dovi
