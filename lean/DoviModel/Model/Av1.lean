import DoviModel.Model.Rpu
/-!
# M9 — AV1 ITU-T T.35 / EMDF wrapping (`dolby_vision/src/av1/mod.rs`, `emdf.rs`)
-/
namespace Dovi.Av1
open Dovi

def headerBytes : Bytes := [0x00, 0x3B, 0x00, 0x00, 0x08, 0x00, 0x37, 0xCD, 0x08]

/-- `parse_variable_bits(reader, n)` on a `u32` accumulator with checked arithmetic; `fuel` bounds the
number of groups (each group consumes `n + 1 ≥ 1` bits, so `fuel = available bits` never runs out first) -/
def parseVB (n : Nat) : Nat → Nat → P Nat
  | 0, _ => P.fail
  | fuel+1, value => do
    let tmp ← readN n
    let value := value + tmp
    P.ensure (value < 2^32)
    let more ← readBit
    if !more then pure value
    else do
      let v2 := (value + 1) * 2^n
      P.ensure (value + 1 < 2^32 && v2 < 2^32)
      parseVB n fuel v2

/-- `write_variable_bits(writer, value, n)` for `value : u32`. The Rust loop runs exactly once: after the
first iteration `remaining = value % 2^n < 2^n`. -/
def writeVB (n value : Nat) : Res Bits :=
  if value ≥ 2^n then
    wcat [writeN n (value / 2^n - 1), .ok [true], writeN n (value % 2^n), .ok [false]]
  else
    wcat [writeN n value, .ok [false]]

/-- `write_dovi_rpu_emdf_header` -/
def writeEmdfHeader : Res Bits :=
  wcat [writeN 2 0, writeN 3 6, writeN 5 31, writeVB 5 225, writeN 4 0, .ok [true]]

/-- `write_emdf_container_with_dovi_rpu_payload` -/
def writeEmdf (payload : Bytes) : Res Bits :=
  wcat [writeEmdfHeader, writeVB 8 payload.length, .ok (bytesToBits payload),
        writeN 5 0, writeN 2 1, writeN 2 0, writeN 8 0]

def padOnes (written : Nat) : Bits := List.replicate ((8 - written % 8) % 8) true

/-- the T.35 payload for an EMDF payload `payload` (= the RPU without its 0x19 prefix and trailing zeros) -/
def wrapPayload (payload : Bytes) : Res Bytes :=
  (wcat [writeN 16 0x3B, writeN 32 0x800, writeEmdf payload]).bind fun bits =>
  .ok (bitsToBytes (bits ++ padOnes bits.length))

/-- `convert_regular_rpu_to_av1_payload(data)`; `data` starts with the 0x19 prefix -/
def wrap (data : Bytes) : Res Bytes :=
  match data with
  | [] => .panic                              -- `data[0]`
  | b0 :: _ =>
    if b0 != 0x19 then .error
    else
      let tz := trailingZeroes data
      let rpuEnd := data.length - tz
      -- rpuEnd ≥ 1 because data[0] = 0x19 ≠ 0
      let last := (data.take rpuEnd).getLast?.getD 0
      if last != 0x80 then .error
      else wrapPayload ((data.take rpuEnd).drop 1)

/-- `write_av1_rpu_metadata_obu_t35_complete` -/
def wrapComplete (data : Bytes) : Res Bytes := (wrap data).bind fun o => .ok (0xB5 :: o)

/-- `av1_validated_trimmed_data` -/
def trim (data : Bytes) : Res Bytes :=
  if data.length < 34 then .error
  else
    let d := match data with
      | 0xB5 :: rest => rest
      | _ => data
    if d.take 9 == headerBytes then .ok d else .error

/-- `parse_emdf_container` -/
def parseEmdf : P Nat := do
  let v ← readN 2; P.ensure (v == 0)
  let k ← readN 3; P.ensure (k == 6)
  let id ← readN 5; P.ensure (id == 31)
  let avail ← P.available
  let ext ← parseVB 5 (avail + 1) 0; P.ensure (ext == 225)
  let a ← readBit; P.ensure (!a)
  let b ← readBit; P.ensure (!b)
  let c ← readBit; P.ensure (!c)
  let d ← readBit; P.ensure (!d)
  let e ← readBit; P.ensure e
  let avail ← P.available
  parseVB 8 (avail + 1) 0

/-- `convert_av1_rpu_payload_to_regular` -/
def unwrapBits : P Bytes := do
  let code ← readN 16; P.ensure (code == 0x3B)
  let oriented ← readN 32; P.ensure (oriented == 0x800)
  let size ← parseEmdf
  let avail ← P.available
  P.ensure (size ≤ avail / 8)
  let bytes ← repeatP size (readN 8)
  pure (0x19 :: bytes.map UInt8.ofNat)

def unwrap (data : Bytes) : Res Bytes :=
  (trim data).bind fun d =>
    match unwrapBits (bytesToBits d) with
    | .ok (b, _) => .ok b
    | .error => .error
    | .panic => .panic

/-- `DoviRpu::parse_itu_t35_dovi_metadata_obu` -/
def parseObu (data : Bytes) : Res Rpu := (unwrap data).bind parseRpu

end Dovi.Av1
