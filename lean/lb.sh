#!/bin/sh
# lb.sh <module> : build one module, print only that module's errors / infos (truncated)
timeout 1500 lake build $1 2>&1 | awk '/^(error|info): DoviModel/{p=1} /^(warning|⚠|✖|✔|ℹ)/{p=0} p' | cut -c1-${W:-200} | head -${N:-80}
