import Driver.Util
import Driver.Wf
import DoviModel.Model.Json
import DoviModel.Model.Esc
import DoviModel.Model.Nalu
import DoviModel.Model.St2094
import DoviModel.Model.RpuFile
namespace Driver.RpuOps
open Dovi Driver

def resJson (r : Res Rpu) : String :=
  match r with
  | .ok r => "ok " ++ r.toJson.render
  | .error => "err"
  | .panic => "panic"

def resWrite (p : Res Rpu) (w : Rpu → Res Bytes) : String :=
  match p with
  | .ok r => (match w r with | .ok o => "ok " ++ hexOf o | .error => "ok werr" | .panic => "ok wpanic")
  | .error => "err"
  | .panic => "panic"

def cls {α} (r : Res α) : String :=
  match r with | .ok _ => "ok" | .error => "err" | .panic => "panic"

def run : List String → String
  | ["rpu.json", h] => resJson (parseRpuEntry (unhex h))
  | ["nalu.json", h] => resJson (parseNalu (unhex h))
  | ["rpu.write", h] => resWrite (parseRpuEntry (unhex h)) writeRpu
  | ["nalu.write", h] => resWrite (parseNalu (unhex h)) writeNalu
  | ["rpu.wf", h] => (match parseRpuEntry (unhex h) with | .ok r => Driver.wfLine r | .error => "err" | .panic => "panic")
  | ["nalu.wf", h] => (match parseNalu (unhex h) with | .ok r => Driver.wfLine r | .error => "err" | .panic => "panic")
  | ["rpu.class", h] => (match parseRpuEntry (unhex h) with | .ok _ => "ok" | .error => "err" | .panic => "panic")
  | ["c08.rpu", h] => cls (parseRpuEntry (unhex h))
  | ["c08.nalu", h] => cls (parseNalu (unhex h))
  | ["c08.st2094", h] => cls (St2094.parse (unhex h))
  | ["c08.file", h] => cls (RpuFile.parseRpuFile 100000 (unhex h))
  | ["c08.capifile", h] => cls (RpuFile.parseRpuFile 100000 (unhex h))
  | ["c08.capi", "rpu", h] => cls (parseRpuEntry (unhex h))
  | ["c08.capi", "nalu", h] => cls (parseNalu (unhex h))
  | _ => "bad-op"

end Driver.RpuOps
