import Driver.Util
import Driver.OpsGen
import DoviModel.Model.GenSources
/-!
`c10.gensrc` — the HDR10+ / madVR source paths of `generate` on decoded integer inputs (Model/GenSources.lean).

    c10.gensrc madvr <config> <custom 0|1> <-p: -|5|81|84> <--long-play-mode: -|0|1> <source>
        source = flags=F&maxcll=N&maxfall=N&frames=N&scenes=start:endPlus1:maxCode:avgCode~...&targets=c:c:...
    c10.gensrc hdr10plus <config> <-p> <--long-play-mode> <source>
        source = firsts=n:n:...&lengths=n:n:...&frames=maxCode:avgCode~-~...      (`-` = the frame has no peak value)

`<config>` is the compact config of the `gen` op; an empty list is `-`. The answer has the format of `gen`:
`ok <n> <hex>,<hex>,...` | `err` | `panic`.
-/
namespace Driver.GenSrcOps
open Dovi Driver Dovi.Gen

def natList (s : String) (sep : String) : List Nat :=
  if s.isEmpty || s == "-" then [] else (s.splitOn sep).map String.toNat!

def fields (s : String) : List (String × String) :=
  (s.splitOn "&").map fun kv =>
    let k := (kv.splitOn "=").headD ""
    (k, (kv.drop (k.length + 1)).toString)

def field (fs : List (String × String)) (k : String) : String :=
  match fs.find? (fun kv => kv.1 == k) with
  | some kv => kv.2
  | none => ""

def parseMadvr (s : String) : MadvrSource :=
  let fs := fields s
  let sc := field fs "scenes"
  { flags := (field fs "flags").toNat!, maxcll := (field fs "maxcll").toNat!, maxfall := (field fs "maxfall").toNat!,
    frameCount := (field fs "frames").toNat!,
    scenes := if sc.isEmpty || sc == "-" then [] else (sc.splitOn "~").map fun e =>
      match e.splitOn ":" with
      | [a, b, c, d] => { start := a.toNat!, endRaw := b.toNat!, maxCode := c.toNat!, avgCode := d.toNat! }
      | _ => default,
    targets := natList (field fs "targets") ":" }

def parseHdr (s : String) : HdrSource :=
  let fs := fields s
  let fr := field fs "frames"
  { firsts := natList (field fs "firsts") ":", lengths := natList (field fs "lengths") ":",
    frames := if fr.isEmpty then [] else (fr.splitOn "~").map fun e =>
      match e.splitOn ":" with
      | [a, b] => some (a.toNat!, b.toNat!)
      | _ => none }

def render : Res (List Bytes) → String
  | .ok out => s!"ok {out.length} " ++ (if out.isEmpty then "-" else ",".intercalate (out.map hexOf))
  | .error => "err"
  | .panic => "panic"

def ovr (p lp : String) : Option Profile × Option Bool :=
  (if p == "-" then none else some (GenOps.profOf p), if lp == "-" then none else some (lp == "1"))

def run : List String → String
  | ["c10.gensrc", "madvr", cfg, custom, p, lp, src] =>
    let (po, lo) := ovr p lp
    render (generateMadvr (GenOps.parseConfig cfg) (parseMadvr src) (custom == "1") po lo)
  | ["c10.gensrc", "hdr10plus", cfg, p, lp, src] =>
    let (po, lo) := ovr p lp
    render (generateHdr10plus (GenOps.parseConfig cfg) (parseHdr src) po lo)
  | _ => "bad-op"

end Driver.GenSrcOps
