import Driver.Util
import DoviModel.Model.Esc
import DoviModel.Model.Split
namespace Driver.C13
open Dovi Driver

def alphabet : Array UInt8 := #[0x00, 0x01, 0x02, 0x03, 0x04, 0xff]

/-- advance the index vector (position 0 fixed); `none` when exhausted -/
def nextIdx (idx : Array Nat) : Option (Array Nat) := Id.run do
  let len := idx.size
  let mut p := len
  let mut a := idx
  while p > 1 do
    p := p - 1
    if a[p]! + 1 < alphabet.size then
      a := a.set! p (a[p]! + 1)
      for q in [p+1:len] do
        a := a.set! q 0
      return some a
  return none

partial def digestLoop (idx : Array Nat) (f : Fnv) (count : Nat) : Fnv × Nat :=
  let s : Bytes := 0x19 :: (idx.toList.map fun i => alphabet[i]!)
  let f := f.bytes (Esc.escape s)
  let f := f.bytes (Esc.unescape s)
  match nextIdx idx with
  | none => (f, count + 1)
  | some idx' => digestLoop idx' f (count + 1)

def digestBucket (len first : Nat) : String :=
  let idx := (Array.replicate len 0)
  let idx := if len > 0 then idx.set! 0 first else idx
  let (f, c) := digestLoop idx {} 0
  s!"ok {hex16 f.h} {c}"

def run : List String → String
  | ["esc", h] => "ok " ++ hexOf (Esc.escape (unhex h))
  | ["unesc", h] => "ok " ++ hexOf (Esc.unescape (unhex h))
  | ["hesc", h] => "ok " ++ hexOf (Esc.escape (unhex h))
  | ["hunesc", h] => "ok " ++ hexOf (Esc.unescape (unhex h))
  | ["escdigest", l, f] => digestBucket l.toNat! f.toNat!
  | _ => "bad-op"

end Driver.C13
