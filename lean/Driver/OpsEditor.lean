import Driver.Util
import DoviModel.Model.Editor
namespace Driver.EditorOps
open Dovi Driver Dovi.Editor

def nats (s : String) (sep : String) : List Nat := if s.isEmpty then [] else (s.splitOn sep).map String.toNat!

/-- compact config: `key=value` pairs joined by `&`; lists joined by `|`; tuples by `:` (keys of map entries
never contain these characters) -/
def parseConfig (s : String) : Config := Id.run do
  let mut c : Config := {}
  if s == "-" then return c
  for kv in s.splitOn "&" do
    let k := (kv.splitOn "=").headD ""
    let v := (kv.drop (k.length + 1)).toString
    let items := if v.isEmpty then [] else v.splitOn "|"
    match k with
    | "mode" => c := { c with mode := v.toNat! }
    | "rmcmv4" => c := { c with removeCmv4 := v == "1" }
    | "rmmap" => c := { c with removeMapping := v == "1" }
    | "min" => c := { c with minPq := some v.toNat! }
    | "max" => c := { c with maxPq := some v.toNat! }
    | "aa" => c := { c with hasActiveArea := true }
    | "crop" => c := { c with crop := v == "1" }
    | "dropl5" => c := { c with dropL5 := some v }
    | "presets" => c := { c with presets := some (items.map fun it =>
        match nats it ":" with
        | [a, b, cc, d, e] => { id := a, left := b, right := cc, top := d, bottom := e }
        | _ => { id := 0, left := 0, right := 0, top := 0, bottom := 0 }) }
    | "aaedits" => c := { c with aaEdits := some (items.map fun it =>
        let p := it.splitOn ":"; (p.headD "", (p.getD 1 "0").toNat!)) }
    | "remove" => c := { c with remove := some items }
    | "dup" => c := { c with duplicate := some (items.map fun it =>
        match nats it ":" with | [a, b, cc] => (a, b, cc) | _ => (0, 0, 0)) }
    | "cuts" => c := { c with sceneCuts := some (items.map fun it =>
        let p := it.splitOn ":"; (p.headD "", p.getD 1 "0" == "1")) }
    | "l6" => c := { c with level6 := some (nats v ":") }
    | "l9" => c := { c with level9 := some v.toNat! }
    | "l11" => c := { c with level11 := some (nats v ":") }
    | "l255" => c := { c with level255 := some (nats v ":") }
    | "levels" => c := { c with levels := some (nats v "|") }
    | _ => c := c
  return c

def parseList (s : String) : Option (List Rpu) :=
  if s == "-" then some [] else
  (s.splitOn ",").mapM fun h =>
    match parseRpuEntry (unhex h) with
    | .ok r => some r
    | _ => none

def run : List String → String
  | ["editor", cfg, rpus, src] =>
    match parseList rpus with
    | none => "err"
    | some rs =>
      let c := parseConfig cfg
      let c := if src == "-" then c else { c with source := parseList src }
      if src != "-" && c.source.isNone then "err" else
      match edit c rs with
      | .ok out => s!"ok {out.length} " ++ (if out.isEmpty then "-" else ",".intercalate (out.map hexOf))
      | .error => "err"
      | .panic => "panic"
  | _ => "bad-op"

end Driver.EditorOps
