import Driver.Util
import DoviModel.Model.PqTable
/-!
C19 — the `pq.*` ops answered from the certified integer tables of `Model/PqTable.lean` (no floating point
anywhere on the model side).  Each op mirrors `harness/libcase/src/ops_pq.rs`.
-/
namespace Driver.PqOps
open Dovi.PqTable

def joinNats (xs : List Nat) : String :=
  "ok " ++ " ".intercalate (xs.map toString)

/-- exact value of a finite non-negative `f64` bit pattern as `m · 2^e` (`none` for negatives other than -0,
infinities and NaN) -/
def f64Decode (bits : Nat) : Option (Nat × Int) :=
  let sign := bits >>> 63
  let e := (bits >>> 52) % 2048
  let f := bits % 2 ^ 52
  if sign != 0 && (e != 0 || f != 0) then none
  else if e == 2047 then none
  else if e == 0 then some (f, -1074)
  else some (f + 2 ^ 52, (e : Int) - 1075)

/-- the certified code of the luminance (nits) given as an `f64` bit pattern: `y = nits / 10000` as an exact
rational, then `codeOfRat` (binary search in the tie-point table, answer only inside a certified bracket) -/
def f64Code (bits : Nat) : String :=
  match f64Decode bits with
  | none => "nan"
  | some (m, e) =>
    let (yn, yd) := if e ≥ 0 then (m * 2 ^ e.toNat, 10000) else (m, 10000 * 2 ^ (-e).toNat)
    match codeOfRat yn yd with
    | some c => toString c
    | none => "gap"

/-- `ExtMetadataBlockLevel6::source_meta_from_l6` (a fixed lookup in the Rust code; the entries are the certified
codes of 0.0001 / 0.005 nits and of 1000 / 2000 / 4000 / 10000 nits — theorem `C19.anchors`) -/
def sourceMetaFromL6 (mdlMin mdlMax : Nat) : Nat × Nat :=
  let mn := if mdlMin ≤ 10 then 7 else if mdlMin == 50 then 62 else 0
  let mx := if mdlMax == 1000 then 3079 else if mdlMax == 2000 then 3388 else if mdlMax == 4000 then 3696
            else if mdlMax == 10000 then 4095 else 3079
  (mn, mx)

def run : List String → String
  | ["pq.nits"] => joinNats ((List.range 10001).map codeOfNits)
  | ["pq.minlum"] => joinNats ((List.range 10001).map codeOfMinLum)
  | ["pq.l2"] => joinNats ((List.range 10001).map codeOfNits)
  | ["pq.codes"] => joinNats (List.range 4096)
  | ["pq.round100"] => joinNats ((List.range 4096).map nitsRound100)
  | ["pq.round1000"] => joinNats ((List.range 4096).map nitsRound1000)
  | "pq.f64code" :: bs => "ok " ++ " ".intercalate (bs.map fun b => f64Code b.toNat!)
  | ["pq.bracket", c] =>
    let c := c.toNat!
    let lo := if c == 0 then 0 else yUp (c - 1)
    let hi := if c ≥ 4095 then 2 ^ SY else yDown c
    s!"ok {lo} {hi}"
  | ["pq.mono"] =>
    -- the real functions are strictly increasing (theorem `C19.pq_strictMono`): no violation
    "ok 0 0 0 -1 -1 -1"
  | ["pq.l6", a, b] =>
    let (x, y) := sourceMetaFromL6 a.toNat! b.toNat!
    s!"ok {x} {y}"
  | _ => "bad-op"

end Driver.PqOps
