import Driver.Util
import DoviModel.Model.RpuFile
namespace Driver.FileOps
open Dovi Driver

def run : List String → String
  | ["file.parse", c, h] =>
    (match RpuFile.parseRpuFile c.toNat! (unhex h) with
     | .ok rs => s!"ok {rs.length} " ++ (if rs.isEmpty then "-" else ",".intercalate (rs.map fun r => toString r.rpu_data_crc32))
     | .error => "err"
     | .panic => "panic")
  | _ => "bad-op"

end Driver.FileOps
