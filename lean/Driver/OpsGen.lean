import Driver.Util
import Driver.OpsEdit
import DoviModel.Model.Generate
namespace Driver.GenOps
open Dovi Driver Dovi.Gen

def blocksOf (s : String) (sep : String) : List Block :=
  if s.isEmpty then [] else (s.splitOn sep).map EditOps.parseBlockCompact

def profOf (s : String) : Profile := if s == "5" then .p5 else if s == "84" then .p84 else .p81

def parseShot (s : String) : Shot :=
  match s.splitOn ":" with
  | [st, du, bl, ed] =>
    { start := st.toNat!, duration := du.toNat!, blocks := blocksOf bl ";",
      edits := if ed.isEmpty then [] else (ed.splitOn "^").map fun e =>
        match e.splitOn "@" with
        | [o, bs] => { offset := o.toNat!, blocks := blocksOf bs "+" }
        | _ => { offset := 0, blocks := [] } }
  | _ => {}

def parseConfig (s : String) : Config := Id.run do
  let mut c : Config := {}
  if s == "-" then return c
  for kv in s.splitOn "&" do
    let k := (kv.splitOn "=").headD ""
    let v := (kv.drop (k.length + 1)).toString
    match k with
    | "cm" => c := { c with cmv40 := v == "40" }
    | "profile" => c := { c with profile := profOf v }
    | "lp" => c := { c with longPlay := v == "1" }
    | "length" => c := { c with length := v.toNat! }
    | "min" => c := { c with sourceMinPq := some v.toNat! }
    | "max" => c := { c with sourceMaxPq := some v.toNat! }
    | "l1cm" => c := { c with l1AvgCmv40 := some (v == "40") }
    | "l5" => c := { c with level5 := (v.splitOn ":").map String.toNat! }
    | "l6" => c := { c with level6 := some ((v.splitOn ":").map String.toNat!) }
    | "defaults" => c := { c with defaults := blocksOf v ";" }
    | "shots" => c := { c with shots := if v.isEmpty then [] else (v.splitOn "~").map parseShot }
    | _ => c := c
  return c

def run : List String → String
  | ["gen", cfg, p, lp] =>
    let c := parseConfig cfg
    let po := if p == "-" then none else some (profOf p)
    let lo := if lp == "-" then none else some (lp == "1")
    (match generate c po lo with
     | .ok out => s!"ok {out.length} " ++ (if out.isEmpty then "-" else ",".intercalate (out.map hexOf))
     | .error => "err"
     | .panic => "panic")
  | _ => "bad-op"

end Driver.GenOps
