import Driver.Util
import DoviModel.Proofs.Rpu
import DoviModel.Proofs.PwMapping
namespace Driver
open Dovi

/-- which conjunct of `RpuWfB` fails first (for the evidence histogram) -/
def wfWhy (r : Rpu) : String :=
  if !r.header.Wf then "header"
  else if r.header.rpu_nal_prefix != 25 then "prefix"
  else if r.dovi_profile != r.header.getDoviProfile then "profile"
  else if !decide (r.el_type = r.rpu_data_mapping.bind Mapping.elType) then "el_type"
  else if !(if r.header.use_prev_vdr_rpu_flag then r.rpu_data_mapping.isNone
            else match r.rpu_data_mapping with | some m => MappingWf r.header m | none => false) then
    (match r.rpu_data_mapping with
     | some m => if MappingShape r.header m then "mapping-se-inexact" else "mapping-shape"
     | none => "mapping-presence")
  else if !(if r.header.vdr_dm_metadata_present_flag then
              match r.vdr_dm_data with | some d => DmWfB r d | none => false
            else r.vdr_dm_data.isNone) then
    (match r.vdr_dm_data with
     | some d => if !decide (d.reparsed = d) then "dm-not-wire-normal"
                 else if d.cmv40.isNone && (r.remaining.getD []).length > 8 then "dm-no-cmv40-with-data-before-crc"
                 else "dm-shape"
     | none => "dm-presence")
  else "remaining"

/-- `sesmall=<0|1> wf=<0|1> why=<conjunct> write=<ok|err|panic> reparse=<same|diff|fail|->` -/
def wfLine (r : Rpu) : String :=
  let se := match r.rpu_data_mapping with | some m => m.seSmall | none => true
  (if se then "sesmall=1 " else "sesmall=0 ") ++ wfLine' r
where wfLine' (r : Rpu) : String :=
  let wf := RpuWfB r
  let why := if wf then "-" else wfWhy r
  match writeRpu r with
  | .error => s!"wf={if wf then 1 else 0} why={why} write=err reparse=-"
  | .panic => s!"wf={if wf then 1 else 0} why={why} write=panic reparse=-"
  | .ok o =>
    let rp := match parseRpu o with
      | .ok r' => if decide (r' = { r with rpu_data_crc32 := r'.rpu_data_crc32, modified := false }) then "same" else "diff"
      | _ => "fail"
    s!"wf={if wf then 1 else 0} why={why} write=ok reparse={rp}"

end Driver
