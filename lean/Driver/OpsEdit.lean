import Driver.Util
import Driver.Wf
import Driver.OpsRpu
import DoviModel.Model.Ops
import DoviModel.Model.Json
namespace Driver.EditOps
open Dovi Driver

def parseInts (s : String) : List Int :=
  if s.isEmpty then [] else (s.splitOn ",").map fun t => t.toInt!

/-- `level/length/v1,v2,…` -/
def parseBlockCompact (s : String) : Block :=
  match s.splitOn "/" with
  | [l, len, vs] => { level := l.toNat!, length := len.toNat!, vals := parseInts vs }
  | _ => { level := 0, length := 0, vals := [] }

def optNat (s : String) : Option Nat := if s == "-" then none else some s.toNat!

def withDm (r : Rpu) (f : DmData → Res DmData) : Res Rpu :=
  match r.vdr_dm_data with
  | none => .ok r
  | some d => (f d).bind fun d' => .ok { r with vdr_dm_data := some d' }

/-- one operation of the public surface -/
def applyOp (r : Rpu) (op : String) : Res Rpu :=
  let name := (op.splitOn ":").headD ""
  let rest := (op.drop (name.length + 1)).toString
  -- block arguments carry JSON (with colons) after the `|`: split the name off only
  let parts := if name == "repl" || name == "add" || name == "repllevel" then [name, rest] else op.splitOn ":"
  match parts with
  | ["crop"] => r.crop
  | ["mode", n] => r.convertWithMode (modeOfU8 (n.toNat! % 256))
  | ["rmmap"] => .ok r.removeMapping
  | ["rmcmv4"] => .ok r.removeCmv40
  | ["offs", v] => (match (parseInts v).map Int.toNat with
      | [l, rr, t, b] => r.setActiveAreaOffsets l rr t b
      | _ => .error)
  | ["minmax", a, b] =>
      withDm { r with modified := true } fun d => .ok (d.changeSourceLevels (optNat a) (optNat b))
  | ["scene", v] => withDm { r with modified := true } fun d => .ok { d with scene_refresh_flag := v.toNat! }
  | ["repl", rest] => withDm { r with modified := true } fun d => d.replaceBlock (parseBlockCompact ((rest.splitOn "|").headD ""))
  | ["add", rest] => withDm { r with modified := true } fun d => d.addBlock (parseBlockCompact ((rest.splitOn "|").headD ""))
  | ["repllevel", rest] => withDm { r with modified := true } fun d => d.replaceLevel (parseBlockCompact ((rest.splitOn "|").headD ""))
  | ["rmlevel", n] => withDm { r with modified := true } fun d => .ok (d.removeLevel n.toNat!)
  | ["copy", src, levels] =>
      (match parseRpuEntry (unhex src) with
       | .ok s => r.replaceLevelsFrom s ((parseInts levels).map Int.toNat)
       | _ => .error)
  | _ => .error

def runOps (r : Rpu) (ops : List String) : (Nat × Bool × Rpu × List String) := Id.run do
  let mut cur := r
  let mut js : List String := []
  let mut i := 0
  for op in ops do
    match applyOp cur op with
    | .ok r' => cur := r'; js := js ++ [r'.toJson.render]
    | .error => return (i, false, cur, js)
    | .panic => return (i, false, cur, js ++ ["\"panic\""])
    i := i + 1
  return (i, true, cur, js)

def run : List String → String
  | ["rpu.ops", h, ops] =>
    match parseRpuEntry (unhex h) with
    | .error => "err"
    | .panic => "panic"
    | .ok r =>
      let (i, ok, cur, js) := runOps r (if ops == "-" then [] else ops.splitOn ";")
      let arr := "[" ++ ",".intercalate js ++ "]"
      if !ok then s!"operr {i} {arr}"
      else
        let w := match writeRpu cur with
          | .ok o => hexOf o
          | .error => "werr"
          | .panic => "wpanic"
        s!"ok {w} {arr}"
  | ["rpu.opswf", h, ops] =>
    -- model-only: does the structure reached by the edit sequence meet the hypothesis of C03.write_parse_sound,
    -- and (as the theorem then says) does the written RPU parse back to it?
    match parseRpuEntry (unhex h) with
    | .error => "err"
    | .panic => "panic"
    | .ok r =>
      let (i, ok, cur, _) := runOps r (if ops == "-" then [] else ops.splitOn ";")
      if !ok then s!"operr {i}"
      else Driver.wfLine cur
  | _ => "bad-op"

end Driver.EditOps
