import Driver.Util
import Driver.OpsEdit
import DoviModel.Model.CView
import DoviModel.Model.RpuFile
/-! Model side of the C API ops (C20): `capi.view`, `capi.seq`, `rpu.ops3`. -/
namespace Driver.CapiOps
open Dovi Driver

def parseEntry (entry : String) (d : Bytes) : Res Rpu :=
  if entry == "rpu" then parseRpuEntry d
  else if entry == "nalu" then parseNaluEntry d
  else Av1.parseObu d

/-- `ok <json>` | `err` | `panic`; a parsed RPU that violates an ownership hypothesis of `free_once` is
flagged instead of rendered, so that the correspondence reports it -/
def view (entry : String) (d : Bytes) : String :=
  match parseEntry entry d with
  | .ok r => if r.ownershipOk then "ok " ++ (cview r).toJson.render else "ownership-hypothesis-violated"
  | .error => "err"
  | .panic => "panic"

def wstr (w : Res Bytes) : String :=
  match cData w with
  | some (some o) => hexOf o
  | some none => "null"
  | none => "wpanic"

/-- ops until the first failing one: `(index of the failing op, state)` -/
def runOps (r : Rpu) : List String → Nat → (Option Nat × Rpu)
  | [], _ => (none, r)
  | op :: ops, i =>
    match EditOps.applyOp r op with
    | .ok r' => runOps r' ops (i + 1)
    | _ => (some i, r)

/-- `ok <rcs> <rpu> <nalu> <av1 payload> <av1 complete> e=<0|1>` when every op succeeds; `operr <i>` when op
number i fails (the state the real code leaves behind a failed call is not modelled) -/
def seq (h ops : String) : String :=
  match parseRpuEntry (unhex h) with
  | .error => "err"
  | .panic => "panic"
  | .ok r =>
    let opl := if ops == "-" then [] else ops.splitOn ";"
    match runOps r opl 0 with
    | (some i, _) => s!"operr {i}"
    | (none, cur) =>
      let ws := rustWriters cur
      let e := ws.any fun x => cData x == some none
      let rcs := if opl.isEmpty then "-" else ",".intercalate (opl.map fun _ => "0")
      s!"ok {rcs} " ++ " ".intercalate (ws.map wstr) ++ (if e then " e=1" else " e=0")

/-- the state after an operation, failed or not: `(return code, state)`; `write` = a `dovi_write_rpu` call in the
middle of the sequence (state unchanged) -/
def stepKeep (r : Rpu) (op : String) : Int × Rpu :=
  if op == "write" then
    (match cData (writeRpu r) with | some (some _) => (0, r) | _ => (-1, r))
  else
    match EditOps.applyOp r op with
    | .ok r' => (0, r')
    | _ =>
      match op.splitOn ":" with
      | ["mode", n] => (-1, r.afterFailedConvert (modeOfU8 (n.toNat! % 256)))
      | "offs" :: _ => (-1, r.afterFailedOffsets)
      | _ => (-1, r)

def runKeep (r : Rpu) : List String → List Int × Rpu
  | [] => ([], r)
  | op :: ops =>
    let (rc, r') := stepKeep r op
    let (rcs, r'') := runKeep r' ops
    (rc :: rcs, r'')

/-- `capi.seqview` (json = C view) / `rpu.ops3json` (json = serde JSON): the sequence continues after failed
operations; `e` = some operation failed -/
def seqKeep (asView : Bool) (h ops : String) : String :=
  match parseRpuEntry (unhex h) with
  | .error => "err"
  | .panic => "panic"
  | .ok r =>
    let opl := if ops == "-" then [] else ops.splitOn ";"
    let (rcs, cur) := runKeep r opl
    let e := rcs.any (· != 0)
    let rcss := if rcs.isEmpty then "-" else ",".intercalate (rcs.map toString)
    s!"ok {rcss} e={if e then 1 else 0} " ++ (if asView then (cview cur).toJson.render else cur.toJson.render)

/-- `capi.list` / `rpu.filelist`: the RPU file parser, then every RPU written raw -/
def fileList (h : String) : String :=
  match RpuFile.parseRpuFile 100000 (unhex h) with
  | .error => "err"
  | .panic => "panic"
  | .ok rpus =>
    let outs := rpus.map fun r => wstr (writeRpu r)
    s!"ok {rpus.length} " ++ (if outs.isEmpty then "-" else ",".intercalate outs)

def run : List String → String
  | ["capi.list", h] => fileList h
  | ["rpu.filelist", h] => fileList h
  | ["capi.seqview", h, ops] => seqKeep true h ops
  | ["rpu.ops3json", h, ops] => seqKeep false h ops
  | ["capi.view", entry, h] => view entry (unhex h)
  | ["capi.seq", h, ops] => seq h ops
  | ["rpu.ops3", h, ops] => seq h ops
  | _ => "bad-op"

end Driver.CapiOps
