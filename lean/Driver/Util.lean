import DoviModel.Model.Basic
/-! Line-protocol helpers shared by all ops of the model driver. -/
namespace Driver
open Dovi

def hexVal (c : Char) : Nat :=
  if c.isDigit then c.toNat - '0'.toNat
  else if 'a' ≤ c ∧ c ≤ 'f' then c.toNat - 'a'.toNat + 10
  else if 'A' ≤ c ∧ c ≤ 'F' then c.toNat - 'A'.toNat + 10 else 0

def unhexL : List Char → Bytes
  | a :: b :: rest => UInt8.ofNat (hexVal a * 16 + hexVal b) :: unhexL rest
  | _ => []

def unhex (s : String) : Bytes := if s == "-" then [] else unhexL s.toList

def hexDigits : Array Char := "0123456789abcdef".toList.toArray

def hexOf (bs : Bytes) : String :=
  if bs.isEmpty then "-" else
  String.ofList (bs.flatMap fun b => [hexDigits[b.toNat / 16]!, hexDigits[b.toNat % 16]!])

/-- FNV-1a 64 -/
structure Fnv where
  h : UInt64 := 0xcbf29ce484222325

@[inline] def Fnv.byte (f : Fnv) (b : UInt8) : Fnv :=
  ⟨(f.h ^^^ b.toUInt64) * 0x100000001b3⟩

def Fnv.bytes (f : Fnv) (bs : Bytes) : Fnv :=
  let f := bs.foldl Fnv.byte f
  (f.byte 0xfe).byte (UInt8.ofNat (bs.length % 256))

def hex16 (v : UInt64) : String :=
  let n := v.toNat
  String.ofList ((List.range 16).map fun i => hexDigits[(n / 16 ^ (15 - i)) % 16]!)

end Driver
