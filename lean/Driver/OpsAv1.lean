import Driver.Util
import Driver.OpsRpu
import DoviModel.Model.Av1
namespace Driver.Av1Ops
open Dovi Driver

def content (seed size : Nat) : Bytes := Id.run do
  let mut x := (seed * 2654435761 + size) % 2147483648
  let mut v : Array UInt8 := #[0x19]
  for _ in [0:size - 1] do
    x := (x * 1103515245 + 12345) % 2147483648
    v := v.push (UInt8.ofNat ((x / 65536) % 256))
  v := v.push 0x80
  return v.toList

def sizes (lo hi seed : Nat) : String := Id.run do
  let mut f : Fnv := {}
  let mut n := 0
  let mut errs := 0
  let mut rtfail := 0
  for size in [lo:hi+1] do
    let d := content seed size
    match Av1.wrap d with
    | .ok o =>
      f := f.bytes o
      -- the model's own round trip (the theorem `av1_roundtrip`, evaluated)
      match Av1.unwrap o with
      | .ok b => if b != d then rtfail := rtfail + 1
      | _ => rtfail := rtfail + 1
    | _ =>
      errs := errs + 1
      f := f.bytes [0xee]
    n := n + 1
  return s!"ok {hex16 f.h} {n} errs={errs}" ++ (if rtfail > 0 then s!" model-roundtrip-fail={rtfail}" else "")

def run : List String → String
  | ["av1.wrap", h] => (match Av1.wrap (unhex h) with | .ok o => "ok " ++ hexOf o | .error => "err" | .panic => "panic")
  | ["av1.sizes", lo, hi, seed] => sizes lo.toNat! hi.toNat! seed.toNat!
  | ["av1.json", h] => RpuOps.resJson (Av1.parseObu (unhex h))
  | ["av1.obu", h] => RpuOps.resWrite (parseRpuEntry (unhex h)) (fun r => (writeRpu r).bind Av1.wrapComplete)
  | ["c08.av1", h] => RpuOps.cls (Av1.parseObu (unhex h))
  | ["c08.capi", "av1", h] => RpuOps.cls (Av1.parseObu (unhex h))
  | _ => "bad-op"

end Driver.Av1Ops
