import Driver.Util
import Driver.OpsGen
import DoviModel.Model.XmlSpec
import DoviModel.Proofs.XmlMoreProof
/-! `genxml <cfg> <l254>`: the XML generation path on an integer config (shots in document order);
`xmlenc <fn> <args…>`: the documented integer encodings on scaled decimals (value · 10^6). -/
namespace Driver.GenXmlOps
open Dovi Driver Dovi.Gen Dovi.Xml

def ints (s : String) : List Int := if s.isEmpty || s == "-" then [] else (s.splitOn ",").map String.toInt!

def natsOut (l : List Nat) : String := ",".intercalate (l.map toString)

def run : List String → String
  | ["genxml", cfg, l254] =>
    let c := GenOps.parseConfig cfg
    let l := match l254.splitOn ":" with
      | [m, v] => some (m.toNat!, v.toNat!)
      | _ => none
    (match generateXml c l with
     | .ok out => s!"ok {out.length} " ++ (if out.isEmpty then "-" else ",".intercalate (out.map hexOf))
     | .error => "err"
     | .panic => "panic")
  | ["xmlenc", "trim", a] =>
    (match ints a with
     | [lift, gain, gamma] => s!"ok {slope12 lift gain},{offset12 lift gain},{power12 gamma}"
     | _ => "bad-op")
  | ["xmlenc", "l6light", a] => "ok " ++ natsOut ((ints a).map XmlMore.l6Light)
  | ["xmlenc", "l6minlum", a] => "ok " ++ natsOut ((ints a).map XmlMore.l6MinLum)
  | ["xmlenc", "pqnits", a] => "ok " ++ natsOut ((ints a).map fun v => XmlMore.pqOfNits v.toNat)
  | ["xmlenc", "pqminlum", a] => "ok " ++ natsOut ((ints a).map fun v => XmlMore.pqOfMinLum v.toNat)
  | ["xmlenc", "srcminpq", a] => "ok " ++ natsOut ((ints a).map XmlMore.sourceMinPqOfXml)
  | ["xmlenc", "lin", a] => "ok " ++ natsOut ((ints a).map lin12)
  | ["xmlenc", "vec", a] => "ok " ++ natsOut ((ints a).map vec8)
  | ["xmlenc", "l3", a] => "ok " ++ natsOut ((ints a).map l3off)
  | ["xmlenc", "prim", a] => "ok " ++ natsOut ((ints a).map prim16)
  | ["xmlenc", "l1", cm, a] =>
    (match ints a with
     | [mn, av, mx] => "ok " ++ ",".intercalate ((l1Block (cm == "40") mn av mx).vals.map toString)
     | _ => "bad-op")
  | ["xmlenc", "l5", a] =>
    (match (ints a).map Int.toNat with
     | [cw, ch, c, i] => "ok " ++ natsOut (l5Offsets cw ch c i)
     | _ => "bad-op")
  | ["xmlenc", "l8", a] =>
    (match ints a with
     | tid :: lift :: gain :: gamma :: chroma :: sat :: ms :: mid :: clip :: rest =>
       let b := (l8OfXml tid.toNat lift gain gamma chroma sat ms mid clip (rest.take 6) (rest.drop 6)).block
       s!"ok {b.length} " ++ ",".intercalate (b.vals.map toString)
     | _ => "bad-op")
  | ["xmlenc", "l9", a] =>
    let b := l9OfXml (ints a)
    s!"ok {b.length} " ++ ",".intercalate (b.vals.map toString)
  | ["xmlenc", "l10", a] =>
    (match ints a with
     | tid :: mx :: mn :: p =>
       let b := l10OfXml tid.toNat mx.toNat mn.toNat p
       s!"ok {b.length} " ++ ",".intercalate (b.vals.map toString)
     | _ => "bad-op")
  | _ => "bad-op"

end Driver.GenXmlOps
