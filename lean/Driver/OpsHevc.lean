import Driver.Util
import DoviModel.Model.Hevc
/-! Line ops of the stream-command model (C05, C06, C07, C18).

    hevc.general <convert|demux|remove> <flags> <convtable> <items>      -> ok out=<outs> | ok bl=<outs> el=<outs> | ok bl=<outs> | err
    hevc.extract <flags> <nframes> <pres> <convtable> <items>            -> ok <hex,hex,..> | err
    hevc.inject  <flags> <nframes> <pres> <auds> <rpus> <items>          -> ok <outs> | err
    hevc.mux     <flags> <nframes> <auds> <convtable> <bl items> <el items> -> ok <outs> | okerr <outs> | err
    sei.drop <hex>                                                       -> keep <hex> | dropped | err
    sei.msgs <hex>                                                       -> ok <type:hex,..> | err

  flags: a string of letters or `-`: c = a mode / edit config is set, d = --discard, o = --el-only,
  a = --start-code annex-b, h = --drop-hdr10plus, n = --no-add-aud, e = --eos-before-el,
  L = the first read chunk held a single start code (see `generalFrom`)
  items: `type:au:hex` joined by `,` (or `-`); convtable: `hex=hex` / `hex=-` (library refuses) joined by `,`;
  nframes: the frame count hevc_parser reports (for hevc.mux: of the BL); items labelled with it are the NALs behind
  the last slice; pres: presentation numbers by decode index joined by `,`; auds / rpus: hex joined by `,`;
  outs: `sc:hex` joined by `,`. -/
namespace Driver.HevcOps
open Dovi Dovi.Hevc Driver

def listOf (s : String) : List String := if s == "-" then [] else s.splitOn ","

def parseItem (s : String) : Item :=
  match s.splitOn ":" with
  | [t, a, h] => ⟨t.toNat!, unhex h, a.toNat!⟩
  | _ => ⟨0, [], 0⟩

def parseItems (s : String) : List Item := (listOf s).map parseItem

def parseConv (s : String) : List (Bytes × Option Bytes) :=
  (listOf s).map fun e =>
    match e.splitOn "=" with
    | [a, b] => (unhex a, if b == "-" then none else some (unhex b))
    | _ => ([], none)

def convOf (tab : List (Bytes × Option Bytes)) (d : Bytes) : Option Bytes :=
  match tab.find? (fun e => e.1 == d) with
  | some e => e.2
  | none => none

def natTable (s : String) : Nat → Nat :=
  let a := ((listOf s).map String.toNat!).toArray
  fun k => a.getD k 0

def bytesTable (s : String) : Nat → Bytes :=
  let a := ((listOf s).map unhex).toArray
  fun k => a.getD k []

def has (flags : String) (c : Char) : Bool := flags.toList.contains c

def outsStr (l : List Out) : String :=
  if l.isEmpty then "-" else ",".intercalate (l.map fun o => s!"{o.sc}:{hexOf o.data}")

def run : List String → String
  | ["hevc.general", cmd, flags, conv, items] =>
    let base : Cfg := if cmd == "convert" then cfgConvert else if cmd == "demux" then cfgDemux (has flags 'o') else cfgRemove
    let c : Cfg := { base with convSet := has flags 'c', discard := has flags 'd', drop := has flags 'h', annexb := has flags 'a' }
    match generalFrom (has flags 'L') c (convOf (parseConv conv)) (parseItems items) with
    | none => "err"
    | some s =>
      if cmd == "convert" then s!"ok out={outsStr s.sl}"
      else if cmd == "demux" then s!"ok bl={outsStr s.bl} el={outsStr s.el}"
      else s!"ok bl={outsStr s.bl}"
  | ["hevc.extract", flags, nframes, pres, conv, items] =>
    let c : Cfg := { cfgExtract with convSet := has flags 'c', drop := has flags 'h' }
    match extract (natTable pres) nframes.toNat! c (convOf (parseConv conv)) (parseItems items) with
    | none => "err"
    | some l => "ok " ++ (if l.isEmpty then "-" else ",".intercalate (l.map hexOf))
  | ["hevc.inject", flags, nframes, pres, auds, rpus, items] =>
    let c : ICfg := { noAddAud := has flags 'n', annexb := has flags 'a', drop := has flags 'h' }
    match inject c (bytesTable auds) (natTable pres) nframes.toNat! ((listOf rpus).map unhex) (parseItems items) with
    | none => "err"
    | some l => "ok " ++ outsStr l
  | ["hevc.mux", flags, nframes, auds, conv, bl, el] =>
    let c : MCfg := { noAddAud := has flags 'n', eosBeforeEl := has flags 'e', discard := has flags 'd',
                      convSet := has flags 'c', annexb := has flags 'a', drop := has flags 'h' }
    match mux c (bytesTable auds) (convOf (parseConv conv)) nframes.toNat! (parseItems bl) (parseItems el) with
    | none => "err"
    | some (l, e) => (if e then "okerr " else "ok ") ++ outsStr l
  | ["sei.drop", h] =>
    match Sei.dropHdr10plus (unhex h) with
    | .err => "err"
    | .dropped => "dropped"
    | .keep d => "keep " ++ hexOf d
  | ["sei.msgs", h] =>
    match Sei.messages (unhex h) with
    | none => "err"
    | some ms => "ok " ++ (if ms.isEmpty then "-" else ",".intercalate (ms.map fun m => s!"{m.1}:{hexOf m.2}"))
  | _ => "bad-op"

end Driver.HevcOps
