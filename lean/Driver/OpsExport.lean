import Driver.Util
import Driver.OpsEditor
import DoviModel.Model.Export
namespace Driver.ExportOps
open Dovi Driver Dovi.Export

def ints (l : List Int) : String := ",".intercalate (l.map toString)

def run : List String → String
  | ["export", rpus] =>
    match EditorOps.parseList rpus with
    | none => "err"
    | some rs =>
      let sc := ",".intercalate ((scenes rs).map toString)
      let (presets, edits) := level5Config rs
      let ps := "|".intercalate (presets.map ints)
      let es := "|".intercalate (edits.map fun (s, e, i) => s!"{s}-{e}:{i}")
      let sm := summary rs
      let counts := match sm.dmCounts with | some (a, b) => s!"{a}/{b}" | none => "-"
      let l6 := "|".intercalate (sm.l6.map ints)
      let src := "|".intercalate (sm.sourcePq.map fun (a, b) => s!"{a}/{b}")
      s!"ok scenes=[{sc}] presets=[{ps}] edits=[{es}] count={sm.count} profiles=[{sm.profiles}] dm=[{sm.dmVersion}] counts={counts} scenecount={sm.sceneCount} l6=[{l6}] l2=[{ints sm.l2Targets}] src=[{src}] maxl1={sm.maxL1.1}/{sm.maxL1.2.1}/{sm.maxL1.2.2}"
  | _ => "bad-op"

end Driver.ExportOps
