import Driver.Util
import Driver.OpsC13
import Driver.OpsRpu
import Driver.OpsAv1
import Driver.OpsPq
import Driver.OpsEdit
import Driver.OpsEditor
import Driver.OpsExport
import Driver.OpsGen
import Driver.OpsGenXml
import Driver.OpsXmlDoc
import Driver.OpsGenSrc
import Driver.OpsFile
import Driver.OpsCapi
import Driver.OpsHevc
/-! `dovi_model`: the executable model behind the line protocol (one case per line in, one result per line out). -/
open Driver

def step (line : String) : String :=
  let parts := line.trimAscii.toString.splitOn " "
  match parts with
  | op :: _ =>
    if ["esc", "unesc", "hesc", "hunesc", "escdigest"].contains op then C13.run parts
    else if op.startsWith "av1." || op == "c08.av1" || (op == "c08.capi" && parts.getD 1 "" == "av1") then Av1Ops.run parts
    else if op.startsWith "pq." then PqOps.run parts
    else if op.startsWith "hevc." || op.startsWith "sei." then HevcOps.run parts
    else if op.startsWith "file." then FileOps.run parts
    else if op == "gen" then GenOps.run parts
    else if op == "c10.gensrc" then GenSrcOps.run parts
    else if op == "genxml" || op == "xmlenc" then GenXmlOps.run parts
    else if op == "xml.doc" || op == "xml.cfg" then XmlDocOps.run parts
    else if op == "export" then ExportOps.run parts
    else if op == "editor" then EditorOps.run parts
    else if op.startsWith "capi." || op == "rpu.ops3" || op == "rpu.ops3json" || op == "rpu.filelist" then CapiOps.run parts
    else if op == "rpu.ops" || op == "rpu.opswf" then EditOps.run parts
    else if op.startsWith "c08." then RpuOps.run parts
    else if op.startsWith "rpu." || op.startsWith "nalu." then RpuOps.run parts
    else "bad-op"
  | [] => "bad-op"

partial def loop (h : IO.FS.Stream) (out : IO.FS.Stream) : IO Unit := do
  let line ← h.getLine
  if line.isEmpty then return ()
  if line.trimAscii.toString.isEmpty then loop h out else
  out.putStrLn (step line)
  loop h out

def main : IO Unit := do
  let out ← IO.getStdout
  loop (← IO.getStdin) out
  out.flush
