import Driver.Util
import DoviModel.Model.XmlDoc
/-! `xml.doc <doc>`: `generate --xml` on a tokenised document (`Model/XmlDoc.lean`: `generateDoc`).

`<doc>` is one token, `&`-separated `key=value` pairs (a key that is left out = the node is absent):

```
ver=2.0.5                  version text (left out: no version)
cw=3840  ch=2160           --canvas-width / --canvas-height
out=0                      no Output node            video=0   no Video node
car=1777780  iar=2388060   CanvasAspectRatio / ImageAspectRatio (value · 10^6)
l6=<MaxFALL|->:<MaxCLL|->  md=<MinimumBrightness|->:<PeakBrightness|->
l254=<DMMode|->:<DMVersion|->   l11=<ContentType|->:<IntendedWhitePoint|->
targets=<t>;<t>…           t = id:peak:min:p,p,p,p,p,p,p,p:H|O|-      (HOME / other text / no ApplicationType)
shots=<s>~<s>…             s = <in,dur|->:<levels>:<frame>^<frame>…    frame = offset@<levels>
levels                     -  (no dynamic-data node) | nodes separated by ';' (empty: a node without children)
node                       1/v,v,v | 2/<tid|->/v,…(9) | 3/v,v,v | 5/c,i | 8/<tid|->/v,…(6)/mid/clip/v,…(6)/v,…(6) | 9/v,…(8) | x
```
Answer: `ok <n> <hex>,…` | `err` | `panic` (as `genxml`). -/
namespace Driver.XmlDocOps
open Dovi Driver Dovi.XmlDoc

def ints (s : String) : List Int := if s.isEmpty then [] else (s.splitOn ",").map String.toInt!
def nats (s : String) : List Nat := if s.isEmpty then [] else (s.splitOn ",").map String.toNat!
def optNat (s : String) : Option Nat := if s == "-" || s.isEmpty then none else some s.toNat!
def optInt (s : String) : Option Int := if s == "-" || s.isEmpty then none else some s.toInt!

def pairOf {α β} (f : String → α) (g : String → β) (s : String) : Option (α × β) :=
  match s.splitOn ":" with
  | [a, b] => some (f a, g b)
  | _ => none

def parseNode (s : String) : LevelNode :=
  match s.splitOn "/" with
  | ["1", v] => .l1 (ints v)
  | ["2", tid, v] => .l2 (optNat tid) (ints v)
  | ["3", v] => .l3 (ints v)
  | ["5", v] => .l5 (nats v)
  | ["8", tid, tr, mid, clip, sat, hue] => .l8 (optNat tid) (ints tr) mid.toInt! clip.toInt! (ints sat) (ints hue)
  | ["9", v] => .l9 (ints v)
  | _ => .other

def parseLevels (s : String) : Option (List LevelNode) :=
  if s == "-" then none else if s.isEmpty then some [] else some ((s.splitOn ";").map parseNode)

def parseFrame (s : String) : FrameNode :=
  match s.splitOn "@" with
  | [o, l] => { offset := o.toNat!, levels := parseLevels l }
  | _ => { offset := 0 }

def parseShot (s : String) : ShotNode :=
  match s.splitOn ":" with
  | [rec, lv, fr] =>
    { record := (match nats rec with | [a, b] => some (a, b) | _ => none),
      levels := parseLevels lv,
      frames := if fr.isEmpty then [] else (fr.splitOn "^").map parseFrame }
  | _ => {}

def parseTarget (s : String) : Target :=
  match s.splitOn ":" with
  | [id, pk, mn, pr, app] =>
    { id := id.toNat!, peak := pk.toNat!, minNits := mn.toNat!, prim := ints pr,
      home := if app == "H" then some true else if app == "O" then some false else none }
  | _ => { id := 0, peak := 0, minNits := 0, prim := [] }

def parseDoc (s : String) : Opts × Doc := Id.run do
  let mut o : Opts := {}
  let mut ver : Option (List Nat) := none
  let mut hasOut := true
  let mut hasVideo := true
  let mut out : Output := {}
  let mut v : Video := {}
  for kv in s.splitOn "&" do
    let k := (kv.splitOn "=").headD ""
    let x := (kv.drop (k.length + 1)).toString
    match k with
    | "ver" => ver := some ((x.splitOn ".").map String.toNat!)
    | "cw" => o := { o with canvasWidth := some x.toNat! }
    | "ch" => o := { o with canvasHeight := some x.toNat! }
    | "out" => hasOut := x != "0"
    | "video" => hasVideo := x != "0"
    | "car" => out := { out with canvasAr := some x.toNat! }
    | "iar" => out := { out with imageAr := some x.toNat! }
    | "l6" => v := { v with level6 := pairOf optInt optInt x }
    | "md" => v := { v with mastering := pairOf optInt optNat x }
    | "l254" => v := { v with level254 := pairOf optNat optNat x }
    | "l11" => v := { v with level11 := pairOf optNat optNat x }
    | "targets" => v := { v with targets := if x.isEmpty then [] else (x.splitOn ";").map parseTarget }
    | "shots" => v := { v with shots := if x.isEmpty then [] else (x.splitOn "~").map parseShot }
    | _ => pure ()
  out := { out with video := if hasVideo then some v else none }
  return (o, { version := ver, output := if hasOut then some out else none })

def run : List String → String
  | ["xml.doc", doc] =>
    let (o, d) := parseDoc doc
    (match generateDoc o d with
     | .ok out => s!"ok {out.length} " ++ (if out.isEmpty then "-" else ",".intercalate (out.map hexOf))
     | .error => "err"
     | .panic => "panic")
  | ["xml.cfg", doc] =>
    -- the config alone (debugging aid): cm / length / source levels / L5 / L6 / #defaults / shot starts
    let (o, d) := parseDoc doc
    (match configOfDoc o d with
     | .ok c => s!"ok cm40={c.cmv40} length={c.length} min={c.sourceMinPq.getD 0} max={c.sourceMaxPq.getD 0} l5={c.level5} l6={c.level6.getD []} defaults={c.defaults.length} starts={c.shots.map (·.start)}"
     | .error => "err"
     | .panic => "panic")
  | _ => "bad-op"

end Driver.XmlDocOps
