import sys, os, json, struct, subprocess
sys.path.insert(0, "/verif/vlib")
import madvrgen
TOOL = "/repo/target/debug/dovi_tool"
env = dict(os.environ, RUST_BACKTRACE="0", RUST_LIB_BACKTRACE="0")
cfg = {"cm_version": "V40", "length": 0, "level6": {"max_display_mastering_luminance": 1000, "min_display_mastering_luminance": 1, "max_content_light_level": 0, "max_frame_average_light_level": 0}}
json.dump(cfg, open("cfg.json", "w"))
def frame(lum):
    return {"peaks": [0, 0, 0], "lum": lum, "hue": [0] * 31}
def base(scenes, nfr, **kw):
    h = [0] * 256; h[100] = 64000
    d = {"version": 5, "flags": 2, "maxcll": 1000, "maxfall": 400, "scenes": scenes, "frames": [frame(h) for _ in range(nfr)]}
    d.update(kw); return d
def run_madvr(name, data, extra=()):
    open(name, "wb").write(data)
    r = subprocess.run([TOOL, "generate", "-j", "cfg.json", "--madvr-file", name, "-o", "/tmp/c10-sources-out.bin", *extra], capture_output=True, env=env)
    print("%-34s exit %3d  %s" % (name, r.returncode, r.stderr.decode(errors="replace").strip().replace("\n", " | ")[-230:]))
    return r
run_madvr("madvr_short_file.bin", b"mv")
run_madvr("madvr_scene_end_zero.bin", madvrgen.encode(base([(0, 0, 1000)], 2)))
run_madvr("madvr_scene_end_before_start.bin", madvrgen.encode(base([(2, 1, 1000)], 3)))
# observations on accepted files
r = run_madvr("madvr_all_zero_histogram.bin", madvrgen.encode(base([(0, 1, 1000)], 1, frames=[frame([0] * 256)])))
r = run_madvr("madvr_maxcll_70000.bin", madvrgen.encode(base([(0, 1, 1000)], 1, maxcll=70000, maxfall=65536 + 120)))
r = run_madvr("madvr_overlapping_scenes_same_sum.bin", madvrgen.encode(base([(0, 3, 1000), (2, 5, 4000)], 6)))
def hdr(firsts, lens, nfr, mut=None):
    fr = [{"LuminanceParameters": {"AverageRGB": 1000, "LuminanceDistributions": {"DistributionIndex": [1, 5, 10, 25, 50, 75, 90, 95, 99], "DistributionValues": [1, 2, 3, 4, 5, 6, 7, 8, 9000]}, "MaxScl": [1000, 2000, 3000]},
           "NumberOfWindows": 1, "TargetedSystemDisplayMaximumLuminance": 0, "SceneFrameIndex": 0, "SceneId": 0, "SequenceFrameIndex": f} for f in range(nfr)]
    if mut: mut(fr)
    return {"JSONInfo": {"HDR10plusProfile": "A", "Version": "1.0"}, "SceneInfo": fr, "SceneInfoSummary": {"SceneFirstFrameIndex": firsts, "SceneFrameNumbers": lens}, "ToolInfo": {"Tool": "verif", "Version": "0"}}
def run_hdr(name, hj, src="histogram"):
    json.dump(hj, open(name, "w"))
    r = subprocess.run([TOOL, "generate", "-j", "cfg.json", "--hdr10plus-json", name, "--hdr10plus-peak-source", src, "-o", "/tmp/c10-sources-out.bin"], capture_output=True, env=env)
    print("%-34s exit %3d  %s" % (name, r.returncode, r.stderr.decode(errors="replace").strip().replace("\n", " | ")[-230:]))
run_hdr("hdr10plus_empty_first_frames.json", hdr([], [], 2))
run_hdr("hdr10plus_decreasing_first_frames.json", hdr([2, 0], [1, 1], 2))
run_hdr("hdr10plus_missing_scene_length.json", hdr([0, 1], [1], 2))
def nopeak(fr): fr[0]["LuminanceParameters"]["LuminanceDistributions"]["DistributionValues"] = []
run_hdr("hdr10plus_no_distribution_values.json", hdr([0], [2], 2, nopeak))
def scl2(fr): fr[0]["LuminanceParameters"]["MaxScl"] = [1, 2]
run_hdr("hdr10plus_maxscl_two_values.json", hdr([0], [2], 2, scl2), "max-scl-luminance")
