#!/bin/bash
# Build the framework from files on disk only (offline). Idempotent.
set -e
cd "$(dirname "$0")"
export CARGO_NET_OFFLINE=true
mkdir -p build/work evidence replays
( cd lean && lake build DoviModel dovi_model 2>&1 | tail -3 )
[ -f harness/Cargo.lock ] || cp /repo/Cargo.lock harness/Cargo.lock
( cd harness && CARGO_TARGET_DIR=/verif/build/target cargo build --offline 2>&1 | tail -2 )
CARGO_TARGET_DIR=/verif/build/target-cli cargo build --offline --features verif_hooks --manifest-path /repo/Cargo.toml 2>&1 | tail -2
echo setup-done
