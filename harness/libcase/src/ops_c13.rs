use crate::*;
use dolby_vision::utils::{
    add_start_code_emulation_prevention_3_byte, clear_start_code_emulation_prevention_3_byte,
};

pub const ALPHABET: [u8; 6] = [0x00, 0x01, 0x02, 0x03, 0x04, 0xff];

/// Enumerate all strings of length `len` over ALPHABET whose first letter index is `first`, in
/// lexicographic order of letter indices; digest esc(0x19 ++ s) and unesc(0x19 ++ s).
/// Also evaluates the property directly on the real code (direct oracle) and reports the first failure.
fn digest_bucket(len: usize, first: usize) -> (u64, u64, Option<Vec<u8>>) {
    let mut idx = vec![0usize; len];
    if len > 0 {
        idx[0] = first;
    }
    let mut h = Fnv::new();
    let mut count = 0u64;
    let mut bad: Option<Vec<u8>> = None;
    loop {
        let mut s: Vec<u8> = Vec::with_capacity(len + 1);
        s.push(0x19);
        for i in &idx {
            s.push(ALPHABET[*i]);
        }
        let mut e = s.clone();
        add_start_code_emulation_prevention_3_byte(&mut e);
        let u = clear_start_code_emulation_prevention_3_byte(&s);
        h.bytes(&e);
        h.bytes(&u);
        count += 1;
        // direct oracle: round trip and no forbidden triple
        if bad.is_none() {
            let back = clear_start_code_emulation_prevention_3_byte(&e);
            let mut forbidden = false;
            for w in e.windows(3) {
                if w[0] == 0 && w[1] == 0 && w[2] < 3 {
                    forbidden = true;
                }
            }
            if back != s || forbidden {
                bad = Some(s.clone());
            }
        }
        // next index vector (positions 1.. vary; position 0 fixed)
        let mut p = len;
        loop {
            if p <= 1 {
                return (h.0, count, bad);
            }
            p -= 1;
            if idx[p] + 1 < ALPHABET.len() {
                idx[p] += 1;
                for q in p + 1..len {
                    idx[q] = 0;
                }
                break;
            }
        }
    }
}

pub fn run(parts: &[&str]) -> String {
    match parts[0] {
        "esc" => {
            let mut v = unhex(parts[1]);
            add_start_code_emulation_prevention_3_byte(&mut v);
            format!("ok {}", hex(&v))
        }
        "unesc" => {
            let v = unhex(parts[1]);
            format!("ok {}", hex(&clear_start_code_emulation_prevention_3_byte(&v)))
        }
        "hesc" => {
            let mut v = unhex(parts[1]);
            hevc_parser::utils::add_start_code_emulation_prevention_3_byte(&mut v);
            format!("ok {}", hex(&v))
        }
        "hunesc" => {
            let v = unhex(parts[1]);
            format!(
                "ok {}",
                hex(&hevc_parser::utils::clear_start_code_emulation_prevention_3_byte(&v))
            )
        }
        "escdigest" => {
            let len: usize = parts[1].parse().unwrap();
            let first: usize = parts[2].parse().unwrap();
            let (h, c, bad) = digest_bucket(len, first);
            match bad {
                None => format!("ok {:016x} {}", h, c),
                Some(b) => format!("ok {:016x} {} oracle-fail {}", h, c, hex(&b)),
            }
        }
        _ => "bad-op".to_string(),
    }
}
