use crate::*;
use dolby_vision::av1::{convert_regular_rpu_to_av1_payload, ITU_T35_DOVI_RPU_PAYLOAD_HEADER};
use dolby_vision::rpu::dovi_rpu::DoviRpu;

fn content(seed: u64, size: usize) -> Vec<u8> {
    // 0x19, size-1 pseudo-random bytes, 0x80
    let mut x: u64 = (seed.wrapping_mul(2654435761).wrapping_add(size as u64)) % 2147483648;
    let mut v = Vec::with_capacity(size + 1);
    v.push(0x19);
    for _ in 0..size - 1 {
        x = (x * 1103515245 + 12345) % 2147483648;
        v.push(((x >> 16) & 0xff) as u8);
    }
    v.push(0x80);
    v
}

fn crc32_mpeg2(data: &[u8]) -> u32 {
    let mut crc: u32 = 0xFFFF_FFFF;
    for b in data {
        crc ^= (*b as u32) << 24;
        for _ in 0..8 {
            crc = if crc & 0x8000_0000 != 0 { (crc << 1) ^ 0x04C1_1DB7 } else { crc << 1 };
        }
    }
    crc
}

/// a valid RPU whose payload (without 0x19, with 0x80) has exactly `size` bytes: `base` is a valid
/// prefix-less RPU without extra data; the padding goes into the data before the CRC32
fn sized_rpu(base: &[u8], size: usize, seed: u64) -> Option<Vec<u8>> {
    let body = &base[..base.len() - 5];
    let cur = base.len() - 1;
    if size < cur {
        return None;
    }
    let extra = size - cur;
    let mut v = body.to_vec();
    let mut x: u64 = (seed.wrapping_mul(40503).wrapping_add(size as u64)) % 2147483648;
    for _ in 0..extra {
        x = (x * 1103515245 + 12345) % 2147483648;
        v.push(((x >> 16) & 0xff) as u8);
    }
    let c = crc32_mpeg2(&v[1..]);
    v.extend_from_slice(&c.to_be_bytes());
    v.push(0x80);
    Some(v)
}

pub fn run(parts: &[&str]) -> String {
    match parts[0] {
        "av1.wrap" => {
            let d = unhex(parts[1]);
            match convert_regular_rpu_to_av1_payload(&d) {
                Ok(o) => format!("ok {}", hex(&o)),
                Err(_) => "err".to_string(),
            }
        }
        // digest of wrap(content(size)) for lo..=hi
        "av1.sizes" => {
            let lo: usize = parts[1].parse().unwrap();
            let hi: usize = parts[2].parse().unwrap();
            let seed: u64 = parts[3].parse().unwrap();
            let mut h = Fnv::new();
            let mut n = 0u64;
            let mut errs = 0u64;
            for size in lo..=hi {
                let d = content(seed, size);
                match convert_regular_rpu_to_av1_payload(&d) {
                    Ok(o) => h.bytes(&o),
                    Err(_) => {
                        errs += 1;
                        h.bytes(&[0xee])
                    }
                }
                n += 1;
            }
            format!("ok {:016x} {} errs={}", h.0, n, errs)
        }
        // direct oracle on the real code: valid RPUs of every size lo..=hi round-trip through the OBU form
        "av1.rt" => {
            let lo: usize = parts[1].parse().unwrap();
            let hi: usize = parts[2].parse().unwrap();
            let seed: u64 = parts[3].parse().unwrap();
            let base = unhex(parts[4]);
            let mut n = 0u64;
            let mut trailing = 0usize;
            for size in lo..=hi {
                let mut rpu_bytes = match sized_rpu(&base, size, seed) {
                    Some(v) => v,
                    None => continue,
                };
                let clean = rpu_bytes.clone();
                trailing = (trailing + 1) % 4;
                for _ in 0..trailing {
                    rpu_bytes.push(0);
                }
                let rpu = match DoviRpu::parse_rpu(&rpu_bytes) {
                    Ok(r) => r,
                    Err(_) => return format!("ok fail size={} stage=parse-rpu", size),
                };
                for complete in [false, true] {
                    let obu = if complete {
                        rpu.write_av1_rpu_metadata_obu_t35_complete()
                    } else {
                        rpu.write_av1_rpu_metadata_obu_t35_payload()
                    };
                    let obu = match obu {
                        Ok(o) => o,
                        Err(_) => return format!("ok fail size={} stage=wrap", size),
                    };
                    let body = if complete {
                        if obu[0] != 0xB5 {
                            return format!("ok fail size={} stage=country-code", size);
                        }
                        &obu[1..]
                    } else {
                        &obu[..]
                    };
                    if &body[..9] != ITU_T35_DOVI_RPU_PAYLOAD_HEADER {
                        return format!("ok fail size={} stage=header", size);
                    }
                    let back = match DoviRpu::parse_itu_t35_dovi_metadata_obu(&obu) {
                        Ok(r) => r,
                        Err(_) => return format!("ok fail size={} stage=unwrap", size),
                    };
                    match back.write_rpu() {
                        Ok(w) => {
                            if w != clean {
                                return format!("ok fail size={} stage=bytes-differ", size);
                            }
                        }
                        Err(_) => return format!("ok fail size={} stage=rewrite", size),
                    }
                }
                n += 1;
            }
            format!("ok pass {}", n)
        }
        "av1.json" => {
            let d = unhex(parts[1]);
            match DoviRpu::parse_itu_t35_dovi_metadata_obu(&d) {
                Ok(r) => format!("ok {}", serde_json::to_string(&r).unwrap()),
                Err(_) => "err".to_string(),
            }
        }
        "av1.obu" => {
            // parse a raw RPU and write the OBU form
            let d = unhex(parts[1]);
            match DoviRpu::parse_rpu(&d) {
                Ok(r) => match r.write_av1_rpu_metadata_obu_t35_complete() {
                    Ok(o) => format!("ok {}", hex(&o)),
                    Err(_) => "ok werr".to_string(),
                },
                Err(_) => "err".to_string(),
            }
        }
        _ => "bad-op".to_string(),
    }
}
