//! Sequences of public edit / conversion operations on a parsed RPU (C03, C04, C12).
use crate::*;
use dolby_vision::rpu::dovi_rpu::DoviRpu;
use dolby_vision::rpu::extension_metadata::blocks::ExtMetadataBlock;

fn block_json(rest: &str) -> Option<ExtMetadataBlock> {
    // `compact|json` — the executor reads the serde JSON rendering of the same abstract block
    let j = rest.splitn(2, '|').nth(1)?;
    serde_json::from_str::<ExtMetadataBlock>(j).ok()
}

fn opt_u16(s: &str) -> Option<u16> {
    if s == "-" { None } else { s.parse().ok() }
}

pub fn apply_op(r: &mut DoviRpu, op: &str) -> anyhow::Result<()> {
    let parts: Vec<&str> = op.splitn(2, ':').collect();
    let arg = if parts.len() > 1 { parts[1] } else { "" };
    match parts[0] {
        "crop" => r.crop(),
        "mode" => r.convert_with_mode(arg.parse::<u64>().unwrap() as u8),
        "rmmap" => {
            r.remove_mapping();
            Ok(())
        }
        "rmcmv4" => r.remove_cmv40_extension_metadata(),
        "offs" => {
            let v: Vec<u16> = arg.split(',').map(|x| x.parse().unwrap()).collect();
            r.set_active_area_offsets(v[0], v[1], v[2], v[3])
        }
        "minmax" => {
            let ab: Vec<&str> = arg.split(':').collect();
            r.modified = true;
            if let Some(d) = r.vdr_dm_data.as_mut() {
                d.change_source_levels(opt_u16(ab[0]), opt_u16(ab[1]));
            }
            Ok(())
        }
        "scene" => {
            r.modified = true;
            if let Some(d) = r.vdr_dm_data.as_mut() {
                d.scene_refresh_flag = arg.parse().unwrap();
            }
            Ok(())
        }
        "repl" | "add" | "repllevel" => {
            let b = block_json(arg).ok_or_else(|| anyhow::anyhow!("bad block"))?;
            r.modified = true;
            if let Some(d) = r.vdr_dm_data.as_mut() {
                match parts[0] {
                    "repl" => d.replace_metadata_block(b)?,
                    "add" => d.add_metadata_block(b)?,
                    _ => d.replace_metadata_level(b)?,
                }
            }
            Ok(())
        }
        "rmlevel" => {
            r.modified = true;
            if let Some(d) = r.vdr_dm_data.as_mut() {
                d.remove_metadata_level(arg.parse().unwrap());
            }
            Ok(())
        }
        "copy" => {
            let sl: Vec<&str> = arg.split(':').collect();
            let src = DoviRpu::parse_rpu(&unhex(sl[0]))?;
            let levels: Vec<u8> = if sl[1].is_empty() { vec![] } else { sl[1].split(',').map(|x| x.parse().unwrap()).collect() };
            r.replace_levels_from_rpu(&src, &levels)
        }
        _ => anyhow::bail!("bad op"),
    }
}

pub fn run(parts: &[&str]) -> String {
    match parts[0] {
        "rpu.ops" => {
            let d = unhex(parts[1]);
            let mut r = match DoviRpu::parse_rpu(&d) {
                Ok(r) => r,
                Err(_) => return "err".to_string(),
            };
            let ops: Vec<&str> = if parts[2] == "-" { vec![] } else { parts[2].split(';').collect() };
            let mut js: Vec<String> = Vec::new();
            for (i, op) in ops.iter().enumerate() {
                match apply_op(&mut r, op) {
                    Ok(()) => js.push(serde_json::to_string(&r).unwrap()),
                    Err(_) => return format!("operr {} [{}]", i, js.join(",")),
                }
            }
            let w = match std::panic::catch_unwind(std::panic::AssertUnwindSafe(|| r.write_rpu())) {
                Ok(Ok(o)) => hex(&o),
                Ok(Err(_)) => "werr".to_string(),
                Err(_) => "wpanic".to_string(),
            };
            format!("ok {} [{}]", w, js.join(","))
        }
        _ => "bad-op".to_string(),
    }
}
