//! C20 — the real C API (`dolby_vision::capi`, feature `capi`) observed the way a C consumer of the cbindgen
//! header observes it: every returned pointer is read through this file's OWN `#[repr(C)]` mirror
//! declarations (field order and types of the unchanged tree's header), never through the crate's private
//! struct definitions. A swapped, missing or retyped field therefore shows up as a different value.
//!
//! Ops
//!   capi.view <rpu|nalu|av1> <hex>   parse with the matching `dovi_parse_*`, read the error, call the three
//!                                    getters (order = permutation number `len % 6`), read everything, free
//!                                    every object exactly once (free order = permutation `(len / 6) % 6`; when
//!                                    `(len / 36) % 2 == 1` the handle is freed BEFORE the structs are read: the
//!                                    getters return independent copies).
//!                                    -> `ok <json>` | `err` | `inconsistent:<why>`
//!   capi.seq <hex> <op;op;…|->       `dovi_parse_rpu`, then ops `mode:<n>` | `offs:l,r,t,b` | `rmmap`, then ALL
//!                                    four writers of capi.rs (write_rpu, write_unspec62_nalu,
//!                                    write_av1_rpu_metadata_obu_t35_payload, …_t35_complete), each `Data` freed
//!                                    with `dovi_data_free`, then `dovi_rpu_free`.
//!                                    -> `ok <rc,rc,…|-> <rpu hex|null> <nalu hex|null> <av1 payload hex|null>
//!                                        <av1 complete hex|null> e=<0|1>` | `err`
//!                                    (`e` = error string set at the end; ops continue after a failing op, as a
//!                                    C caller may)
//!   rpu.ops3 <hex> <ops>             the same sequence through the Rust API, printed the same way (`wpanic`
//!                                    where a Rust call panicked; such cases are not fed to `capi.seq`)
//!   capi.layout                      sizes of the mirrors vs sizes of the crate's structs
//!
//! JSON shape of `capi.view` (compact, no spaces; C `bool` bytes are printed `true`/`false`, any other byte
//! value as the number; every array is read with the `len` the C struct carries, a null `data`/`list` pointer
//! with `len` 0 is `[]`, with `len` > 0 it is the string "null-with-len"):
//! {"header":{"guessed_profile":n,"el_type":"MEL"|"FEL"|null,"rpu_nal_prefix":n,"rpu_type":n,"rpu_format":n,
//!            "vdr_rpu_profile":n,"vdr_rpu_level":n,"vdr_seq_info_present_flag":b,
//!            "chroma_resampling_explicit_filter_flag":b,"coefficient_data_type":n,"coefficient_log2_denom":n,
//!            "vdr_rpu_normalized_idc":n,"bl_video_full_range_flag":b,"bl_bit_depth_minus8":n,
//!            "el_bit_depth_minus8":n,"vdr_bit_depth_minus8":n,"spatial_resampling_filter_flag":b,
//!            "reserved_zero_3bits":n,"el_spatial_resampling_filter_flag":b,"disable_residual_flag":b,
//!            "vdr_dm_metadata_present_flag":b,"use_prev_vdr_rpu_flag":b,"prev_vdr_rpu_id":n},
//!  "mapping":null|{"vdr_rpu_id":n,"mapping_color_space":n,"mapping_chroma_format_idc":n,
//!            "num_x_partitions_minus1":n,"num_y_partitions_minus1":n,
//!            "curves":[{"num_pivots_minus2":n,"pivots":[…],"mapping_idc":n,
//!                       "polynomial":null|{"poly_order_minus1":[…],"linear_interp_flag":[0|1…],
//!                                          "poly_coef_int":[[…]…],"poly_coef":[[…]…]},
//!                       "mmr":null|{"mmr_order_minus1":[…],"mmr_constant_int":[…],"mmr_constant":[…],
//!                                   "mmr_coef_int":[[[…]…]…],"mmr_coef":[[[…]…]…]}} ×3],
//!            "nlq_method_idc":n|-1,"nlq_num_pivots_minus2":n|-1,"nlq_pred_pivot_value":[…]|[],
//!            "nlq":null|{"nlq_offset":[3],"vdr_in_max_int":[3],"vdr_in_max":[3],"linear_deadzone_slope_int":[3],
//!                        "linear_deadzone_slope":[3],"linear_deadzone_threshold_int":[3],
//!                        "linear_deadzone_threshold":[3]}},
//!  "dm":null|{"compressed":b,"affected_dm_metadata_id":n,"current_dm_metadata_id":n,"scene_refresh_flag":n,
//!            "ycc_to_rgb_coef0":n…"ycc_to_rgb_coef8","ycc_to_rgb_offset0".."2","rgb_to_lms_coef0".."8",
//!            "signal_eotf","signal_eotf_param0","signal_eotf_param1","signal_eotf_param2","signal_bit_depth",
//!            "signal_color_space","signal_chroma_format","signal_full_range_flag","source_min_pq",
//!            "source_max_pq","source_diagonal",
//!            "dm_data":{"num_ext_blocks":n,            (sum over the CM v2.9 and CM v4.0 containers)
//!                       "level1":null|{…},"level2":{"len":n,"list":[{…}…]},"level3":null|{…},"level4":…,
//!                       "level5":…,"level6":…,"level8":{"len":n,"list":[…]},"level9":…,
//!                       "level10":{"len":n,"list":[…]},"level11":…,"level254":…,"level255":…}}}
//! The C `DmData` is ONE struct combining both containers (c_structs/extension_metadata.rs); a block object
//! carries every field of its struct in declaration order (L8/L9/L10 with `length` first).
use crate::*;
use dolby_vision::capi::*;
use dolby_vision::rpu::dovi_rpu::DoviRpu;
use std::ffi::CStr;
use std::os::raw::c_char;

// ---------------------------------------------------------------------------------------------
// mirror declarations (what dovi.h declares)
// ---------------------------------------------------------------------------------------------

#[repr(C)]
struct CData {
    data: *const u8,
    len: usize,
}
#[repr(C)]
struct CU16Data {
    data: *const u16,
    len: usize,
}
#[repr(C)]
struct CU64Data {
    data: *const u64,
    len: usize,
}
#[repr(C)]
struct CI64Data {
    data: *const i64,
    len: usize,
}
#[repr(C)]
struct CU64Data2D {
    list: *const *const CU64Data,
    len: usize,
}
#[repr(C)]
struct CI64Data2D {
    list: *const *const CI64Data,
    len: usize,
}
#[repr(C)]
struct CU64Data3D {
    list: *const *const CU64Data2D,
    len: usize,
}
#[repr(C)]
struct CI64Data3D {
    list: *const *const CI64Data2D,
    len: usize,
}

/// C `bool`: one byte
type CBool = u8;

#[repr(C)]
struct CHeader {
    guessed_profile: u8,
    el_type: *const c_char,
    rpu_nal_prefix: u8,
    rpu_type: u8,
    rpu_format: u16,
    vdr_rpu_profile: u8,
    vdr_rpu_level: u8,
    vdr_seq_info_present_flag: CBool,
    chroma_resampling_explicit_filter_flag: CBool,
    coefficient_data_type: u8,
    coefficient_log2_denom: u64,
    vdr_rpu_normalized_idc: u8,
    bl_video_full_range_flag: CBool,
    bl_bit_depth_minus8: u64,
    el_bit_depth_minus8: u64,
    vdr_bit_depth_minus8: u64,
    spatial_resampling_filter_flag: CBool,
    reserved_zero_3bits: u8,
    el_spatial_resampling_filter_flag: CBool,
    disable_residual_flag: CBool,
    vdr_dm_metadata_present_flag: CBool,
    use_prev_vdr_rpu_flag: CBool,
    prev_vdr_rpu_id: u64,
}

#[repr(C)]
struct CPolynomialCurve {
    poly_order_minus1: CU64Data,
    linear_interp_flag: CData,
    poly_coef_int: CI64Data2D,
    poly_coef: CU64Data2D,
}

#[repr(C)]
struct CMMRCurve {
    mmr_order_minus1: CData,
    mmr_constant_int: CI64Data,
    mmr_constant: CU64Data,
    mmr_coef_int: CI64Data3D,
    mmr_coef: CU64Data3D,
}

#[repr(C)]
struct CReshapingCurve {
    num_pivots_minus2: u64,
    pivots: CU16Data,
    mapping_idc: u8,
    polynomial: *const CPolynomialCurve,
    mmr: *const CMMRCurve,
}

#[repr(C)]
struct CNlq {
    nlq_offset: [u16; 3],
    vdr_in_max_int: [u64; 3],
    vdr_in_max: [u64; 3],
    linear_deadzone_slope_int: [u64; 3],
    linear_deadzone_slope: [u64; 3],
    linear_deadzone_threshold_int: [u64; 3],
    linear_deadzone_threshold: [u64; 3],
}

#[repr(C)]
struct CMapping {
    vdr_rpu_id: u64,
    mapping_color_space: u64,
    mapping_chroma_format_idc: u64,
    num_x_partitions_minus1: u64,
    num_y_partitions_minus1: u64,
    curves: [CReshapingCurve; 3],
    nlq_method_idc: i32,
    nlq_num_pivots_minus2: i32,
    nlq_pred_pivot_value: CU16Data,
    nlq: *const CNlq,
}

#[repr(C)]
struct CL1 {
    min_pq: u16,
    max_pq: u16,
    avg_pq: u16,
}
#[repr(C)]
struct CL2 {
    target_max_pq: u16,
    trim_slope: u16,
    trim_offset: u16,
    trim_power: u16,
    trim_chroma_weight: u16,
    trim_saturation_gain: u16,
    ms_weight: i16,
}
#[repr(C)]
struct CL3 {
    min_pq_offset: u16,
    max_pq_offset: u16,
    avg_pq_offset: u16,
}
#[repr(C)]
struct CL4 {
    anchor_pq: u16,
    anchor_power: u16,
}
#[repr(C)]
struct CL5 {
    active_area_left_offset: u16,
    active_area_right_offset: u16,
    active_area_top_offset: u16,
    active_area_bottom_offset: u16,
}
#[repr(C)]
struct CL6 {
    max_display_mastering_luminance: u16,
    min_display_mastering_luminance: u16,
    max_content_light_level: u16,
    max_frame_average_light_level: u16,
}
#[repr(C)]
struct CL8 {
    length: u64,
    target_display_index: u8,
    trim_slope: u16,
    trim_offset: u16,
    trim_power: u16,
    trim_chroma_weight: u16,
    trim_saturation_gain: u16,
    ms_weight: u16,
    target_mid_contrast: u16,
    clip_trim: u16,
    saturation_vector_field0: u8,
    saturation_vector_field1: u8,
    saturation_vector_field2: u8,
    saturation_vector_field3: u8,
    saturation_vector_field4: u8,
    saturation_vector_field5: u8,
    hue_vector_field0: u8,
    hue_vector_field1: u8,
    hue_vector_field2: u8,
    hue_vector_field3: u8,
    hue_vector_field4: u8,
    hue_vector_field5: u8,
}
#[repr(C)]
struct CL9 {
    length: u64,
    source_primary_index: u8,
    source_primary_red_x: u16,
    source_primary_red_y: u16,
    source_primary_green_x: u16,
    source_primary_green_y: u16,
    source_primary_blue_x: u16,
    source_primary_blue_y: u16,
    source_primary_white_x: u16,
    source_primary_white_y: u16,
}
#[repr(C)]
struct CL10 {
    length: u64,
    target_display_index: u8,
    target_max_pq: u16,
    target_min_pq: u16,
    target_primary_index: u8,
    target_primary_red_x: u16,
    target_primary_red_y: u16,
    target_primary_green_x: u16,
    target_primary_green_y: u16,
    target_primary_blue_x: u16,
    target_primary_blue_y: u16,
    target_primary_white_x: u16,
    target_primary_white_y: u16,
}
#[repr(C)]
struct CL11 {
    content_type: u8,
    whitepoint: u8,
    reference_mode_flag: CBool,
    reserved_byte2: u8,
    reserved_byte3: u8,
}
#[repr(C)]
struct CL254 {
    dm_mode: u8,
    dm_version_index: u8,
}
#[repr(C)]
struct CL255 {
    dm_run_mode: u8,
    dm_run_version: u8,
    dm_debug0: u8,
    dm_debug1: u8,
    dm_debug2: u8,
    dm_debug3: u8,
}

#[repr(C)]
struct CBlockList<T> {
    list: *const *const T,
    len: usize,
}

#[repr(C)]
struct CDmData {
    num_ext_blocks: u64,
    level1: *const CL1,
    level2: CBlockList<CL2>,
    level3: *const CL3,
    level4: *const CL4,
    level5: *const CL5,
    level6: *const CL6,
    level8: CBlockList<CL8>,
    level9: *const CL9,
    level10: CBlockList<CL10>,
    level11: *const CL11,
    level254: *const CL254,
    level255: *const CL255,
}

#[repr(C)]
struct CVdrDmData {
    compressed: CBool,
    affected_dm_metadata_id: u64,
    current_dm_metadata_id: u64,
    scene_refresh_flag: u64,
    ycc_to_rgb_coef0: i16,
    ycc_to_rgb_coef1: i16,
    ycc_to_rgb_coef2: i16,
    ycc_to_rgb_coef3: i16,
    ycc_to_rgb_coef4: i16,
    ycc_to_rgb_coef5: i16,
    ycc_to_rgb_coef6: i16,
    ycc_to_rgb_coef7: i16,
    ycc_to_rgb_coef8: i16,
    ycc_to_rgb_offset0: u32,
    ycc_to_rgb_offset1: u32,
    ycc_to_rgb_offset2: u32,
    rgb_to_lms_coef0: i16,
    rgb_to_lms_coef1: i16,
    rgb_to_lms_coef2: i16,
    rgb_to_lms_coef3: i16,
    rgb_to_lms_coef4: i16,
    rgb_to_lms_coef5: i16,
    rgb_to_lms_coef6: i16,
    rgb_to_lms_coef7: i16,
    rgb_to_lms_coef8: i16,
    signal_eotf: u16,
    signal_eotf_param0: u16,
    signal_eotf_param1: u16,
    signal_eotf_param2: u32,
    signal_bit_depth: u8,
    signal_color_space: u8,
    signal_chroma_format: u8,
    signal_full_range_flag: u8,
    source_min_pq: u16,
    source_max_pq: u16,
    source_diagonal: u16,
    dm_data: CDmData,
}

// ---------------------------------------------------------------------------------------------
// JSON rendering of what the pointers show
// ---------------------------------------------------------------------------------------------

fn jb(b: CBool) -> String {
    match b {
        0 => "false".to_string(),
        1 => "true".to_string(),
        v => v.to_string(),
    }
}

const NULL_WITH_LEN: &str = "\"null-with-len\"";

unsafe fn arr<T: Copy + ToString>(data: *const T, len: usize) -> String {
    if data.is_null() {
        return if len == 0 { "[]".to_string() } else { NULL_WITH_LEN.to_string() };
    }
    let s = unsafe { std::slice::from_raw_parts(data, len) };
    format!("[{}]", s.iter().map(|v| v.to_string()).collect::<Vec<_>>().join(","))
}

/// list of pointers -> rendered elements
unsafe fn ptr_list<T>(list: *const *const T, len: usize, f: impl Fn(&T) -> String) -> String {
    if list.is_null() {
        return if len == 0 { "[]".to_string() } else { NULL_WITH_LEN.to_string() };
    }
    let s = unsafe { std::slice::from_raw_parts(list, len) };
    let items: Vec<String> = s
        .iter()
        .map(|p| if p.is_null() { "null".to_string() } else { f(unsafe { &**p }) })
        .collect();
    format!("[{}]", items.join(","))
}

unsafe fn u64_2d(d: &CU64Data2D) -> String {
    unsafe { ptr_list(d.list, d.len, |x| arr(x.data, x.len)) }
}
unsafe fn i64_2d(d: &CI64Data2D) -> String {
    unsafe { ptr_list(d.list, d.len, |x| arr(x.data, x.len)) }
}
unsafe fn u64_3d(d: &CU64Data3D) -> String {
    unsafe { ptr_list(d.list, d.len, |x| u64_2d(x)) }
}
unsafe fn i64_3d(d: &CI64Data3D) -> String {
    unsafe { ptr_list(d.list, d.len, |x| i64_2d(x)) }
}

unsafe fn header_json(h: &CHeader) -> String {
    let el = if h.el_type.is_null() {
        "null".to_string()
    } else {
        format!("\"{}\"", unsafe { CStr::from_ptr(h.el_type) }.to_string_lossy())
    };
    format!(
        concat!(
            "{{\"guessed_profile\":{},\"el_type\":{},\"rpu_nal_prefix\":{},\"rpu_type\":{},\"rpu_format\":{},",
            "\"vdr_rpu_profile\":{},\"vdr_rpu_level\":{},\"vdr_seq_info_present_flag\":{},",
            "\"chroma_resampling_explicit_filter_flag\":{},\"coefficient_data_type\":{},",
            "\"coefficient_log2_denom\":{},\"vdr_rpu_normalized_idc\":{},\"bl_video_full_range_flag\":{},",
            "\"bl_bit_depth_minus8\":{},\"el_bit_depth_minus8\":{},\"vdr_bit_depth_minus8\":{},",
            "\"spatial_resampling_filter_flag\":{},\"reserved_zero_3bits\":{},",
            "\"el_spatial_resampling_filter_flag\":{},\"disable_residual_flag\":{},",
            "\"vdr_dm_metadata_present_flag\":{},\"use_prev_vdr_rpu_flag\":{},\"prev_vdr_rpu_id\":{}}}"
        ),
        h.guessed_profile,
        el,
        h.rpu_nal_prefix,
        h.rpu_type,
        h.rpu_format,
        h.vdr_rpu_profile,
        h.vdr_rpu_level,
        jb(h.vdr_seq_info_present_flag),
        jb(h.chroma_resampling_explicit_filter_flag),
        h.coefficient_data_type,
        h.coefficient_log2_denom,
        h.vdr_rpu_normalized_idc,
        jb(h.bl_video_full_range_flag),
        h.bl_bit_depth_minus8,
        h.el_bit_depth_minus8,
        h.vdr_bit_depth_minus8,
        jb(h.spatial_resampling_filter_flag),
        h.reserved_zero_3bits,
        jb(h.el_spatial_resampling_filter_flag),
        jb(h.disable_residual_flag),
        jb(h.vdr_dm_metadata_present_flag),
        jb(h.use_prev_vdr_rpu_flag),
        h.prev_vdr_rpu_id
    )
}

unsafe fn curve_json(c: &CReshapingCurve) -> String {
    unsafe {
        let poly = if c.polynomial.is_null() {
            "null".to_string()
        } else {
            let p = &*c.polynomial;
            format!(
                "{{\"poly_order_minus1\":{},\"linear_interp_flag\":{},\"poly_coef_int\":{},\"poly_coef\":{}}}",
                arr(p.poly_order_minus1.data, p.poly_order_minus1.len),
                arr(p.linear_interp_flag.data, p.linear_interp_flag.len),
                i64_2d(&p.poly_coef_int),
                u64_2d(&p.poly_coef)
            )
        };
        let mmr = if c.mmr.is_null() {
            "null".to_string()
        } else {
            let m = &*c.mmr;
            format!(
                "{{\"mmr_order_minus1\":{},\"mmr_constant_int\":{},\"mmr_constant\":{},\"mmr_coef_int\":{},\"mmr_coef\":{}}}",
                arr(m.mmr_order_minus1.data, m.mmr_order_minus1.len),
                arr(m.mmr_constant_int.data, m.mmr_constant_int.len),
                arr(m.mmr_constant.data, m.mmr_constant.len),
                i64_3d(&m.mmr_coef_int),
                u64_3d(&m.mmr_coef)
            )
        };
        format!(
            "{{\"num_pivots_minus2\":{},\"pivots\":{},\"mapping_idc\":{},\"polynomial\":{},\"mmr\":{}}}",
            c.num_pivots_minus2,
            arr(c.pivots.data, c.pivots.len),
            c.mapping_idc,
            poly,
            mmr
        )
    }
}

fn a3<T: ToString>(a: &[T; 3]) -> String {
    format!("[{},{},{}]", a[0].to_string(), a[1].to_string(), a[2].to_string())
}

unsafe fn mapping_json(m: &CMapping) -> String {
    unsafe {
        let nlq = if m.nlq.is_null() {
            "null".to_string()
        } else {
            let n = &*m.nlq;
            format!(
                concat!(
                    "{{\"nlq_offset\":{},\"vdr_in_max_int\":{},\"vdr_in_max\":{},\"linear_deadzone_slope_int\":{},",
                    "\"linear_deadzone_slope\":{},\"linear_deadzone_threshold_int\":{},\"linear_deadzone_threshold\":{}}}"
                ),
                a3(&n.nlq_offset),
                a3(&n.vdr_in_max_int),
                a3(&n.vdr_in_max),
                a3(&n.linear_deadzone_slope_int),
                a3(&n.linear_deadzone_slope),
                a3(&n.linear_deadzone_threshold_int),
                a3(&n.linear_deadzone_threshold)
            )
        };
        format!(
            concat!(
                "{{\"vdr_rpu_id\":{},\"mapping_color_space\":{},\"mapping_chroma_format_idc\":{},",
                "\"num_x_partitions_minus1\":{},\"num_y_partitions_minus1\":{},\"curves\":[{},{},{}],",
                "\"nlq_method_idc\":{},\"nlq_num_pivots_minus2\":{},\"nlq_pred_pivot_value\":{},\"nlq\":{}}}"
            ),
            m.vdr_rpu_id,
            m.mapping_color_space,
            m.mapping_chroma_format_idc,
            m.num_x_partitions_minus1,
            m.num_y_partitions_minus1,
            curve_json(&m.curves[0]),
            curve_json(&m.curves[1]),
            curve_json(&m.curves[2]),
            m.nlq_method_idc,
            m.nlq_num_pivots_minus2,
            arr(m.nlq_pred_pivot_value.data, m.nlq_pred_pivot_value.len),
            nlq
        )
    }
}

fn obj(fields: &[(&str, String)]) -> String {
    format!(
        "{{{}}}",
        fields.iter().map(|(k, v)| format!("\"{}\":{}", k, v)).collect::<Vec<_>>().join(",")
    )
}

macro_rules! flds {
    ($b:expr; $($f:ident),+) => { obj(&[$((stringify!($f), $b.$f.to_string())),+]) };
}

fn l1(b: &CL1) -> String {
    flds!(b; min_pq, max_pq, avg_pq)
}
fn l2(b: &CL2) -> String {
    flds!(b; target_max_pq, trim_slope, trim_offset, trim_power, trim_chroma_weight, trim_saturation_gain, ms_weight)
}
fn l3(b: &CL3) -> String {
    flds!(b; min_pq_offset, max_pq_offset, avg_pq_offset)
}
fn l4(b: &CL4) -> String {
    flds!(b; anchor_pq, anchor_power)
}
fn l5(b: &CL5) -> String {
    flds!(b; active_area_left_offset, active_area_right_offset, active_area_top_offset, active_area_bottom_offset)
}
fn l6(b: &CL6) -> String {
    flds!(b; max_display_mastering_luminance, min_display_mastering_luminance, max_content_light_level,
          max_frame_average_light_level)
}
fn l8(b: &CL8) -> String {
    flds!(b; length, target_display_index, trim_slope, trim_offset, trim_power, trim_chroma_weight,
          trim_saturation_gain, ms_weight, target_mid_contrast, clip_trim, saturation_vector_field0,
          saturation_vector_field1, saturation_vector_field2, saturation_vector_field3, saturation_vector_field4,
          saturation_vector_field5, hue_vector_field0, hue_vector_field1, hue_vector_field2, hue_vector_field3,
          hue_vector_field4, hue_vector_field5)
}
fn l9(b: &CL9) -> String {
    flds!(b; length, source_primary_index, source_primary_red_x, source_primary_red_y, source_primary_green_x,
          source_primary_green_y, source_primary_blue_x, source_primary_blue_y, source_primary_white_x,
          source_primary_white_y)
}
fn l10(b: &CL10) -> String {
    flds!(b; length, target_display_index, target_max_pq, target_min_pq, target_primary_index,
          target_primary_red_x, target_primary_red_y, target_primary_green_x, target_primary_green_y,
          target_primary_blue_x, target_primary_blue_y, target_primary_white_x, target_primary_white_y)
}
fn l11(b: &CL11) -> String {
    obj(&[
        ("content_type", b.content_type.to_string()),
        ("whitepoint", b.whitepoint.to_string()),
        ("reference_mode_flag", jb(b.reference_mode_flag)),
        ("reserved_byte2", b.reserved_byte2.to_string()),
        ("reserved_byte3", b.reserved_byte3.to_string()),
    ])
}
fn l254(b: &CL254) -> String {
    flds!(b; dm_mode, dm_version_index)
}
fn l255(b: &CL255) -> String {
    flds!(b; dm_run_mode, dm_run_version, dm_debug0, dm_debug1, dm_debug2, dm_debug3)
}

unsafe fn opt<T>(p: *const T, f: impl Fn(&T) -> String) -> String {
    if p.is_null() { "null".to_string() } else { f(unsafe { &*p }) }
}

unsafe fn blist<T>(l: &CBlockList<T>, f: impl Fn(&T) -> String) -> String {
    format!("{{\"len\":{},\"list\":{}}}", l.len, unsafe { ptr_list(l.list, l.len, f) })
}

unsafe fn dm_json(d: &CVdrDmData) -> String {
    unsafe {
        let x = &d.dm_data;
        let dm_data = obj(&[
            ("num_ext_blocks", x.num_ext_blocks.to_string()),
            ("level1", opt(x.level1, l1)),
            ("level2", blist(&x.level2, l2)),
            ("level3", opt(x.level3, l3)),
            ("level4", opt(x.level4, l4)),
            ("level5", opt(x.level5, l5)),
            ("level6", opt(x.level6, l6)),
            ("level8", blist(&x.level8, l8)),
            ("level9", opt(x.level9, l9)),
            ("level10", blist(&x.level10, l10)),
            ("level11", opt(x.level11, l11)),
            ("level254", opt(x.level254, l254)),
            ("level255", opt(x.level255, l255)),
        ]);
        let head = obj(&[
            ("compressed", jb(d.compressed)),
            ("affected_dm_metadata_id", d.affected_dm_metadata_id.to_string()),
            ("current_dm_metadata_id", d.current_dm_metadata_id.to_string()),
            ("scene_refresh_flag", d.scene_refresh_flag.to_string()),
        ]);
        let main = flds!(d; ycc_to_rgb_coef0, ycc_to_rgb_coef1, ycc_to_rgb_coef2, ycc_to_rgb_coef3, ycc_to_rgb_coef4,
            ycc_to_rgb_coef5, ycc_to_rgb_coef6, ycc_to_rgb_coef7, ycc_to_rgb_coef8, ycc_to_rgb_offset0,
            ycc_to_rgb_offset1, ycc_to_rgb_offset2, rgb_to_lms_coef0, rgb_to_lms_coef1, rgb_to_lms_coef2,
            rgb_to_lms_coef3, rgb_to_lms_coef4, rgb_to_lms_coef5, rgb_to_lms_coef6, rgb_to_lms_coef7,
            rgb_to_lms_coef8, signal_eotf, signal_eotf_param0, signal_eotf_param1, signal_eotf_param2,
            signal_bit_depth, signal_color_space, signal_chroma_format, signal_full_range_flag, source_min_pq,
            source_max_pq, source_diagonal);
        // one flat object: head fields, main fields, dm_data
        format!(
            "{},{},\"dm_data\":{}}}",
            &head[..head.len() - 1],
            &main[1..main.len() - 1],
            dm_data
        )
    }
}

// ---------------------------------------------------------------------------------------------
// ops
// ---------------------------------------------------------------------------------------------

const PERMS: [[usize; 3]; 6] = [[0, 1, 2], [0, 2, 1], [1, 0, 2], [1, 2, 0], [2, 0, 1], [2, 1, 0]];

unsafe fn parse_entry(entry: &str, d: &[u8]) -> *mut dolby_vision::c_structs::RpuOpaque {
    unsafe {
        // a zero-length slice still needs a non-null pointer
        let backing = [0u8; 1];
        let (p, n) = if d.is_empty() { (backing.as_ptr(), 0) } else { (d.as_ptr(), d.len()) };
        match entry {
            "rpu" => dovi_parse_rpu(p, n),
            "nalu" => dovi_parse_unspec62_nalu(p, n),
            _ => dovi_parse_itu_t35_dovi_metadata_obu(p, n),
        }
    }
}

unsafe fn view(entry: &str, d: &[u8]) -> String {
    unsafe {
        let h = parse_entry(entry, d);
        if h.is_null() {
            return "inconsistent:null-handle".to_string();
        }
        let e = dovi_rpu_get_error(h);
        let mut hd: *const CHeader = std::ptr::null();
        let mut mp: *const CMapping = std::ptr::null();
        let mut dm: *const CVdrDmData = std::ptr::null();
        for g in PERMS[d.len() % 6] {
            match g {
                0 => hd = dovi_rpu_get_header(h) as *const CHeader,
                1 => mp = dovi_rpu_get_data_mapping(h) as *const CMapping,
                _ => dm = dovi_rpu_get_vdr_dm_data(h) as *const CVdrDmData,
            }
        }
        let failed = !e.is_null();
        let verdict: Option<String> = if failed {
            if !hd.is_null() || !mp.is_null() || !dm.is_null() {
                Some("inconsistent:error-and-rpu".to_string())
            } else if CStr::from_ptr(e).to_bytes().is_empty() {
                Some("inconsistent:empty-error-string".to_string())
            } else {
                Some("err".to_string())
            }
        } else if hd.is_null() {
            Some("inconsistent:no-error-no-rpu".to_string())
        } else {
            None
        };
        let early_handle_free = (d.len() / 36) % 2 == 1;
        if early_handle_free {
            // the getters returned independent copies: the handle may go first
            dovi_rpu_free(h);
        }
        let res = match verdict {
            Some(v) => v,
            None => format!(
                "ok {{\"header\":{},\"mapping\":{},\"dm\":{}}}",
                header_json(&*hd),
                if mp.is_null() { "null".to_string() } else { mapping_json(&*mp) },
                if dm.is_null() { "null".to_string() } else { dm_json(&*dm) }
            ),
        };
        // every returned object exactly once; null results are not objects and are not passed to a free
        for g in PERMS[(d.len() / 6) % 6] {
            match g {
                0 => {
                    if !hd.is_null() {
                        dovi_rpu_free_header(hd as *const dolby_vision::c_structs::RpuDataHeader)
                    }
                }
                1 => {
                    if !mp.is_null() {
                        dovi_rpu_free_data_mapping(mp as *const dolby_vision::c_structs::RpuDataMapping)
                    }
                }
                _ => {
                    if !dm.is_null() {
                        dovi_rpu_free_vdr_dm_data(dm as *const dolby_vision::c_structs::VdrDmData)
                    }
                }
            }
        }
        if !early_handle_free {
            dovi_rpu_free(h);
        }
        res
    }
}

unsafe fn take_data(p: *const dolby_vision::c_structs::Data) -> String {
    unsafe {
        if p.is_null() {
            return "null".to_string();
        }
        let m = &*(p as *const CData);
        let s = if m.data.is_null() {
            if m.len == 0 { "-".to_string() } else { "null-with-len".to_string() }
        } else {
            hex(std::slice::from_raw_parts(m.data, m.len))
        };
        dovi_data_free(p);
        s
    }
}

fn split_ops(s: &str) -> Vec<&str> {
    if s == "-" { vec![] } else { s.split(';').collect() }
}

fn rcs_str(rcs: &[i32]) -> String {
    if rcs.is_empty() {
        "-".to_string()
    } else {
        rcs.iter().map(|r| r.to_string()).collect::<Vec<_>>().join(",")
    }
}

unsafe fn seq(d: &[u8], ops: &str) -> String {
    unsafe {
        let h = parse_entry("rpu", d);
        if !dovi_rpu_get_error(h).is_null() {
            dovi_rpu_free(h);
            return "err".to_string();
        }
        let mut rcs = Vec::new();
        for op in split_ops(ops) {
            let (name, arg) = match op.split_once(':') {
                Some((a, b)) => (a, b),
                None => (op, ""),
            };
            let rc = match name {
                "mode" => dovi_convert_rpu_with_mode(h, arg.parse::<u64>().unwrap() as u8),
                "offs" => {
                    let v: Vec<u16> = arg.split(',').map(|x| x.parse().unwrap()).collect();
                    dovi_rpu_set_active_area_offsets(h, v[0], v[1], v[2], v[3])
                }
                "rmmap" => dovi_rpu_remove_mapping(h),
                _ => return "bad-op".to_string(),
            };
            rcs.push(rc);
        }
        let w1 = take_data(dovi_write_rpu(h));
        let w2 = take_data(dovi_write_unspec62_nalu(h));
        let w3 = take_data(dovi_write_av1_rpu_metadata_obu_t35_payload(h));
        let w4 = take_data(dovi_write_av1_rpu_metadata_obu_t35_complete(h));
        let e = !dovi_rpu_get_error(h).is_null();
        dovi_rpu_free(h);
        format!("ok {} {} {} {} {} e={}", rcs_str(&rcs), w1, w2, w3, w4, e as u8)
    }
}

/// the same sequence through the Rust API
/// the getters' view AFTER a call sequence in which operations may have failed (the handle keeps its RPU
/// and records the error string; the getters must still present the RPU):
/// `ok <rcs> e=<error string set> {"header":..,"mapping":..,"dm":..}`
unsafe fn seqview(d: &[u8], ops: &str) -> String {
    unsafe {
        let h = parse_entry("rpu", d);
        if !dovi_rpu_get_error(h).is_null() {
            dovi_rpu_free(h);
            return "err".to_string();
        }
        let mut rcs = Vec::new();
        for op in split_ops(ops) {
            let (name, arg) = match op.split_once(':') {
                Some((a, b)) => (a, b),
                None => (op, ""),
            };
            let rc = match name {
                "mode" => dovi_convert_rpu_with_mode(h, arg.parse::<u64>().unwrap() as u8),
                "offs" => {
                    let v: Vec<u16> = arg.split(',').map(|x| x.parse().unwrap()).collect();
                    dovi_rpu_set_active_area_offsets(h, v[0], v[1], v[2], v[3])
                }
                "rmmap" => dovi_rpu_remove_mapping(h),
                "write" => {
                    // a writer call in the middle of the sequence (a failing one records its error in the handle)
                    let w = take_data(dovi_write_rpu(h));
                    if w == "null" { -1 } else { 0 }
                }
                _ => return "bad-op".to_string(),
            };
            rcs.push(rc);
        }
        let e = !dovi_rpu_get_error(h).is_null();
        let hd = dovi_rpu_get_header(h) as *const CHeader;
        let mp = dovi_rpu_get_data_mapping(h) as *const CMapping;
        let dm = dovi_rpu_get_vdr_dm_data(h) as *const CVdrDmData;
        let res = if hd.is_null() {
            format!("ok {} e={} null-header", rcs_str(&rcs), e as u8)
        } else {
            format!(
                "ok {} e={} {{\"header\":{},\"mapping\":{},\"dm\":{}}}",
                rcs_str(&rcs),
                e as u8,
                header_json(&*hd),
                if mp.is_null() { "null".to_string() } else { mapping_json(&*mp) },
                if dm.is_null() { "null".to_string() } else { dm_json(&*dm) }
            )
        };
        if !hd.is_null() {
            dovi_rpu_free_header(hd as *const dolby_vision::c_structs::RpuDataHeader);
        }
        if !mp.is_null() {
            dovi_rpu_free_data_mapping(mp as *const dolby_vision::c_structs::RpuDataMapping);
        }
        if !dm.is_null() {
            dovi_rpu_free_vdr_dm_data(dm as *const dolby_vision::c_structs::VdrDmData);
        }
        dovi_rpu_free(h);
        res
    }
}

/// the Rust API on the same sequence, continuing after failed operations: `ok <rcs> e=<any error> <serde JSON>`
fn ops3json(d: &[u8], ops: &str) -> String {
    let mut r = match DoviRpu::parse_rpu(d) {
        Ok(r) => r,
        Err(_) => return "err".to_string(),
    };
    let mut rcs = Vec::new();
    let mut any_err = false;
    for op in split_ops(ops) {
        let name = op.split(':').next().unwrap_or("");
        if name == "write" {
            let res = std::panic::catch_unwind(std::panic::AssertUnwindSafe(|| r.write_rpu()));
            match res {
                Ok(Ok(_)) => rcs.push(0),
                Ok(Err(_)) => {
                    any_err = true;
                    rcs.push(-1)
                }
                Err(_) => return "wpanic".to_string(),
            }
            continue;
        }
        if !matches!(name, "mode" | "offs" | "rmmap") {
            return "bad-op".to_string();
        }
        let res = std::panic::catch_unwind(std::panic::AssertUnwindSafe(|| crate::ops_edit::apply_op(&mut r, op)));
        match res {
            Ok(Ok(())) => rcs.push(0),
            Ok(Err(_)) => {
                any_err = true;
                rcs.push(-1)
            }
            Err(_) => return "oppanic".to_string(),
        }
    }
    format!("ok {} e={} {}", rcs_str(&rcs), any_err as u8, serde_json::to_string(&r).unwrap())
}

#[repr(C)]
struct CRpuList {
    list: *const *mut dolby_vision::c_structs::RpuOpaque,
    len: usize,
    error: *const c_char,
}

fn temp_file(d: &[u8], tag: &str) -> String {
    use std::io::Write;
    let dir = std::env::var("VERIF_WORK").unwrap_or_else(|_| "/verif/build/work".to_string());
    let path = format!("{}/{}-{}.bin", dir, tag, std::process::id());
    let mut f = std::fs::File::create(&path).unwrap();
    f.write_all(d).unwrap();
    path
}

/// `dovi_parse_rpu_bin_file` -> every handle of the list written with `dovi_write_rpu` -> `dovi_rpu_list_free`:
/// `ok <n> <hex>,<hex>,…` | `err` (error string set, list empty) | `inconsistent:…`
unsafe fn list_c(d: &[u8]) -> String {
    unsafe {
        let path = temp_file(d, "c20l");
        let cp = std::ffi::CString::new(path.clone()).unwrap();
        let l = dovi_parse_rpu_bin_file(cp.as_ptr()) as *const CRpuList;
        let _ = std::fs::remove_file(&path);
        if l.is_null() {
            return "inconsistent:null-list".to_string();
        }
        let has_err = !(*l).error.is_null();
        let n = (*l).len;
        let res = if has_err {
            if n != 0 || !(*l).list.is_null() {
                "inconsistent:error-and-list".to_string()
            } else if CStr::from_ptr((*l).error).to_bytes().is_empty() {
                "inconsistent:empty-error-string".to_string()
            } else {
                "err".to_string()
            }
        } else if (*l).list.is_null() {
            "inconsistent:no-error-no-list".to_string()
        } else {
            let hs = std::slice::from_raw_parts((*l).list, n);
            let mut outs = Vec::new();
            for h in hs {
                if h.is_null() || !dovi_rpu_get_error(*h).is_null() {
                    outs.push("bad-handle".to_string());
                } else {
                    outs.push(take_data(dovi_write_rpu(*h)));
                }
            }
            format!("ok {} {}", n, if outs.is_empty() { "-".to_string() } else { outs.join(",") })
        };
        dovi_rpu_list_free(l as *const dolby_vision::c_structs::RpuOpaqueList);
        res
    }
}

fn list_rust(d: &[u8]) -> String {
    let path = temp_file(d, "c20r");
    let r = dolby_vision::rpu::utils::parse_rpu_file(&path);
    let _ = std::fs::remove_file(&path);
    match r {
        Err(_) => "err".to_string(),
        Ok(rpus) => {
            let outs: Vec<String> = rpus
                .iter()
                .map(|r| match r.write_rpu() {
                    Ok(o) => hex(&o),
                    Err(_) => "null".to_string(),
                })
                .collect();
            format!("ok {} {}", rpus.len(), if outs.is_empty() { "-".to_string() } else { outs.join(",") })
        }
    }
}

/// every function documented to accept a null pointer is called with one and must return
unsafe fn nulls() -> String {
    unsafe {
        let l = dovi_parse_rpu_bin_file(std::ptr::null());
        let a = l.is_null();
        dovi_rpu_list_free(std::ptr::null());
        dovi_rpu_free(std::ptr::null_mut());
        dovi_data_free(std::ptr::null());
        dovi_rpu_free_header(std::ptr::null());
        dovi_rpu_free_data_mapping(std::ptr::null());
        dovi_rpu_free_vdr_dm_data(std::ptr::null());
        let e = dovi_rpu_get_error(std::ptr::null());
        let h = dovi_rpu_get_header(std::ptr::null());
        let m = dovi_rpu_get_data_mapping(std::ptr::null());
        let d = dovi_rpu_get_vdr_dm_data(std::ptr::null());
        let w = dovi_write_rpu(std::ptr::null_mut());
        let c = dovi_convert_rpu_with_mode(std::ptr::null_mut(), 2);
        format!(
            "ok file={} err={} hdr={} map={} dm={} write={} convert={}",
            a as u8,
            e.is_null() as u8,
            h.is_null() as u8,
            m.is_null() as u8,
            d.is_null() as u8,
            w.is_null() as u8,
            c
        )
    }
}

fn ops3(d: &[u8], ops: &str) -> String {
    let mut r = match DoviRpu::parse_rpu(d) {
        Ok(r) => r,
        Err(_) => return "err".to_string(),
    };
    let mut rcs = Vec::new();
    let mut any_err = false;
    for op in split_ops(ops) {
        let name = op.split(':').next().unwrap_or("");
        if !matches!(name, "mode" | "offs" | "rmmap") {
            return "bad-op".to_string();
        }
        let res = std::panic::catch_unwind(std::panic::AssertUnwindSafe(|| crate::ops_edit::apply_op(&mut r, op)));
        match res {
            Ok(Ok(())) => rcs.push(0),
            Ok(Err(_)) => {
                any_err = true;
                rcs.push(-1)
            }
            Err(_) => return "oppanic".to_string(),
        }
    }
    let mut outs = Vec::new();
    for k in 0..4 {
        let res = std::panic::catch_unwind(std::panic::AssertUnwindSafe(|| match k {
            0 => r.write_rpu(),
            1 => r.write_hevc_unspec62_nalu(),
            2 => r.write_av1_rpu_metadata_obu_t35_payload(),
            _ => r.write_av1_rpu_metadata_obu_t35_complete(),
        }));
        outs.push(match res {
            Ok(Ok(o)) => hex(&o),
            Ok(Err(_)) => {
                any_err = true;
                "null".to_string()
            }
            Err(_) => "wpanic".to_string(),
        });
    }
    format!("ok {} {} e={}", rcs_str(&rcs), outs.join(" "), any_err as u8)
}

fn layout() -> String {
    use dolby_vision::c_structs as cs;
    use std::mem::size_of as sz;
    let pairs = [
        ("RpuDataHeader", sz::<CHeader>(), sz::<cs::RpuDataHeader>()),
        ("RpuDataMapping", sz::<CMapping>(), sz::<cs::RpuDataMapping>()),
        ("RpuDataNlq", sz::<CNlq>(), sz::<cs::RpuDataNlq>()),
        ("VdrDmData", sz::<CVdrDmData>(), sz::<cs::VdrDmData>()),
        ("DmData", sz::<CDmData>(), sz::<cs::DmData>()),
        ("Data", sz::<CData>(), sz::<cs::Data>()),
    ];
    format!(
        "ok {}",
        pairs.iter().map(|(n, a, b)| format!("{}={}/{}", n, a, b)).collect::<Vec<_>>().join(" ")
    )
}

pub fn run(parts: &[&str]) -> String {
    match parts[0] {
        "capi.view" if parts.len() == 3 => unsafe { view(parts[1], &unhex(parts[2])) },
        "capi.seq" if parts.len() == 3 => unsafe { seq(&unhex(parts[1]), parts[2]) },
        "rpu.ops3" if parts.len() == 3 => ops3(&unhex(parts[1]), parts[2]),
        "capi.seqview" if parts.len() == 3 => unsafe { seqview(&unhex(parts[1]), parts[2]) },
        "capi.list" if parts.len() == 2 => unsafe { list_c(&unhex(parts[1])) },
        "rpu.filelist" if parts.len() == 2 => list_rust(&unhex(parts[1])),
        "capi.nulls" => unsafe { nulls() },
        "rpu.ops3json" if parts.len() == 3 => ops3json(&unhex(parts[1]), parts[2]),
        "capi.layout" => layout(),
        _ => "bad-op".to_string(),
    }
}
