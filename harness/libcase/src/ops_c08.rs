//! Outcome class of every parsing entry point on arbitrary bytes (C08).
use crate::*;
use dolby_vision::capi::*;
use dolby_vision::rpu::dovi_rpu::DoviRpu;
use dolby_vision::rpu::utils::parse_rpu_file;
use dolby_vision::st2094_10::itu_t35::ST2094_10ItuT35;
use std::ffi::CString;
use std::io::Write;

fn cls<T>(r: anyhow::Result<T>) -> String {
    match r {
        Ok(_) => "ok".to_string(),
        Err(_) => "err".to_string(),
    }
}

/// C API: parse through one of the three wrappers, read the error, call the getters, free everything once.
/// Returns `ok` / `err` by the error-string rule of the API (error set iff parsing failed).
unsafe fn capi_class(entry: &str, d: &[u8]) -> String {
    unsafe {
        // a zero-length slice still needs a non-null pointer
        let backing = [0u8; 1];
        let (p, n) = if d.is_empty() { (backing.as_ptr(), 0) } else { (d.as_ptr(), d.len()) };
        let h = match entry {
            "rpu" => dovi_parse_rpu(p, n),
            "nalu" => dovi_parse_unspec62_nalu(p, n),
            _ => dovi_parse_itu_t35_dovi_metadata_obu(p, n),
        };
        let e = dovi_rpu_get_error(h);
        let hd = dovi_rpu_get_header(h);
        let mp = dovi_rpu_get_data_mapping(h);
        let dm = dovi_rpu_get_vdr_dm_data(h);
        let has_rpu = !hd.is_null();
        dovi_rpu_free_header(hd);
        dovi_rpu_free_data_mapping(mp);
        dovi_rpu_free_vdr_dm_data(dm);
        let res = if e.is_null() {
            if has_rpu { "ok" } else { "inconsistent:no-error-no-rpu" }
        } else if has_rpu {
            "inconsistent:error-and-rpu"
        } else {
            "err"
        };
        dovi_rpu_free(h);
        res.to_string()
    }
}

pub fn run(parts: &[&str]) -> String {
    let d = if parts.len() > 1 { unhex(parts[parts.len() - 1]) } else { Vec::new() };
    match parts[0] {
        "c08.rpu" => cls(DoviRpu::parse_rpu(&d)),
        "c08.nalu" => cls(DoviRpu::parse_unspec62_nalu(&d)),
        "c08.av1" => cls(DoviRpu::parse_itu_t35_dovi_metadata_obu(&d)),
        "c08.st2094" => cls(ST2094_10ItuT35::parse_itu_t35_dashif(&d)),
        "c08.file" => {
            let dir = std::env::var("VERIF_WORK").unwrap_or_else(|_| "/verif/build/work".to_string());
            let path = format!("{}/c08-{}.bin", dir, std::process::id());
            {
                let mut f = std::fs::File::create(&path).unwrap();
                f.write_all(&d).unwrap();
            }
            let r = cls(parse_rpu_file(&path));
            let _ = std::fs::remove_file(&path);
            r
        }
        "c08.capi" => unsafe { capi_class(parts[1], &d) },
        "c08.capifile" => {
            let dir = std::env::var("VERIF_WORK").unwrap_or_else(|_| "/verif/build/work".to_string());
            let path = format!("{}/c08c-{}.bin", dir, std::process::id());
            {
                let mut f = std::fs::File::create(&path).unwrap();
                f.write_all(&d).unwrap();
            }
            let cp = CString::new(path.clone()).unwrap();
            let r = unsafe {
                let l = dovi_parse_rpu_bin_file(cp.as_ptr());
                if l.is_null() {
                    "null".to_string()
                } else {
                    let has_err = !(*l).error.is_null();
                    let len = (*l).len;
                    dovi_rpu_list_free(l);
                    if has_err { "err".to_string() } else { format!("ok{}", if len == 0 { ":empty" } else { "" }) }
                }
            };
            let _ = std::fs::remove_file(&path);
            r
        }
        _ => "bad-op".to_string(),
    }
}
