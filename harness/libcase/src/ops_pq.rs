//! C19 — ops on the real PQ <-> nits conversions (`dolby_vision::utils::{nits_to_pq, pq_to_nits}`) and their
//! users.  Every expression below is the expression of the named call site, applied to the real functions.
use dolby_vision::rpu::extension_metadata::blocks::{
    ExtMetadataBlock, ExtMetadataBlockLevel2, ExtMetadataBlockLevel6,
};
use dolby_vision::utils::{nits_to_pq, pq_to_nits};
use dolby_vision::xml::{CmXmlParser, XmlParserOpts};

fn join<T: ToString>(v: impl Iterator<Item = T>) -> String {
    let mut s = String::from("ok");
    for x in v {
        s.push(' ');
        s.push_str(&x.to_string());
    }
    s
}

/// `(nits_to_pq(x) * 4095.0).round() as u16` — level2.rs:76, xml/parser.rs:77-81,549-551, generator.rs:215
fn code_of(nits: f64) -> u16 {
    (nits_to_pq(nits) * 4095.0).round() as u16
}

/// `pq_to_nits(code as f64 / 4095.0)` — rpu_info.rs:216-217,331
fn nits_of(code: u16) -> f64 {
    pq_to_nits(code as f64 / 4095.0)
}

fn xml_doc(min_text: &str, max_nits: &str, t_peak: &str, t_min: &str) -> String {
    format!(
        r#"<?xml version="1.0" encoding="UTF-8"?>
<DolbyLabsMDF xmlns="http://www.dolby.com/schemas/dvmd/4_0_2">
  <Version>4.0.2</Version>
  <Outputs><Output>
    <CanvasAspectRatio>1.77778</CanvasAspectRatio>
    <ImageAspectRatio>1.77778</ImageAspectRatio>
    <Video><Track>
      <EditRate>24000 1001</EditRate>
      <Level6 level="6"><MaxCLL>1000</MaxCLL><MaxFALL>400</MaxFALL></Level6>
      <PluginNode><DVGlobalData level="0">
        <MasteringDisplay>
          <ID>20</ID>
          <Primaries><Red>0.68 0.32</Red><Green>0.265 0.69</Green><Blue>0.15 0.06</Blue></Primaries>
          <WhitePoint>0.3127 0.329</WhitePoint>
          <PeakBrightness>{max_nits}</PeakBrightness>
          <MinimumBrightness>{min_text}</MinimumBrightness>
        </MasteringDisplay>
        <TargetDisplay>
          <ID>200</ID>
          <Primaries><Red>0.64 0.33</Red><Green>0.3 0.6</Green><Blue>0.15 0.06</Blue></Primaries>
          <WhitePoint>0.3127 0.329</WhitePoint>
          <PeakBrightness>{t_peak}</PeakBrightness>
          <MinimumBrightness>{t_min}</MinimumBrightness>
        </TargetDisplay>
      </DVGlobalData></PluginNode>
    </Track></Video>
  </Output></Outputs>
</DolbyLabsMDF>"#
    )
}

pub fn run(parts: &[&str]) -> String {
    match parts[0] {
        // integer nits 0..=10000
        "pq.nits" => join((0..=10000u32).map(|n| code_of(n as f64))),
        // min-luminance grid: xml/parser.rs:77 `nits_to_pq(min as f64 / 10000.0)` with min: u16
        "pq.minlum" => join((0..=10000u16).map(|k| code_of(k as f64 / 10000.0))),
        // ExtMetadataBlockLevel2::from_nits
        "pq.l2" => join((0..=10000u16).map(|n| ExtMetadataBlockLevel2::from_nits(n).target_max_pq)),
        // code -> nits -> code on the implementation
        "pq.codes" => join((0..=4095u16).map(|c| code_of(nits_of(c)))),
        // the f64 luminance of every code (bit pattern)
        "pq.codebits" => join((0..=4095u16).map(|c| nits_of(c).to_bits())),
        // the implementation's code of arbitrary f64 luminances given as bit patterns
        "pq.f64code" => join(parts[1..].iter().map(|b| code_of(f64::from_bits(b.parse::<u64>().unwrap())))),
        // rpu_info.rs:331  ((pq_to_nits(target_max_pq as f64 / 4095.0) / 100.0).round() * 100.0) as u16 ; printed /100
        "pq.round100" => join((0..=4095u16).map(|c| (((nits_of(c) / 100.0).round() * 100.0) as u16) / 100)),
        // rpu_info.rs:217  (pq_to_nits(meta.1 as f64 / 4095.0) / 1000.0).round() * 1000.0 ; printed /1000
        "pq.round1000" => join((0..=4095u16).map(|c| ((nits_of(c) / 1000.0).round() * 1000.0) as u32 / 1000)),
        // rpu_info.rs:216-219 the strings themselves: format!("{min:.4}/{max} nits"), format!("{target_nits} nits")
        "pq.minstr" => join((0..=4095u16).map(|c| {
            let min = (nits_of(c) * 1e6).round() / 1e6;
            format!("{min:.4}")
        })),
        "pq.maxstr" => join((0..=4095u16).map(|c| {
            let max = (nits_of(c) / 1000.0).round() * 1000.0;
            format!("{max}")
        })),
        // direct monotonicity oracle on the f64 values (no rounding): number of non-increasing steps
        "pq.mono" => {
            let mut bad = [0u32; 3];
            let mut first: [i64; 3] = [-1; 3];
            for n in 0..10000u32 {
                if !(nits_to_pq(n as f64) < nits_to_pq((n + 1) as f64)) {
                    bad[0] += 1;
                    if first[0] < 0 {
                        first[0] = n as i64;
                    }
                }
            }
            for k in 0..10000u16 {
                if !(nits_to_pq(k as f64 / 10000.0) < nits_to_pq((k + 1) as f64 / 10000.0)) {
                    bad[1] += 1;
                    if first[1] < 0 {
                        first[1] = k as i64;
                    }
                }
            }
            for c in 0..4095u16 {
                if !(nits_of(c) < nits_of(c + 1)) {
                    bad[2] += 1;
                    if first[2] < 0 {
                        first[2] = c as i64;
                    }
                }
            }
            format!("ok {} {} {} {} {} {}", bad[0], bad[1], bad[2], first[0], first[1], first[2])
        }
        // end points, exactly
        "pq.ends" => format!(
            "ok {} {} {} {}",
            nits_to_pq(10000.0).to_bits(),
            pq_to_nits(1.0).to_bits(),
            pq_to_nits(0.0).to_bits(),
            nits_to_pq(0.0).to_bits()
        ),
        // ExtMetadataBlockLevel6::source_meta_from_l6
        "pq.l6" => {
            let l6 = ExtMetadataBlockLevel6 {
                min_display_mastering_luminance: parts[1].parse().unwrap(),
                max_display_mastering_luminance: parts[2].parse().unwrap(),
                ..Default::default()
            };
            let (a, b) = l6.source_meta_from_l6();
            format!("ok {} {}", a, b)
        }
        // CM XML: mastering display min/max and one target display through the real parser
        "pq.xml" => {
            let doc = xml_doc(parts[1], parts[2], parts[3], parts[4]);
            match CmXmlParser::new(doc, XmlParserOpts::default()) {
                Err(_) => "err".to_string(),
                Ok(p) => {
                    let l6 = p.config.level6.clone().unwrap_or_default();
                    let mut l10 = (u32::MAX, u32::MAX);
                    for b in &p.config.default_metadata_blocks {
                        if let ExtMetadataBlock::Level10(b) = b {
                            l10 = (b.target_max_pq as u32, b.target_min_pq as u32);
                        }
                    }
                    format!(
                        "ok {} {} {} {} {} {}",
                        l6.min_display_mastering_luminance,
                        l6.max_display_mastering_luminance,
                        p.config.source_min_pq.map_or(-1, |v| v as i64),
                        p.config.source_max_pq.map_or(-1, |v| v as i64),
                        l10.0,
                        l10.1
                    )
                }
            }
        }
        _ => "bad-op".to_string(),
    }
}
