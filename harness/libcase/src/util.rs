pub fn unhex(s: &str) -> Vec<u8> {
    if s == "-" {
        return Vec::new();
    }
    let b = s.as_bytes();
    let mut v = Vec::with_capacity(b.len() / 2);
    let hv = |c: u8| -> u8 {
        match c {
            b'0'..=b'9' => c - b'0',
            b'a'..=b'f' => c - b'a' + 10,
            b'A'..=b'F' => c - b'A' + 10,
            _ => 0,
        }
    };
    let mut i = 0;
    while i + 1 < b.len() {
        v.push(hv(b[i]) * 16 + hv(b[i + 1]));
        i += 2;
    }
    v
}

pub fn hex(b: &[u8]) -> String {
    if b.is_empty() {
        return "-".to_string();
    }
    const D: &[u8; 16] = b"0123456789abcdef";
    let mut s = String::with_capacity(b.len() * 2);
    for x in b {
        s.push(D[(x >> 4) as usize] as char);
        s.push(D[(x & 15) as usize] as char);
    }
    s
}

/// FNV-1a 64 (the digest both sides compute for exhaustive enumerations)
pub struct Fnv(pub u64);
impl Fnv {
    pub fn new() -> Self {
        Fnv(0xcbf29ce484222325)
    }
    #[inline]
    pub fn byte(&mut self, b: u8) {
        self.0 ^= b as u64;
        self.0 = self.0.wrapping_mul(0x100000001b3);
    }
    pub fn bytes(&mut self, bs: &[u8]) {
        for b in bs {
            self.byte(*b);
        }
        // separator outside the byte alphabet: length marker
        self.byte(0xfe);
        self.byte((bs.len() & 0xff) as u8);
    }
}
