//! Library-level reference for what the CLI does to one RPU NAL unit (C05, C06, C07).
//! The CLI-mode -> ConversionMode table is written out here by hand (the CLI enum lives in the binary
//! crate and is not reachable from a library dependency), so it is an independent second copy.
use crate::*;
use dolby_vision::rpu::dovi_rpu::DoviRpu;
use dolby_vision::rpu::ConversionMode;

fn cli_mode(m: &str) -> Option<Option<ConversionMode>> {
    Some(match m {
        "-" => None,
        "0" => Some(ConversionMode::Lossless),
        "1" => Some(ConversionMode::ToMel),
        "2" | "3" => Some(ConversionMode::To81),
        "4" => Some(ConversionMode::To84),
        "5" => Some(ConversionMode::To81MappingPreserved),
        _ => return None,
    })
}

pub fn run(parts: &[&str]) -> String {
    match parts[0] {
        // cli.convert <mode: -|0..5> <crop: 0|1> <hex of the NAL unit 7c01.. (escaped)>
        // = convert_encoded_from_opts without an edit config
        "cli.convert" => {
            if parts.len() < 4 {
                return "bad-op".to_string();
            }
            let mode = match cli_mode(parts[1]) {
                Some(m) => m,
                None => return "bad-op".to_string(),
            };
            let crop = parts[2] == "1";
            let d = unhex(parts[3]);
            let mut rpu = match DoviRpu::parse_unspec62_nalu(&d) {
                Ok(r) => r,
                Err(_) => return "err".to_string(),
            };
            if let Some(m) = mode {
                if rpu.convert_with_mode(m).is_err() {
                    return "ok cerr".to_string();
                }
            }
            if crop && rpu.crop().is_err() {
                return "ok cerr".to_string();
            }
            match rpu.write_hevc_unspec62_nalu() {
                Ok(o) => format!("ok {}", hex(&o)),
                Err(_) => "ok werr".to_string(),
            }
        }
        // cli.edit <mode u8> <remove_mapping 0|1> <crop 0|1> <hex NAL>
        // = EditConfig::execute_single_rpu for a config holding only mode / remove_mapping /
        //   active_area.crop, in the order the editor applies them
        "cli.edit" => {
            if parts.len() < 5 {
                return "bad-op".to_string();
            }
            let mode: u8 = parts[1].parse().unwrap_or(0);
            let d = unhex(parts[4]);
            let mut rpu = match DoviRpu::parse_unspec62_nalu(&d) {
                Ok(r) => r,
                Err(_) => return "err".to_string(),
            };
            if mode > 0 && rpu.convert_with_mode(mode).is_err() {
                return "ok cerr".to_string();
            }
            if parts[2] == "1" {
                rpu.remove_mapping();
            }
            if parts[3] == "1" && rpu.crop().is_err() {
                return "ok cerr".to_string();
            }
            match rpu.write_hevc_unspec62_nalu() {
                Ok(o) => format!("ok {}", hex(&o)),
                Err(_) => "ok werr".to_string(),
            }
        }
        _ => "bad-op".to_string(),
    }
}
