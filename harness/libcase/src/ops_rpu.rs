use crate::*;
use dolby_vision::rpu::dovi_rpu::DoviRpu;

fn cls<T>(r: &anyhow::Result<T>) -> &'static str {
    if r.is_ok() {
        "ok"
    } else {
        "err"
    }
}

pub fn run(parts: &[&str]) -> String {
    match parts[0] {
        // parse through the raw entry point, print serde JSON (what `info -f` / `export` print)
        "rpu.json" => {
            let d = unhex(parts[1]);
            match DoviRpu::parse_rpu(&d) {
                Ok(r) => format!("ok {}", serde_json::to_string(&r).unwrap()),
                Err(_) => "err".to_string(),
            }
        }
        "nalu.json" => {
            let d = unhex(parts[1]);
            match DoviRpu::parse_unspec62_nalu(&d) {
                Ok(r) => format!("ok {}", serde_json::to_string(&r).unwrap()),
                Err(_) => "err".to_string(),
            }
        }
        // parse then write unmodified
        "rpu.write" => {
            let d = unhex(parts[1]);
            match DoviRpu::parse_rpu(&d) {
                Ok(r) => match r.write_rpu() {
                    Ok(o) => format!("ok {}", hex(&o)),
                    Err(_) => "ok werr".to_string(),
                },
                Err(_) => "err".to_string(),
            }
        }
        "nalu.write" => {
            let d = unhex(parts[1]);
            match DoviRpu::parse_unspec62_nalu(&d) {
                Ok(r) => match r.write_hevc_unspec62_nalu() {
                    Ok(o) => format!("ok {}", hex(&o)),
                    Err(_) => "ok werr".to_string(),
                },
                Err(_) => "err".to_string(),
            }
        }
        "rpu.class" => {
            let d = unhex(parts[1]);
            cls(&DoviRpu::parse_rpu(&d)).to_string()
        }
        _ => "bad-op".to_string(),
    }
}
