//! RPU .bin file reader (C14): `file.parse <chunk size> <hex of file content>`
use crate::*;
use dolby_vision::rpu::utils::parse_rpu_file;
use std::io::Write;

pub fn run(parts: &[&str]) -> String {
    match parts[0] {
        "file.parse" => {
            let chunk = parts[1];
            let d = unhex(parts[2]);
            let dir = std::env::var("VERIF_WORK").unwrap_or_else(|_| "/verif/build/work".to_string());
            let path = format!("{}/c14-{}.bin", dir, std::process::id());
            {
                let mut f = std::fs::File::create(&path).unwrap();
                f.write_all(&d).unwrap();
            }
            // the hook reads the variable on every call
            unsafe { std::env::set_var("DOVI_TOOL_VERIF_CHUNK_SIZE", chunk) };
            let r = parse_rpu_file(&path);
            let _ = std::fs::remove_file(&path);
            match r {
                Ok(rpus) => {
                    let ids: Vec<String> = rpus.iter().map(|r| format!("{}", r.rpu_data_crc32)).collect();
                    format!("ok {} {}", rpus.len(), if ids.is_empty() { "-".to_string() } else { ids.join(",") })
                }
                Err(_) => "err".to_string(),
            }
        }
        _ => "bad-op".to_string(),
    }
}
