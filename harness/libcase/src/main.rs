//! In-process executor of the real dovi_tool library code (line protocol; see /verif/DESIGN.md §2.2).
//! One case per input line, one canonical result line per case.
use std::io::{self, BufRead, Write};

mod util;
mod ops_c13;
mod ops_rpu;
mod ops_file;
mod ops_edit;
mod ops_c08;
mod ops_av1;
mod ops_cli;
mod ops_capi;
mod ops_pq;

pub use util::*;

thread_local! {
    static PANIC_LOC: std::cell::RefCell<String> = std::cell::RefCell::new(String::new());
}

fn dispatch(parts: &[&str]) -> String {
    match parts[0] {
        "esc" | "unesc" | "hesc" | "hunesc" | "escdigest" | "nalwrite" => ops_c13::run(parts),
        op if op.starts_with("av1.") => ops_av1::run(parts),
        op if op.starts_with("pq.") => ops_pq::run(parts),
        op if op.starts_with("cli.") => ops_cli::run(parts),
        op if op.starts_with("c08.") => ops_c08::run(parts),
        op if op.starts_with("capi.") || op == "rpu.ops3" || op == "rpu.ops3json" || op == "rpu.filelist" => ops_capi::run(parts),
        "rpu.ops" => ops_edit::run(parts),
        op if op.starts_with("file.") => ops_file::run(parts),
        op if op.starts_with("rpu.") || op.starts_with("nalu.") => ops_rpu::run(parts),
        _ => "bad-op".to_string(),
    }
}

fn main() {
    // panics are reported as the outcome class `panic`, silently
    std::panic::set_hook(Box::new(|info| {
        let loc = info
            .location()
            .map(|l| format!("{}:{}", l.file(), l.line()))
            .unwrap_or_else(|| "?".to_string());
        PANIC_LOC.with(|p| *p.borrow_mut() = loc);
    }));
    // address-space limit: an attacker-sized allocation must fail (and abort) instead of succeeding lazily
    if let Ok(mb) = std::env::var("VERIF_RLIMIT_AS_MB") {
        if let Ok(mb) = mb.parse::<u64>() {
            let lim = libc::rlimit { rlim_cur: mb << 20, rlim_max: mb << 20 };
            unsafe { libc::setrlimit(libc::RLIMIT_AS, &lim); }
        }
    }
    let stdin = io::stdin();
    let stdout = io::stdout();
    let mut out = io::BufWriter::new(stdout.lock());
    for line in stdin.lock().lines() {
        let line = match line {
            Ok(l) => l,
            Err(_) => break,
        };
        let t = line.trim();
        if t.is_empty() {
            continue;
        }
        let parts: Vec<&str> = t.split(' ').collect();
        let res = std::panic::catch_unwind(|| dispatch(&parts));
        let s = match res {
            Ok(s) => s,
            Err(_) => format!("panic:{}", PANIC_LOC.with(|p| p.borrow().clone())),
        };
        writeln!(out, "{}", s).unwrap();
        // a later case may abort the process: what was decided so far must already be out
        out.flush().unwrap();
    }
    out.flush().unwrap();
}
