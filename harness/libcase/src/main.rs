//! In-process executor of the real dovi_tool library code (line protocol; see /verif/DESIGN.md §2.2).
//! One case per input line, one canonical result line per case.
use std::io::{self, BufRead, Write};

mod util;
mod ops_c13;
mod ops_rpu;
mod ops_av1;

pub use util::*;

fn dispatch(parts: &[&str]) -> String {
    match parts[0] {
        "esc" | "unesc" | "hesc" | "hunesc" | "escdigest" | "nalwrite" => ops_c13::run(parts),
        op if op.starts_with("av1.") => ops_av1::run(parts),
        op if op.starts_with("rpu.") || op.starts_with("nalu.") => ops_rpu::run(parts),
        _ => "bad-op".to_string(),
    }
}

fn main() {
    // panics are reported as the outcome class `panic`, silently
    std::panic::set_hook(Box::new(|_| {}));
    let stdin = io::stdin();
    let stdout = io::stdout();
    let mut out = io::BufWriter::new(stdout.lock());
    for line in stdin.lock().lines() {
        let line = match line {
            Ok(l) => l,
            Err(_) => break,
        };
        let t = line.trim();
        if t.is_empty() {
            continue;
        }
        let parts: Vec<&str> = t.split(' ').collect();
        let res = std::panic::catch_unwind(|| dispatch(&parts));
        let s = match res {
            Ok(s) => s,
            Err(_) => "panic".to_string(),
        };
        writeln!(out, "{}", s).unwrap();
    }
    out.flush().unwrap();
}
