#!/usr/bin/env python3
"""Regenerates MANIFEST.json from the table below (so that it is always schema-valid)."""
import json, os, subprocess
V = os.path.dirname(os.path.dirname(os.path.abspath(__file__)))

CLAIMED = {
    "C01": dict(
        text="Executable Lean 4 model of the RPU parser and writer (lean/DoviModel/Model/Rpu.lean, RpuWrite.lean, transliterated separately from the Rust parse and write functions) with kernel-checked theorems about it; the model is tied to the real code on every run by running both on the same structured, mutated and prefixed RPUs (parse JSON and unmodified write, raw and NAL entry points) and the property itself is evaluated directly on the real code for every case (write(parse x) in {x, error}).",
        note="Trusted: Lean kernel, the correspondence harness, the independent encoder used as generator. Hypothesis named in the theorems: se(v) code numbers < 2^53 (third-party get_se goes through f64). C01.parse_write_exact is proved (unbounded): for every byte string the model parser accepts whose integer coefficient parts are below 2^52 in magnitude, the unmodified write is the input byte for byte or fails; entry_write_exact and nalu_write_exact lift it to the prefixed and HEVC NAL entry points (escaped form identical when the input was canonically escaped); reparse_same gives parse(write(parse x)) = parse x. The evidence counts how many accepted inputs of the run lie inside the hypothesis; above the bound (f64 rounding in the third-party get_se, witness PwMap.readSe_rounding_witness) only the CRC guard, the correspondence and the direct oracle apply. The CLI-level clause is checked directly (editor {} on RPU files at chunk sizes dividing the file size) and by C05/C09.",
        design="DESIGN.md section 7 C01",
        technique="Lean 4 proof over a hand-written model + differential model/implementation correspondence + direct oracle"),
    "C02": dict(
        text="The real parser's serde JSON (what info -f / export print) is compared field for field with the JSON derived from the syntax values chosen by an independent encoder written from the syntax table, and with the Lean model's JSON; the profile/EL classification rules are Lean theorems about the model (profile_table, profile_range, el_type_rule).",
        note="Trusted: the syntax table (Appendix B / vlib/specgen.py) as the statement of the bitstream syntax; Lean kernel; correspondence harness.",
        design="DESIGN.md section 7 C02",
        technique="Lean 4 proof (classification table) + independent reference encoder + model/implementation correspondence"),
    "C14": dict(
        text="Executable Lean model of parse_rpu_file (chunk loop with carried tail, windows(4) start-code scan, per-chunk bail rules, final count check) compared with the real reader on generated files with chunk boundaries at every offset -4..+4 around start codes, exact multiples, corrupted entries, empty / start-code-less files; the expected list is computed from what was written (direct oracle). Lean theorems: a successful read is non-empty and complete by count, the empty file and a chunk without start code are errors.",
        note="Trusted: Lean kernel, harness; regular-file reads are assumed full until EOF (hook chunk sizes >= 8192 keep that true); mid-file read errors are outside the quantifier. Proved (unbounded): C14.roundtrip (any number of entries, every chunk size above the first-read bound, otherwise an error), ok_is_whole_file_parse / ok_count_exact (every chunk size, any bytes: a successful read is the parse of every slice of the file), invalid_entry_is_error, chunk_size_independent, written_unmodified_rpus_roundtrip.",
        design="DESIGN.md section 7 C14",
        technique="Lean 4 model of the chunked reader + model/implementation correspondence at targeted chunk alignments + direct oracle"),
    "C15": dict(
        text="Lean 4 theorems about the model of the EMDF variable_bits codec and header (variable_bits_roundtrip for every n and every value up to the two-group maximum, size_field_roundtrip for every size <= 65791, the fixed header bits); the model's wrap is compared with the real convert_regular_rpu_to_av1_payload per size (digest), and the property is evaluated directly on the real code with a valid RPU of every payload size in the tier's set (all 24..65791 in the thorough tier), with/without 0xB5, with trailing zeros.",
        note="Trusted: Lean kernel; correspondence harness; valid sized RPUs are built by padding the data before the CRC32. Proved (unbounded): av1_roundtrip / av1_roundtrip_complete for every payload size up to 65791 (incl. 256), wrap_never_fails, wrap_rejects_larger, av1_header_fixed, av1_size_exact, obu_roundtrip.",
        design="DESIGN.md section 7 C15",
        technique="Lean 4 proof (arithmetic of the two-group code) + per-size model/implementation digest + exhaustive direct oracle"),
    "C03": dict(
        text="Random sequences of public operations (conversions, crops, offsets, source PQ, scene cut, mapping/CM v4.0 removal, block add/replace/remove with full-integer-range values, level copy) are applied to structured RPUs by the Lean model (Model/Ops.lean, RpuWrite.lean) and by the real code; the written bytes are re-parsed by the real parser and by the model parser and compared field for field with the in-memory structure; CRC/terminator recomputed independently. Lean theorems: the written tail is crc32(body) ++ 0x80 ++ trailing zeros; out-of-range values, invalid blocks and invalid RPUs are never written.",
        note="Trusted: Lean kernel, harness, generator. Known findings F13-F16 (documented in known_findings.json) are matched by shape. The whole-RPU write->parse theorem C03.write_parse_sound is proved (unbounded; header, mapping/NLQ, DM data, containers, blocks, alignment, CRC, terminator, trailing zeros) for structures satisfying the decidable shape predicate RpuWf; the driver evaluates that predicate on every structure the check reaches and the evidence reports how many lie inside the theorem (the rest are decided by correspondence and direct oracles only).",
        design="DESIGN.md section 7 C03",
        technique="Lean 4 proof over the writer model + model/implementation correspondence on operation sequences + re-parse oracle"),
    "C04": dict(
        text="Every mode 0..5 (and out-of-range integers) on every structured/sample RPU, once and twice, through the library and the CLI editor surface: documented target profile/EL/mapping from the re-parsed output, DM payload equality, encodes and re-parses, idempotence, surface equality; the Lean conversion model is compared with the real one on every case. Lean theorems: the raw-integer and CLI mode maps agree, out-of-range is lossless, unsupported sources are errors, mode 4 target, set_p81_coeffs keeps the DM payload, mode 0 leaves the structure.",
        note="Trusted: Lean kernel, harness. Known findings F8, F12, F13 matched by shape. Proved for every RPU value: convert_succeeds_iff / convert_error_iff / convert_never_panics, convert_dm_exact / convert_dm_unchanged, convert_idempotent_iff (F8 stated as mode1_p8_not_idempotent), convert_table and the per-mode tables. Stream-level surfaces (-m, --edit-config) are compared with the library conversion in C05-C07.",
        design="DESIGN.md section 7 C04",
        technique="Lean 4 proof (decision tables of the conversion model) + model/implementation correspondence + table oracle"),
    "C09": dict(
        text="Executable Lean EditorModel (lean/DoviModel/Model/Editor.lean: remove, per-frame operations, scene-cut and active-area range passes in key order, source replacement, encode, duplicate) compared with the real CLI editor (output list and exit status) on generated lists x configs over every operation and boundary range; direct oracles on the real binary: no crash, frame accounting, frame locality, empty config = identity. Lean theorems: empty config keeps every frame, out-of-range / inverted ranges are errors (remove, scene cuts), duplication grows the list by exactly `length`.",
        note="Trusted: Lean kernel; JSON/compact renderings of the abstract config (glue); the per-frame operations are the M4/M5 model tied in C03/C04/C12.",
        design="DESIGN.md section 7 C09",
        technique="Lean 4 proof over the editor model + CLI/model correspondence + direct oracles"),
    "C10": dict(
        text="Executable Lean GenModel (base RPU per profile / CM version, static L5/L6/L9/L11/L254, default-block filter, L1 clamp, per-shot and per-frame-edit upserts, length reconciliation, CLI overrides) compared with the real `generate -j` output list and exit status on generated configs; direct oracles: no crash, frame count = sum of durations, every RPU parses with the requested profile and CM version, scene-cut flag exactly at shot starts (everywhere in long-play mode). Lean theorems: gen_length (exactly `length` = sum of durations frames), shot/all-frames length lemmas, l1_clamp_range, clamp leaves other blocks alone.",
        note="Trusted: Lean kernel; JSON/compact renderings of the abstract config; HDR10+/madVR parsers are third-party inputs to the same shot list (exercised via sample files in C17). Block precedence is decided by the model (M4 upsert) through the correspondence.",
        design="DESIGN.md section 7 C10",
        technique="Lean 4 proof over the generator model + CLI/model correspondence + direct oracles"),
    "C11": dict(
        text="Lean XmlSpec (integer encodings of trims over scaled decimals, L8 length rule, L5 offsets, primaries tables, shot sorting) with 36 theorems (trim_range, l8_length_minimal_lossless, l5_offsets_sum, shots_sorted / stable / permutation, frame_count, frame_edit_only_its_frame, ...); generated CM XML documents of versions 2.0.5/4.0.2/5.0.0/5.1.0 run through the real CLI; every field of every generated RPU is compared with an exact-rational specification of the documented formulas (tie rule: a value within 2^-8 of a rounding tie accepts the neighbour and is counted), and the tool's bytes with the Lean GenModel run on the specification's integer config.",
        note="Partial: float rounding at ties is not decided (counted as tie_ambiguous); XML text parsing (roxmltree) is a parameter; the rational spec is the trusted statement of the documented formulas.",
        design="DESIGN.md section 7 C11",
        technique="Lean 4 proof over the integer XML spec + exact-rational reference + CLI/model correspondence"),
    "C19": dict(
        text="Lean 4 + Mathlib (single module) proofs over the reals: ST 2084 strict monotonicity, both inverse laws, end points; certified integer tables (all integer nits 0..10000, all min-luminance k/10000, all 4096 codes with tie-point brackets) whose rational enclosure certificates are checked by decide +kernel and lifted to |4095 PQ(n) - code| < 1/2 - 1e-6; anchors; code round trip. The real f64 functions are compared exhaustively with the certified tables (and the derived users: L2 from_nits, XML target/source PQ, L6-derived source PQ, summary rounding).",
        note="Partial: IEEE-754 / libm error is assumed below the certified margin and that assumption is checked on the whole domain, not proved.",
        design="DESIGN.md section 7 C19",
        technique="Lean 4 + Mathlib proof over the reals + kernel-checked certificate tables + exhaustive f64 correspondence"),
    "C12": dict(
        text="Lean theorems about the container model (count equals number of blocks after every touching operation, sorting only permutes, add/remove keep the level invariant, absent container is a no-op or an error); the model's result after every operation of random sequences is compared with the real code's JSON, and the invariants (level routing, count, sortedness of the touched container, keyed upsert) are checked on the real code's JSON after every operation.",
        note="Trusted: Lean kernel, harness. Operations are applied through the public Rust API in-process. Proved: sortBlocks_sorted / sortBlocks_perm, replaceKeyed_upsert, ops_preserve_inv and ops_keep_presence over arbitrary operation sequences.",
        design="DESIGN.md section 7 C12",
        technique="Lean 4 proof (invariants of the container model) + per-operation model/implementation correspondence + invariant oracle"),
    "C16": dict(
        text="Lean ExportModel (scenes, run-length L5 config, integer parts of the summary) compared with the real export/info output; direct oracles on the real CLI for every generated list: export-all element i = info -f i, scenes = indices with flag 1, the exported L5 config replayed through the real editor on the same and on another same-length list restores every frame's L5, every summary figure equals the value recomputed from the per-frame JSON. Lean theorems: every listed scene index carries flag 1; the scene list is strictly ascending.",
        note="Partial: the nits strings are recomputed with IEEE doubles (same libm), not proved; the replay theorem over the editor model is stated in DESIGN.md and checked by correspondence.",
        design="DESIGN.md section 7 C16",
        technique="Lean 4 proof over the export model + CLI/model correspondence + direct oracles (replay through the editor)"),
    "C17": dict(
        text="Lean theorems: inserting map entries with different keys commutes, hence the key-ordered map (and with it the scene-cut and active-area passes of the editor model) is the same for every permutation of the config's entries (asMap_perm, sceneCuts_order_independent, activeArea_order_independent). Runtime part: every command is executed in 8/16 fresh processes with varied HOME, locale, cwd, RUST_BACKTRACE, font configuration, time zone; output hashes and exit status must coincide.",
        note="Partial: process-level nondeterminism (hash seeds, environment, pre-existing output files) is sampled by repeated execution, not proved; the logic part is proved (asMap_perm, sceneCuts/activeArea order independence, sortBlocks_order_independent); plot contributes its exit status only.",
        design="DESIGN.md section 7 C17",
        technique="Lean 4 proof (permutation invariance of the editor model) + repeated fresh-process execution"),
    "C05": dict(
        text="Two-layer Lean model. (1) Chunked reader (Model/Split.lean): any chunking of a stream, including piped stdin with arbitrary fragmentation, yields exactly the Annex-B split of the whole stream (chunked_split_eq_spec, chunking_irrelevant, stdin_fragmentation_irrelevant). (2) NAL routing (Model/Hevc.lean `general` = DoviProcessor::write_nals as one step function over the NAL list, state = first-NAL / previous-frame / previous-RPU indices): convert_payloads (the written (type, bytes) sequence is the input sequence, minus UNSPEC63 with --discard, with each RPU replaced by its library rewrite when a mode/edit config is set; the command fails iff the library refuses one: convert_fails_iff), convert_conserves (same length, same type at every position, NAL i = input NAL i or its rewrite, sequences without RPUs equal), convert_without_mode_identity, discard_drops_only_el, demux_partition (BL = non-62/63 NALs themselves in order, EL = unwrapped UNSPEC63 and RPUs in order, |BL|+|EL| = |input|), demux_el_only, remove_is_bl (start codes included), late_first_nal_same_bytes (the one read-schedule dependence found: confined to one start-code length). All by induction over streams of any length and any NAL types. The model is tied to the real CLI on every generated case (3000 quick): driver op hevc.general vs the files the CLI wrote, over AU shapes, NAL sizes up to several chunks, start codes at every offset -4..+4 around hooked and real chunk multiples, 3/4-byte start codes, trailing zeros, options, file vs fragmented stdin; the independent reference (vlib/hevcref.py) remains the direct oracle.",
        note="Trusted: Lean kernel; the statements in Props/C05.lean; the correspondence (generator, driver printer, comparison). Parameters of the model, not modelled: hevc_parser's frame label of each NAL (Item.au, supplied by the generator's own labels) and the library's RPU rewrite (conv, supplied from the real library per RPU). Hypothesis named in the demux theorems: the duplicate-RPU rule does not fire (NoDupFrom; implied by at most one RPU per access unit; the rule itself is modelled and checked against the CLI on streams with two RPUs in one access unit).",
        design="DESIGN.md section 7 C05",
        technique="Lean 4 proof over a hand-written model of the reader and of the NAL routing (induction over the stream) + model/CLI correspondence on every generated stream + independent reference oracle"),
    "C06": dict(
        text="Lean model of mux (Model/Hevc.lean `mux`: BL frame buffer closed on a change of frame index, queue of EL frames, one EL frame taken per closed BL frame only while another is queued behind it, finalize with the EL/BL count test) and theorems by induction over streams of any length: mux_alignment (equal frame counts: output = for each k the BL frame buffer k, EL frame k, held-back EOS/EOB; no error), mux_frame_structure (regenerated AUD first unless --no-add-aud, UNSPEC62/63 of the BL not carried, EOS/EOB after the EL or before it with --eos-before-el), mux_el_frame_wrapped (every EL NAL as UNSPEC63 with 7E 01 in front, RPU itself or its library rewrite), mux_discard_keeps_only_rpu, mux_el_longer_errors (error status, output trimmed to the BL length), mux_demux_id (demux of the muxed stream returns exactly the EL NALs and frame by frame the buffered BL NALs; mux_demux_bl_exact for --no-add-aud --eos-before-el), demux_mux_id (for every dual-layer stream with the layout [BL][EL+RPU][EOS/EOB] per access unit, mux of the two halves under --no-add-aud gives back the original NAL sequence). Both layers go through the chunked reader whose chunking invariance is the C05 theorem. Tied to the real CLI on every generated case: driver ops hevc.mux and hevc.general demux vs the files written in the chain demux -> mux -> demux, pairs, EL longer and EL shorter (where the model states the tool's actual choice and is compared exactly), independent BL/EL chunk sizes; the generator's reference interleave remains the direct oracle.",
        note="Trusted: Lean kernel; statements in Props/C06.lean; correspondence. Parameters: hevc_parser's frame labels of BL and EL NALs, the regenerated AUD bytes (aud_for_frame) and the library's RPU rewrite. Model assumption stated in Model/Hevc.lean: frame labels are non-decreasing (the EL handler's merge into an already buffered frame is not modelled) and every label is below the frame count.",
        design="DESIGN.md section 7 C06",
        technique="Lean 4 proof over a hand-written model of the muxer state machine + model/CLI correspondence on every generated pair + generator-reference oracle"),
    "C07": dict(
        text="Lean model of extract-rpu (collection in decode order by `general`, stable sort by the presentation number of the frame with the same decode index) and of inject-rpu's second pass (frame buffers, RPU of rpus[presentation number] behind the last NAL that is not EOS/EOB, AUD regeneration, fallback to the RPU written last when the list is shorter) in Model/Hevc.lean; theorems over all streams: extract_collects_decode_order, extract_display_order (pres a permutation of 0..n-1 and one RPU per frame: file entry pres k is the RPU of the frame decoded k-th), extract_sorted_by_presentation, inject_places_rpu (pre ++ RPU :: post with post only EOS/EOB and pre not ending in one), inject_spec (which RPU each frame gets), inject_keeps_other_nals (every class of NAL types excluding RPUs, and AUDs unless --no-add-aud, reads the same before and after), inject_one_rpu_per_frame (existing RPUs replaced), inject_shorter_list_choice (the tool's actual choice), extract_inject_id. Tied to the real CLI on every generated case (driver ops hevc.extract, hevc.inject; the model predicts the exact fallback RPU and the failing cases); the display order computed independently by the generator from its POCs remains the direct oracle.",
        note="Trusted: Lean kernel; statements in Props/C07.lean; correspondence. Parameters: hevc_parser's decode/presentation numbering (pres) and frame labels, taken from the generator's own H.265 8.3.1 order; the library's re-encoding of the injected RPUs (the generator uses RPUs that round-trip byte-exactly).",
        design="DESIGN.md section 7 C07",
        technique="Lean 4 proof over a hand-written model of extract/inject (induction, sorting lemma) + model/CLI correspondence on every generated stream + independent display-order oracle"),
    "C18": dict(
        text="Lean model of the SEI walker of hevc_parser (FF-extended payload type and size, loop until at most one byte is left) and of prefix_sei_removed_hdr10plus_nalu (unescape, strip trailing zeros, locate the first ST 2094-40 message, cut [msg_offset, payload end), re-escape; NAL dropped when it is the only message) in Model/Hevc.lean, and of the option's place in the five commands (seiStage). Theorems over ALL message lists (any number, types <= 255, any payload bytes and sizes): sei_walker_roundtrip, drop_result (three-way characterisation), only_hdr10plus_nal_dropped, non_hdr10plus_untouched (the very bytes), drop_keeps_others (other messages keep bytes and order), no_hdr10plus_left (at most one such message per NAL, as quantified); over all streams: general_drop_is_sei_stage / mux_drop_is_sei_stage / inject_drop_is_sei_stage (the option = rewriting the prefix SEI NALs one by one, then the same command without it), staged_stream_origin, stream_without_hdr10plus_untouched, option_absent_identity. The re-escaping step uses the C13 theorems. Tied to the real CLI on every generated case (ops hevc.general / hevc.mux / hevc.inject with and without the option, start codes included; sei.drop / sei.msgs on every crafted NAL against the independent SEI walker); the independent reference remains the direct oracle.",
        note="Trusted: Lean kernel; statements in Props/C18.lean; correspondence. hevc_parser 0.6.8 holds the payload type in a u8: types above 255 make the tool fail (dev profile panic) - modelled as failure and checked against the CLI. The real function is private to the binary and is reached through the CLI runs.",
        design="DESIGN.md section 7 C18",
        technique="Lean 4 proof over a hand-written model of the SEI walker and rewrite (induction over the message list) + model/CLI correspondence + independent SEI-walker oracle"),
    "C20": dict(
        text="Lean model of the C view (Model/CView.lean) with 38 theorems: error set iff parse failed for the three wrappers, null pointer iff absent part/level, L2/L8/L10 lists complete and in order, NLQ markers, every allocated object freed exactly once and no null freed. The model's view is compared with the real C API read through independent repr(C) mirror structs; the C view is compared field by field with the Rust serde JSON; call sequences (convert, set offsets, remove mapping, 4 writers) are compared with the Rust API; a sample runs under valgrind.",
        note="Partial: heap safety is observed (process survival with debug assertions, valgrind sample), not proved.",
        design="DESIGN.md section 7 C20",
        technique="Lean 4 proof over the view/ownership model + model/C-API correspondence + Rust-vs-C oracle + valgrind"),
    "C08": dict(
        text="Every parsing entry point (raw RPU, UNSPEC62 NAL, AV1 T.35 OBU, ST 2094-10 SEI, RPU .bin file, C API wrappers) is run on mutated, truncated, extreme-valued and random inputs under an address-space limit and time limits; the outcome class must be ok|err and must equal the class predicted by the executable Lean model (which marks third-party panic sites explicitly) for the modelled entry points; Lean theorems state the guards of the model (short buffers are errors, bit reader never panics).",
        note="Partial: time and memory are runtime facts observed under limits, not proved; ST 2094-10 (Model/St2094.lean) and the RPU file reader are modelled and compared by outcome class; no-panic theorems cover the RPU, NAL, AV1, ST 2094-10 and file entry points; third-party exp-Golomb panics are known findings matched by panic site.",
        design="DESIGN.md section 7 C08",
        technique="Lean 4 model with explicit panic outcome + class correspondence + direct oracle under rlimits"),
    "C13": dict(
        text="Lean 4 theorems over the executable model of add/clear_start_code_emulation_prevention_3_byte and of the start-code scan: unesc(esc p) = p for every payload with non-zero first byte, no 00 00 0[0-2] in the escaped form, every 00 00 03 is an inserted byte, a written NAL contains no start code, a written file re-splits to exactly the written units (any mixture of 3/4-byte start codes). The model is tied to the real functions exhaustively over the alphabet of the property (length <= 8 quick, <= 10 thorough) plus line-mode cases; the direct oracle runs on the real code.",
        note="Trusted: Lean kernel; model/real-code tie is differential (exhaustive over the stated alphabet, sampled beyond); hevc_parser's splitter is modelled (validated in the C05 correspondence).",
        design="DESIGN.md section 7 C13",
        technique="Lean 4 proof (induction over the byte list) + exhaustive model/implementation correspondence"),
}

NOT_APPLICABLE = {}

# later additions to the notes (kept apart so that the table above stays readable)
TIE = " Source tie by translation: tools/gen_source_rules.py regenerates the decision rules from the Rust text on every run; "
ADD = {
    "C01": TIE + "C01.source_rules_agree (every validate(), container limits, field names) and source_layouts_agree (field widths/orders) are proved equal to the model for every argument.",
    "C02": TIE + "C02.source_rules_agree, source_classification_agrees (get_dovi_profile, is_mel): a rewritten classification rule breaks an obligation even when no generated header reaches the changed case.",
    "C03": TIE + "C03.source_rules_agree: the writer's validate() rules, allowed levels and per-level count limits as they stand in the source are the model's.",
    "C04": TIE + "C04.source_modes_agree: From<u8> for ConversionMode and the profiles each arm of convert_with_mode accepts are the model's table and accept/reject decisions.",
    "C06": " The finalize guard (last buffer written only when its frame number differs from the frame count) is modelled; the conservation theorems carry the hypothesis that every NAL's frame label is below the frame count, mux_drops_trailing_nals states what happens otherwise (a generated family checks it against the CLI).",
    "C07": " The finalize guard of inject-rpu is modelled (nFrames); inject_spec / inject_keeps_other_nals / inject_one_rpu_per_frame carry the hypothesis that every NAL's frame label is below the frame count, inject_drops_trailing_nals states what happens otherwise.",
    "C09": TIE + "C09.source_l6_levels_agree (source_meta_from_l6). Allocation is not modelled: an astronomically large duplicate length fails in Vec::splice (named in DESIGN P2.9).",
    "C10": TIE + "C10.source_l1_clamp_agrees (clamp_values_int with its limits), source_l6_levels_agree. Fixed findings 40027ee (allocation before the length check) and 3502e27 (malformed HDR10+ summaries panicked) are guarded by generator families. The HDR10+ and madVR source paths are modelled on decoded integer inputs (Model/GenSources.lean; the f64 parts are the named parameter PqCode) with 22 theorems; vlib/madvrgen.py builds measurement files with an independent decoder and oracle; three panics of the third-party madvr_parse reader are known findings.",
    "C11": " Document level: Model/XmlDoc.lean (Doc -> Config -> RPUs, written from parser.rs: version classes, HOME filter, known trim targets, shot sorting, frame edits, global blocks) with the doc_* theorems; every generated document also goes through the model (xml.doc) and is compared with the CLI byte for byte except at recorded rounding-tie sites. XML text parsing (roxmltree) and the f32/f64 arithmetic remain parameters.",
    "C12": TIE + "C12.source_sort_key_agrees: every level's sort_key() as it stands in the source is the model's Block.sortKey.",
    "C15": TIE + "C15.source_t35_header_agrees (ITU_T35_DOVI_RPU_PAYLOAD_HEADER).",
    "C17": " Piped input is part of 'same inputs': convert/demux/remove/extract-rpu --start-code annex-b on a stream whose first access unit exceeds the read chunk are fed through stdin with a different write size and pacing per process.",
    "C19": TIE + "C19.source_st2084_constants_agree: the ST 2084 constants, evaluated as exact fractions from utils.rs, are the rationals of the certified tables.",
    "C20": " The C-side structures are field-by-field mirrors of the repr(C) structs; tools/gen_source_cstructs.py regenerates struct field lists and From impls (C20.source_cstructs_agree*). Injectivity is stated for exactly the fields the C structs carry (ext_mapping_idc_* are proved NOT carried). Call sequences continue after failed operations (post-failure state modelled; capi.seqview), the list API and null-pointer calls are exercised.",
}

def main():
    props = [json.loads(l)["id"] for l in open(os.path.join(V, "properties.jsonl"))]
    hook_commits = []
    try:
        out = subprocess.run(["git", "-C", "/repo", "log", "--format=%H %s"], capture_output=True, text=True).stdout
        for l in out.splitlines():
            h, s = l.split(" ", 1)
            if s.startswith("verif hook"):
                hook_commits.append(h)
    except Exception:
        pass
    checks = []
    for p in props:
        if p in CLAIMED:
            c = CLAIMED[p]
            checks.append({
                "property_id": p,
                "quick_cmd": "./check %s --tier quick" % p,
                "thorough_cmd": "./check %s --tier thorough" % p,
                "evidence_file": "/verif/evidence/%s.json" % p,
                "replay_cmd_template": "./check %s --replay {path}" % p,
                "engine": "lean4-model+correspondence",
                "level_claimed": {"category": "proof", "text": c["text"], "design_ref": c["design"]},
                "level_note": c["note"] + ADD.get(p, ""),
                "technique": c["technique"],
            })
    na = [{"property_id": p, "reason": NOT_APPLICABLE.get(p, "not yet claimed: model and correspondence for this property are still being built (see DESIGN.md section 9)")}
          for p in props if p not in CLAIMED]
    m = {
        "version": 1,
        "setup_cmd": "./setup.sh",
        "hooks": {
            "guard": "cargo feature verif_hooks (dovi_tool/verif_hooks -> dolby_vision/verif_hooks)",
            "enable": "cargo build --offline --features verif_hooks (CLI); the harness depends on dolby_vision with features serde,xml,capi,verif_hooks",
            "baseline_off_cmd": "cd /repo && cargo test --workspace --no-fail-fast --offline",
            "source_commits": hook_commits,
            "add_only": True,
        },
        "engines": [{
            "name": "lean4-model+correspondence",
            "path": "/verif/check",
            "serves_properties": sorted(CLAIMED),
            "kind_free_text": "hand-written executable Lean 4 model with kernel-checked property theorems (lean/DoviModel), tied to /repo's working tree on every run by a differential correspondence check (harness/libcase executes the real functions, lean/Driver executes the model, vlib/ diffs) and by direct oracles on the real code",
        }],
        "checks": checks,
        "not_applicable": na,
        "notes": "See DESIGN.md. ./check <id> rebuilds the Lean proofs (cached), audits axioms, rebuilds the harness against /repo's working tree, runs model and implementation on the same generated cases, evaluates direct oracles on the implementation, writes evidence/<id>.json.",
    }
    json.dump(m, open(os.path.join(V, "MANIFEST.json"), "w"), indent=1)
    print("claimed:", sorted(CLAIMED), "not claimed:", [x["property_id"] for x in na])

if __name__ == "__main__":
    main()
