#!/usr/bin/env python3
"""Mutation sampling of /repo against the checks (measures detection power beyond the hand-made seeded changes).

  mutants.py gen N SEED            -> /verif/mutants/plan.json   (N sampled single-site mutants)
  mutants.py tests [workers]       -> phase A: in scratch worktrees under /tmp/mut, which mutants compile and
                                      pass the 108 existing tests (results in /verif/mutants/tests.json)
  mutants.py checks                -> phase B: each survivor is applied to /repo, the mapped quick checks are run,
                                      /repo is reverted (results in /verif/mutants/checks.json)
  mutants.py report                -> table

A mutant is one textual edit at one site: relational operator swap, integer literal +-1 in a bit-width or bound,
boolean literal flip, `!` dropped from a condition.  Survivors the checks do not flag are triaged by hand
(equivalent mutant vs. missed) in /verif/mutants/triage.md."""
import json, os, re, subprocess, sys, concurrent.futures, shutil

VERIF = os.path.dirname(os.path.dirname(os.path.abspath(__file__)))
OUT = os.path.join(VERIF, "mutants", os.environ.get("MUT_BATCH", "b1"))
FILES = {
    "dolby_vision/src/rpu/dovi_rpu.rs": ["C01", "C03", "C04", "C08"],
    "dolby_vision/src/rpu/rpu_data_header.rs": ["C01", "C02", "C03", "C08"],
    "dolby_vision/src/rpu/rpu_data_mapping.rs": ["C01", "C02", "C03", "C08"],
    "dolby_vision/src/rpu/rpu_data_nlq.rs": ["C01", "C02", "C03", "C04"],
    "dolby_vision/src/rpu/vdr_dm_data.rs": ["C01", "C02", "C03", "C12", "C10"],
    "dolby_vision/src/rpu/extension_metadata/mod.rs": ["C01", "C03", "C12", "C08"],
    "dolby_vision/src/rpu/extension_metadata/cmv29.rs": ["C03", "C12"],
    "dolby_vision/src/rpu/extension_metadata/cmv40.rs": ["C03", "C12"],
    "dolby_vision/src/rpu/extension_metadata/blocks/level2.rs": ["C01", "C02", "C03"],
    "dolby_vision/src/rpu/extension_metadata/blocks/level5.rs": ["C01", "C02", "C03"],
    "dolby_vision/src/rpu/extension_metadata/blocks/level8.rs": ["C01", "C02", "C03", "C11"],
    "dolby_vision/src/rpu/extension_metadata/blocks/level9.rs": ["C01", "C02", "C03"],
    "dolby_vision/src/rpu/extension_metadata/blocks/level10.rs": ["C01", "C02", "C03"],
    "dolby_vision/src/rpu/extension_metadata/blocks/level11.rs": ["C01", "C02", "C03"],
    "dolby_vision/src/rpu/extension_metadata/blocks/level1.rs": ["C01", "C02", "C03", "C10"],
    "dolby_vision/src/rpu/extension_metadata/blocks/level6.rs": ["C01", "C02", "C03"],
    "dolby_vision/src/rpu/utils.rs": ["C14", "C01"],
    "dolby_vision/src/rpu/generate.rs": ["C10", "C11"],
    "dolby_vision/src/utils.rs": ["C13", "C01", "C19", "C08"],
    "dolby_vision/src/av1/mod.rs": ["C15", "C08"],
    "dolby_vision/src/av1/emdf.rs": ["C15", "C08"],
    "dolby_vision/src/xml/parser.rs": ["C11"],
    "dolby_vision/src/st2094_10/itu_t35/cm_data.rs": ["C08"],
    "src/dovi/editor.rs": ["C09", "C17"],
    "src/dovi/general_read_write.rs": ["C05", "C07"],
    "src/dovi/muxer.rs": ["C06"],
    "src/dovi/rpu_injector.rs": ["C07"],
    "src/dovi/exporter.rs": ["C16"],
    "src/dovi/rpu_info.rs": ["C16", "C19"],
    "src/dovi/hdr10plus_utils.rs": ["C18"],
    "src/dovi/mod.rs": ["C14", "C01", "C09"],
    "dolby_vision/src/capi.rs": ["C20"],
    "dolby_vision/src/c_structs/rpu_data_header.rs": ["C20"],
    "dolby_vision/src/c_structs/rpu_data_mapping.rs": ["C20"],
    "dolby_vision/src/c_structs/vdr_dm_data.rs": ["C20"],
    "dolby_vision/src/c_structs/extension_metadata.rs": ["C20"],
    "dolby_vision/src/c_structs/rpu.rs": ["C20"],
    "dolby_vision/src/rpu/extension_metadata/blocks/level3.rs": ["C01", "C02", "C03"],
    "dolby_vision/src/rpu/extension_metadata/blocks/level4.rs": ["C01", "C02", "C03"],
    "dolby_vision/src/rpu/extension_metadata/blocks/level254.rs": ["C01", "C02", "C03"],
    "dolby_vision/src/rpu/extension_metadata/blocks/level255.rs": ["C01", "C02", "C03"],
    "dolby_vision/src/rpu/extension_metadata/primaries.rs": ["C11"],
    "src/dovi/generator.rs": ["C10", "C11", "C17"],
    "src/dovi/rpu_extractor.rs": ["C07"],
    "src/dovi/converter.rs": ["C05"],
    "src/dovi/demuxer.rs": ["C05", "C06"],
    "src/dovi/remover.rs": ["C05"],
}
FILES = {f: c for f, c in FILES.items() if os.path.exists(os.path.join("/repo", f))}
OPS = [
    (r"(?<![<>=!\-])<=(?!=)", "<", "le->lt"), (r"(?<![<>=!\-])>=(?!=)", ">", "ge->gt"),
    (r"(?<![<>=!\-&])\s<\s(?![<=])", " <= ", "lt->le"), (r"(?<![<>=!\-])\s>\s(?![>=])", " >= ", "gt->ge"),
    (r"==", "!=", "eq->ne"), (r"!=", "==", "ne->eq"),
    (r"\btrue\b", "false", "true->false"), (r"\bfalse\b", "true", "false->true"),
    (r"(get_n(?:::<\w+>)?\()(\d+)(\))", lambda m: m.group(1) + str(int(m.group(2)) + 1) + m.group(3), "read-width+1"),
    (r"(write(?:_signed)?_n\([^,]+,\s*)(\d+)(\))", lambda m: m.group(1) + str(int(m.group(2)) - 1) + m.group(3), "write-width-1"),
    (r"(\bif\s+)!(\w)", lambda m: m.group(1) + m.group(2), "drop-not"),
    (r"\+ 1\b", "+ 2", "plus1->plus2"), (r"- 1\b", "- 0", "minus1->minus0"),
]


def code_lines(src):
    """indices of lines that are code (not comments, not inside #[cfg(test)] modules, not attributes)"""
    out = []
    in_test = False
    for i, l in enumerate(src.split("\n")):
        s = l.strip()
        if s.startswith("#[cfg(test)]"):
            in_test = True
        if in_test or s.startswith("//") or s.startswith("#[") or s.startswith("///") or not s:
            continue
        if re.search(r"\b(ensure|bail|println|eprintln|format|write|panic|unreachable|debug_assert)!\s*\(\s*\"", s) and ("{" in s or "\"" in s) and "(" not in s.split("\"")[0][:-1].replace("ensure!(", "").replace("bail!(", ""):
            pass
        out.append(i)
    return out


def gen(n, seed):
    sys.path.insert(0, VERIF)
    from vlib.common import Lcg
    rng = Lcg(seed)
    cands = []
    for f in FILES:
        src = open(os.path.join("/repo", f)).read()
        lines = src.split("\n")
        for i in code_lines(src):
            l = lines[i]
            code = l.split("//")[0]
            # skip string literals (messages)
            stripped = re.sub(r"\"(?:[^\"\\]|\\.)*\"", lambda m: "\"" + "_" * (len(m.group(0)) - 2) + "\"", code)
            for pat, rep, name in OPS:
                for m in re.finditer(pat, stripped):
                    new = code[:m.start()] + (rep(re.match(pat, code[m.start():]) or m) if callable(rep) else rep) + code[m.end():] + l[len(code):]
                    if new != l:
                        cands.append({"file": f, "line": i + 1, "op": name, "old": l, "new": new})
    # sample evenly over files
    byf = {}
    for c in cands:
        byf.setdefault(c["file"], []).append(c)
    plan = []
    files = sorted(byf)
    k = 0
    while len(plan) < n and any(byf.values()):
        f = files[k % len(files)]
        k += 1
        if byf[f]:
            plan.append(byf[f].pop(rng.below(len(byf[f]))))
    for i, p in enumerate(plan):
        p["id"] = "M%03d" % i
        p["checks"] = FILES[p["file"]]
    os.makedirs(OUT, exist_ok=True)
    json.dump(plan, open(os.path.join(OUT, "plan.json"), "w"), indent=1)
    print("candidates", len(cands), "planned", len(plan))


def apply(root, m):
    p = os.path.join(root, m["file"])
    lines = open(p).read().split("\n")
    if lines[m["line"] - 1] != m["old"]:
        return False
    lines[m["line"] - 1] = m["new"]
    open(p, "w").write("\n".join(lines))
    return True


def tests(workers):
    plan = json.load(open(os.path.join(OUT, "plan.json")))
    done = {}
    rp = os.path.join(OUT, "tests.json")
    if os.path.exists(rp):
        done = json.load(open(rp))
    todo = [m for m in plan if m["id"] not in done]
    os.makedirs("/tmp/mut", exist_ok=True)
    wts = []
    for w in range(workers):
        d = "/tmp/mut/w%d" % w
        if not os.path.exists(d):
            subprocess.run(["git", "-C", "/repo", "worktree", "add", "--detach", d, "HEAD"], check=True, capture_output=True)
        wts.append(d)

    def work(w):
        d = wts[w]
        res = {}
        for m in todo[w::workers]:
            subprocess.run(["git", "-C", d, "checkout", "--", "."], check=True)
            if not apply(d, m):
                res[m["id"]] = "stale"
                continue
            env = dict(os.environ, CARGO_NET_OFFLINE="true")
            r = subprocess.run(["cargo", "test", "--workspace", "--no-fail-fast", "--offline"], cwd=d, env=env, capture_output=True, text=True, timeout=3000)
            out = r.stdout + r.stderr
            if "error[" in out or "error:" in out and "could not compile" in out:
                res[m["id"]] = "no-compile"
            else:
                passed = sum(int(x) for x in re.findall(r"test result: \w+\. (\d+) passed", out))
                failed = sum(int(x) for x in re.findall(r"test result: \w+\. \d+ passed; (\d+) failed", out))
                res[m["id"]] = "tests-pass" if (passed == 108 and failed == 0) else "tests-fail(%d/%d)" % (failed, passed + failed)
            subprocess.run(["git", "-C", d, "checkout", "--", "."], check=True)
        return res
    with concurrent.futures.ThreadPoolExecutor(max_workers=workers) as ex:
        for r in ex.map(work, range(workers)):
            done.update(r)
            json.dump(done, open(rp, "w"), indent=1)
    for d in wts:
        subprocess.run(["git", "-C", "/repo", "worktree", "remove", "--force", d], capture_output=True)
    shutil.rmtree("/tmp/mut", ignore_errors=True)
    from collections import Counter
    print(Counter(v.split("(")[0] for v in done.values()))


def checks():
    plan = {m["id"]: m for m in json.load(open(os.path.join(OUT, "plan.json")))}
    t = json.load(open(os.path.join(OUT, "tests.json")))
    rp = os.path.join(OUT, "checks.json")
    done = json.load(open(rp)) if os.path.exists(rp) else {}
    for mid, st in sorted(t.items()):
        if st != "tests-pass" or mid in done:
            continue
        m = plan[mid]
        if subprocess.run(["git", "-C", "/repo", "status", "--short"], capture_output=True, text=True).stdout.strip():
            print("refusing: /repo dirty"); return
        if not apply("/repo", m):
            done[mid] = {"stale": True}; continue
        res = {}
        try:
            for c in m["checks"]:
                p = subprocess.run(["./check", c, "--tier", "quick"], cwd=VERIF, capture_output=True, text=True, timeout=3600)
                v = [l for l in p.stdout.splitlines() if l.startswith("VIOLATION") or l.startswith("CHECK-ERROR")]
                res[c] = {"rc": p.returncode, "first": v[:1]}
                if p.returncode != 0:
                    break       # detected: no need to run the remaining checks
        finally:
            subprocess.run(["git", "-C", "/repo", "checkout", "--", "."], check=True)
        done[mid] = res
        json.dump(done, open(rp, "w"), indent=1)
        print(mid, m["file"], m["op"], {c: r["rc"] for c, r in res.items()}, flush=True)


def report():
    plan = json.load(open(os.path.join(OUT, "plan.json")))
    t = json.load(open(os.path.join(OUT, "tests.json"))) if os.path.exists(os.path.join(OUT, "tests.json")) else {}
    c = json.load(open(os.path.join(OUT, "checks.json"))) if os.path.exists(os.path.join(OUT, "checks.json")) else {}
    n = len(plan)
    surv = [m for m in plan if t.get(m["id"]) == "tests-pass"]
    det = [m for m in surv if any(r.get("rc") for r in c.get(m["id"], {}).values() if isinstance(r, dict))]
    und = [m for m in surv if m["id"] in c and m not in det]
    print("mutants %d; killed by compiler/tests %d; survive the 108 tests %d; of those flagged by the checks %d, not flagged %d, not yet run %d" % (
        n, sum(1 for m in plan if t.get(m["id"], "").startswith(("no-compile", "tests-fail"))), len(surv), len(det), len(und), len(surv) - len(det) - len(und)))
    for m in und:
        print("NOT FLAGGED", m["id"], m["file"] + ":" + str(m["line"]), m["op"], "|", m["old"].strip()[:90], "=>", m["new"].strip()[:90])


if __name__ == "__main__":
    a = sys.argv[1]
    if a == "gen":
        gen(int(sys.argv[2]), int(sys.argv[3]))
    elif a == "tests":
        tests(int(sys.argv[2]) if len(sys.argv) > 2 else 6)
    elif a == "checks":
        checks()
    else:
        report()
