#!/usr/bin/env python3
"""prints the markdown table of /verif/seeded/*/meta.json (used for DESIGN.md section 9b)"""
import glob, json, os
print("| seed | change (compiles, 108 tests pass) | needs to manifest | check | how it was caught |")
print("|---|---|---|---|---|")
for d in sorted(glob.glob(os.path.join(os.path.dirname(__file__), "..", "seeded", "*", "meta.json"))):
    m = json.load(open(d)); k = os.path.basename(os.path.dirname(d))
    res = m["last_check_result"][m["property"]]
    v = (res["violation_lines"] or ["-"])[0]
    kind = "VIOLATION + replay" if v.startswith("VIOLATION") and "no-failing-input-found" not in v else v
    print("| %s | %s | %s | %s quick: %s | %s |" % (k, m["change"].replace("|", "\\|"), m["needs_to_manifest"].replace("|", "\\|"), m["property"], kind, m["detection"].replace("|", "\\|")))
