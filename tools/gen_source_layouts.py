#!/usr/bin/env python3
"""Translator for the data-driven part of the RPU syntax: reads the Rust sources of /repo and regenerates
lean/DoviModel/Gen/SourceLayouts.lean — per extension-block level the field widths read by `parse` and written
by `write` (with their `length > k` guards), `bytes_size()`, `required_bits()`, and the field codings of the
uncompressed `vdr_dm_data` payload in `VdrDmData::parse` / `write`.  Props/SourceTie.lean proves that these
generated tables are identical to the hand-written ones of the model (Model/Rpu.lean, Model/RpuWrite.lean); a
source edit that changes a width, a threshold, an order or a length table breaks that proof obligation.

usage: gen_source_layouts.py [repo] [out]   (exit 2 when a source file no longer has the expected shape)"""
import os, re, sys

REPO = sys.argv[1] if len(sys.argv) > 1 else "/repo"
OUT = sys.argv[2] if len(sys.argv) > 2 else os.path.join(os.path.dirname(os.path.abspath(__file__)), "..", "lean", "DoviModel", "Gen", "SourceLayouts.lean")
BL = os.path.join(REPO, "dolby_vision", "src", "rpu", "extension_metadata", "blocks")
LEVELS = [1, 2, 3, 4, 5, 6, 8, 9, 10, 11, 254, 255]


class Shape(Exception):
    pass


def fn_body(src, signature_re):
    m = re.search(signature_re, src)
    if not m:
        raise Shape("function not found: " + signature_re)
    i = src.index("{", m.end())
    depth = 0
    for j in range(i, len(src)):
        if src[j] == "{":
            depth += 1
        elif src[j] == "}":
            depth -= 1
            if depth == 0:
                return src[i + 1:j]
    raise Shape("unbalanced braces after " + signature_re)


def strip_comments(s):
    s = re.sub(r"//[^\n]*", "", s)
    return re.sub(r"/\*.*?\*/", "", s, flags=re.S)


def guarded_widths(body, access_re, guard_re):
    """[(guard threshold or None, width)] in source order; guards are `if <len> > K {` blocks"""
    out = []
    stack = []   # (depth at which the guard block was opened, K)
    depth = 0
    tok = re.compile(r"(?P<guard>%s)|(?P<acc>%s)|(?P<o>\{)|(?P<c>\})" % (guard_re, access_re))
    pending = None
    for m in tok.finditer(body):
        if m.group("guard"):
            pending = int(re.search(r">\s*(\d+)", m.group("guard")).group(1))
        elif m.group("o"):
            depth += 1
            if pending is not None:
                stack.append((depth, pending))
                pending = None
        elif m.group("c"):
            if stack and stack[-1][0] == depth:
                stack.pop()
            depth -= 1
        else:
            w = int(re.search(r"(\d+)\s*\)\s*\??$", m.group("acc")).group(1))
            signed = "signed" in m.group("acc")
            if len(stack) > 1:
                raise Shape("nested length guards")
            out.append((stack[-1][1] if stack else None, w, signed))
    return out


def lean_layout(items):
    """same shape as the hand-written tables: fixed prefix ++ (if length > k then [..] else []) ++ …"""
    parts = []
    cur_g, cur = "start", []
    for g, w, _ in items:
        if g != cur_g:
            if cur:
                parts.append((cur_g, cur))
            cur_g, cur = g, []
        cur.append(w)
    if cur:
        parts.append((cur_g, cur))
    outs = []
    for g, ws in parts:
        lst = "[" + ", ".join(map(str, ws)) + "]"
        outs.append(lst if g is None else "(if length > %d then %s else [])" % (g, lst))
    return " ++ ".join(outs) if outs else "[]"


def match_table(body):
    """`match self.length { a => b, … }` or a single integer expression"""
    b = strip_comments(body).strip()
    if re.fullmatch(r"\d+", b):
        return int(b)
    if re.fullmatch(r"self\.length", b):
        return "length"
    m = re.search(r"match\s+self\.length\s*\{(.*)\}", b, flags=re.S)
    if not m:
        raise Shape("unexpected body: " + b[:80])
    rows = re.findall(r"(\d+)\s*=>\s*(\d+)\s*,", m.group(1))
    return [(int(a), int(c)) for a, c in rows]


def main():
    try:
        parse_l, write_l, bytes_l, req_l, signed_l = {}, {}, {}, {}, {}
        for lv in LEVELS:
            src = strip_comments(open(os.path.join(BL, "level%d.rs" % lv)).read())
            pb = fn_body(src, r"fn\s+parse\s*\(")
            wb = fn_body(src, r"pub\s+fn\s+write\s*\(")
            pi = guarded_widths(pb, r"get_n(?:::<\w+>)?\(\s*\d+\s*\)\s*\?", r"if\s+length\s*>\s*\d+")
            wi = guarded_widths(wb, r"write(?:_signed)?_n\(\s*&[\w\.]+\s*,\s*\d+\s*\)\s*\?", r"if\s+self\.length\s*>\s*\d+")
            if not pi or not wi:
                raise Shape("no fields found in level%d.rs" % lv)
            parse_l[lv], write_l[lv] = pi, wi
            signed_l[lv] = [i for i, (_, _, s) in enumerate(wi) if s]
            bytes_l[lv] = match_table(fn_body(src, r"fn\s+bytes_size\s*\("))
            req_l[lv] = match_table(fn_body(src, r"fn\s+required_bits\s*\("))
        # vdr_dm_data main payload
        dm = strip_comments(open(os.path.join(REPO, "dolby_vision", "src", "rpu", "vdr_dm_data.rs")).read())
        pb = fn_body(dm, r"fn\s+parse\s*\(")
        wb = fn_body(dm, r"pub\s+fn\s+write\s*\(")
        dm_parse = [("s16" if "as i16" in m.group(0) else "u %s" % m.group(1))
                    for m in re.finditer(r"get_n(?:::<\w+>)?\(\s*(\d+)\s*\)\s*\?(?:\s*as\s+i16)?", pb)]
        dm_write = [("s16" if m.group(1) == "_signed" else "u %s" % m.group(2))
                    for m in re.finditer(r"write(_signed)?_n\(\s*&[\w\.]+\s*,\s*(\d+)\s*\)\s*\?", wb)]
        if len(dm_parse) != 32 or len(dm_write) != 32:
            raise Shape("vdr_dm_data main payload: %d parsed / %d written fields" % (len(dm_parse), len(dm_write)))
    except (Shape, OSError, ValueError, AttributeError) as e:
        sys.stderr.write("gen_source_layouts: source no longer has the expected shape: %s\n" % e)
        return 2

    def table(name, d, doc):
        s = "/-- %s -/\ndef %s (level length : Nat) : Option (List Nat) :=\n  match level with\n" % (doc, name)
        for lv in LEVELS:
            s += "  | %d => some (%s)\n" % (lv, lean_layout(d[lv]))
        return s + "  | _ => none\n\n"

    o = "/-! GENERATED by tools/gen_source_layouts.py from the Rust sources of /repo on every run — do not edit. -/\nnamespace Dovi.Src\n\n"
    o += table("blockParse", parse_l, "widths read by `ExtMetadataBlockLevelN::parse`, in source order")
    o += table("blockWrite", write_l, "widths written by `ExtMetadataBlockLevelN::write`, in source order")
    o += "/-- (level, index of the field written with `write_signed_n`) -/\ndef signedFields : List (Nat × Nat) := [%s]\n\n" % ", ".join(
        "(%d, %d)" % (lv, i) for lv in LEVELS for i in signed_l[lv])
    o += "/-- `bytes_size()` -/\ndef blockBytes (level length : Nat) : Nat :=\n  match level with\n"
    for lv in LEVELS:
        b = bytes_l[lv]
        if isinstance(b, int):
            o += "  | %d => %d\n" % (lv, b)
    o += "  | _ => length\n\n"
    o += "/-- `required_bits()` -/\ndef blockRequired (level length : Nat) : Option Nat :=\n  match level with\n"
    for lv in LEVELS:
        r = req_l[lv]
        if isinstance(r, int):
            o += "  | %d => some %d\n" % (lv, r)
        else:
            o += "  | %d => (match length with %s | _ => none)\n" % (lv, " ".join("| %d => some %d" % (a, c) for a, c in r))
    o += "  | _ => none\n\n"
    o += "/-- codings read by `VdrDmData::parse` for the uncompressed payload (`u n` = `get_n(n)`, `s16` = `get_n::<u16>(16) as i16`) -/\n"
    o += "inductive F where | u (n : Nat) | s16\nderiving DecidableEq, Repr\n\n"
    o += "def dmMainParse : List F := [%s]\n\n" % ", ".join(".s16" if x == "s16" else ".u " + x.split()[1] for x in dm_parse)
    o += "def dmMainWrite : List F := [%s]\n\nend Dovi.Src\n" % ", ".join(".s16" if x == "s16" else ".u " + x.split()[1] for x in dm_write)
    os.makedirs(os.path.dirname(OUT), exist_ok=True)
    old = open(OUT).read() if os.path.exists(OUT) else None
    if old != o:
        open(OUT, "w").write(o)
    return 0


if __name__ == "__main__":
    sys.exit(main())
