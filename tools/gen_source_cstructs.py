#!/usr/bin/env python3
"""Translator for the C view of the RPU structures: reads dolby_vision/src/c_structs/*.rs (and the `#[repr(C)]`
extension-block structs of dolby_vision/src/rpu/extension_metadata/blocks/levelN.rs, which serve as Rust and as C
structs) and regenerates lean/DoviModel/Gen/SourceCStructs.lean —

  * `Src.CS.structs`      : per `#[repr(C)]` struct, the list of (field name, C type as written) in declaration order,
  * `Src.CS.blockStructs` : per block level, the same for `ExtMetadataBlockLevelN`,
  * `Src.CS.fromImpls`    : per `impl From<S> for T` of c_structs/*.rs, the (C field, Rust expression) pairs of the struct
                            literal the impl returns (whitespace normalised; a shorthand field is resolved through its
                            `let`; an impl whose body is a single expression is the one pair ("=", expression)),
  * `Src.CS.setBlocksArms`, `Src.CS.setBlocksLists`, `Src.CS.listFilters`, `Src.CS.dmDataDefault`,
    `Src.CS.u16Empty`     : what `DmData::set_blocks` / `Default` / `LevelNBlockList::from` / `U16Data::empty` do,
  * `Src.CS.cPoly` … `Src.CS.cHeaderFrom` : the seven field-by-field `From<&Rust struct>` conversions translated into
                            Lean functions over the model's structures (every expression must have one of the known
                            shapes: `v.f`, `v.f as u8`, `v.get_dovi_profile()`, `null()`, `XData::from(v.f.clone())`,
                            `v.f.as_ref().map_or(null_mut(), |x| Box::into_raw(Box::new(T::from(x))))`,
                            `map_or(-1, ..)`, `U16Data::from(v.f)`, the array of three `ReshapingCurve::from`,
                            `DmData::combine_dm_data(..)`).

Props/C20.lean (`source_cstructs_agree…`) proves each of them equal to the hand-written mirror structures /
conversions of Model/CView.lean; adding, removing, reordering or retyping a field of a C struct, or changing what a
`From` impl copies into a field, breaks that proof obligation.

usage: gen_source_cstructs.py [repo] [out]   (exit 2 when a source file no longer has the expected shape)"""
import os, re, sys

REPO = sys.argv[1] if len(sys.argv) > 1 else "/repo"
OUT = sys.argv[2] if len(sys.argv) > 2 else os.path.join(os.path.dirname(os.path.abspath(__file__)), "..", "lean", "DoviModel", "Gen", "SourceCStructs.lean")
SRC = os.path.join(REPO, "dolby_vision", "src")
CS = os.path.join(SRC, "c_structs")
BL = os.path.join(SRC, "rpu", "extension_metadata", "blocks")
LEVELS = [1, 2, 3, 4, 5, 6, 8, 9, 10, 11, 254, 255]

# the repr(C) structs each file of c_structs/ is expected to declare (a new or missing one needs a new mirror)
EXPECTED = {
    "buffers.rs": ["Data", "U16Data", "U64Data", "I64Data", "Data2D", "U64Data2D", "I64Data2D", "U64Data3D", "I64Data3D"],
    "extension_metadata.rs": ["DmData", "Level2BlockList", "Level8BlockList", "Level10BlockList"],
    "rpu.rs": ["RpuOpaqueList"],
    "rpu_data_header.rs": ["RpuDataHeader"],
    "rpu_data_mapping.rs": ["RpuDataMapping", "ReshapingCurve", "PolynomialCurve", "MMRCurve"],
    "rpu_data_nlq.rs": ["RpuDataNlq"],
    "vdr_dm_data.rs": ["VdrDmData"],
}
# structs without repr(C) that c_structs/ may declare (opaque to C)
OPAQUE = {"rpu.rs": ["RpuOpaque"]}


class Shape(Exception):
    pass


def strip_comments(s):
    s = re.sub(r"//[^\n]*", "", s)
    return re.sub(r"/\*.*?\*/", "", s, flags=re.S)


def close_at(src, i, op, cl):
    """src[i] == op -> (inner text, index after the matching closer)"""
    depth = 0
    for j in range(i, len(src)):
        if src[j] == op:
            depth += 1
        elif src[j] == cl:
            depth -= 1
            if depth == 0:
                return src[i + 1:j], j + 1
    raise Shape("unbalanced %s%s" % (op, cl))


def strip_attrs(s):
    """remove every `#[...]` attribute (balanced brackets)"""
    out = []
    i = 0
    while i < len(s):
        if s.startswith("#[", i):
            _, i = close_at(s, i + 1, "[", "]")
        else:
            out.append(s[i])
            i += 1
    return "".join(out)


def split_top(s, sep=","):
    """split at top-level separators (outside (), [], {}, <>; `->` and `=>` do not close an angle bracket)"""
    parts, depth, cur = [], 0, []
    for k, ch in enumerate(s):
        if ch in "([{":
            depth += 1
        elif ch in ")]}":
            depth -= 1
        elif ch == "<":
            depth += 1
        elif ch == ">" and k > 0 and s[k - 1] not in "-=":
            depth -= 1
        if ch == sep and depth == 0:
            parts.append("".join(cur))
            cur = []
        else:
            cur.append(ch)
    if depth != 0:
        raise Shape("unbalanced brackets in: " + s[:80])
    parts.append("".join(cur))
    return [p for p in (x.strip() for x in parts) if p]


def norm(e):
    """whitespace normalisation of an expression / a type"""
    e = re.sub(r"\s+", " ", e.strip())
    e = re.sub(r"([(\[{])\s+", r"\1", e)                # no blanks inside brackets
    e = re.sub(r"\s+([)\]}])", r"\1", e)
    e = re.sub(r",([)\]}])", r"\1", e)                    # no trailing commas
    e = re.sub(r"\s*,\s*", ", ", e)
    e = re.sub(r"\s*\.\s*(?=[A-Za-z_])", ".", e)          # method chains broken over lines
    # closure body `|x| {e}` -> `|x| e`
    while True:
        m = re.search(r"\|(\w+)\| ?\{", e)
        if not m:
            break
        inner, after = close_at(e, m.end() - 1, "{", "}")
        e = e[:m.start()] + "|%s| %s" % (m.group(1), inner.strip()) + e[after:]
    return e.strip()


def read(path):
    if not os.path.exists(path):
        raise Shape("missing source file " + path)
    return strip_comments(open(path).read())


def structs_of(src, fname):
    """[(name, is_repr_c, [(field, type)])] for every `struct NAME { .. }` of the file"""
    out = []
    for m in re.finditer(r"\bstruct\s+(\w+)\s*(<[^>{]*>)?\s*\{", src):
        name = m.group(1)
        body, _ = close_at(src, m.end() - 1, "{", "}")
        # attributes directly before the declaration
        head = src[:m.start()]
        hm = re.search(r"((?:\s*#\[[^\]]*\](?:\s*\n)?)*)\s*(?:pub(?:\([^)]*\))?\s+)?$", head)
        attrs = hm.group(1) if hm else ""
        is_c = re.search(r"#\[repr\(C\)\]", attrs) is not None
        fields = []
        for part in split_top(strip_attrs(body)):
            fm = re.match(r"^(?:pub(?:\([^)]*\))?\s+)?(\w+)\s*:\s*(.+)$", part, flags=re.S)
            if not fm:
                raise Shape("%s: field of struct %s not understood: %r" % (fname, name, part[:60]))
            fields.append((fm.group(1), norm(fm.group(2))))
        if not fields:
            raise Shape("%s: struct %s has no fields" % (fname, name))
        out.append((name, is_c, fields))
    return out


def struct_literal(body, target, fname, what):
    """the struct literal `Self { .. }` / `Target { .. }` an impl body ends with -> (lets, [(field, expr)])"""
    lets = []
    for lm in re.finditer(r"\blet\s+(?:mut\s+)?(\w+)\s*(?::\s*[^=]+?)?=\s*", body):
        # expression up to the top-level `;`
        depth, j = 0, lm.end()
        while j < len(body):
            ch = body[j]
            if ch in "([{":
                depth += 1
            elif ch in ")]}":
                depth -= 1
            elif ch == ";" and depth == 0:
                break
            j += 1
        lets.append((lm.group(1), norm(body[lm.end():j])))
    cands = [m for m in re.finditer(r"\b(Self|%s)\s*\{" % re.escape(target), body)]
    if not cands:
        return lets, None
    m = cands[-1]
    inner, after = close_at(body, m.end() - 1, "{", "}")
    if body[after:].strip() not in ("", ";"):
        raise Shape("%s: %s does not end with its struct literal" % (fname, what))
    pairs = []
    letd = dict(lets)
    short = set()
    for part in split_top(strip_attrs(inner)):
        fm = re.match(r"^(\w+)\s*:\s*(.+)$", part, flags=re.S)
        if fm:
            pairs.append((fm.group(1), norm(fm.group(2))))
        elif re.match(r"^\w+$", part):
            if part not in letd:
                raise Shape("%s: %s: shorthand field %s without a let" % (fname, what, part))
            pairs.append((part, letd[part]))
            short.add(part)
        else:
            raise Shape("%s: %s: field initialiser not understood: %r" % (fname, what, part[:60]))
    return [(n, e) for n, e in lets if n not in short], pairs


def from_impls(src, fname):
    """[(key, [(field, expr)])] for every `impl .. From<S> for T`"""
    out = []
    for m in re.finditer(r"\bimpl\s*(<[^{]*?>)?\s*From<", src):
        # source type up to the matching '>'
        i = m.end() - 1
        depth = 0
        for j in range(i, len(src)):
            if src[j] == "<":
                depth += 1
            elif src[j] == ">":
                depth -= 1
                if depth == 0:
                    break
        source = norm(src[i + 1:j])
        tm = re.match(r"\s*for\s+(\w+)\s*\{", src[j + 1:])
        if not tm:
            raise Shape("%s: impl From<%s> without a plain target type" % (fname, source))
        target = tm.group(1)
        body, _ = close_at(src, j + 1 + tm.end() - 1, "{", "}")
        fm = re.search(r"\bfn\s+from\s*\(\s*(\w+)\s*:[^)]*\)\s*->\s*Self\s*\{", body)
        if not fm:
            raise Shape("%s: impl From<%s> for %s: fn from not found" % (fname, source, target))
        fbody, _ = close_at(body, fm.end() - 1, "{", "}")
        fbody = strip_attrs(fbody)
        what = "From<%s> for %s" % (source, target)
        lets, pairs = struct_literal(fbody, target, fname, what)
        if pairs is None:
            # a match or a single expression
            pairs = [("=", norm(fbody))]
        else:
            pairs = [("let " + n, e) for n, e in lets] + pairs
        out.append(("%s <- %s" % (target, source), fm.group(1), pairs))
    return out


def fn_body(src, sig_re, fname):
    m = re.search(sig_re, src)
    if not m:
        raise Shape("%s: function not found: %s" % (fname, sig_re))
    return close_at(src, src.index("{", m.end() - 1), "{", "}")[0]


# ---------------------------------------------------------------------------------------------------
# Lean rendering
# ---------------------------------------------------------------------------------------------------

def lstr(s):
    if '"' in s or "\\" in s:
        s = s.replace("\\", "\\\\").replace('"', '\\"')
    return '"' + s + '"'


def lpairs(pairs):
    return "[" + ", ".join("(%s, %s)" % (lstr(a), lstr(b)) for a, b in pairs) + "]"


# ---------------------------------------------------------------------------------------------------
# translation of the field-by-field conversions into Lean functions
# ---------------------------------------------------------------------------------------------------

# Rust struct (source of the conversion) -> file, Lean structure of the model, renamed fields
RUST_SIDE = {
    "RpuDataHeader": ("rpu_data_header.rs", "RpuDataHeader"),
    "RpuDataMapping": ("rpu_data_mapping.rs", "RpuDataMapping"),
    "ReshapingCurve": ("rpu_data_mapping.rs", "DoviReshapingCurve"),
    "PolynomialCurve": ("rpu_data_mapping.rs", "DoviPolynomialCurve"),
    "MMRCurve": ("rpu_data_mapping.rs", "DoviMMRCurve"),
    "RpuDataNlq": ("rpu_data_nlq.rs", "RpuDataNlq"),
    "VdrDmData": ("vdr_dm_data.rs", "VdrDmData"),
}
# (Lean name of the generated function, Lean type of the argument, Lean type of the result, conversion of the pointee)
LEAN_FN = {
    "PolynomialCurve": ("cPoly", "Dovi.PolyCurve", "Dovi.CPoly"),
    "MMRCurve": ("cMmr", "Dovi.MmrCurve", "Dovi.CMmr"),
    "RpuDataNlq": ("cNlq", "Dovi.Nlq", "Dovi.CNlq"),
    "ReshapingCurve": ("cCurve", "Dovi.Curve", "Dovi.CCurve"),
    "RpuDataMapping": ("cMapping", "Dovi.Mapping", "Dovi.CMapping"),
    "VdrDmData": ("cDm", "Dovi.DmData", "Dovi.CDm"),
    "RpuDataHeader": ("cHeaderFrom", "Dovi.Header", "Dovi.CHeader"),
}
ORDER = ["PolynomialCurve", "MMRCurve", "RpuDataNlq", "ReshapingCurve", "RpuDataMapping", "VdrDmData", "RpuDataHeader"]
BUF_1D = {"U64Data", "I64Data", "U16Data", "Data"}
BUF_ND = {"U64Data2D", "I64Data2D", "U64Data3D", "I64Data3D"}
# the fields of the Rust `VdrDmData` the model keeps as named entries of `main`, and its two containers
DM_DIRECT = {"compressed", "affected_dm_metadata_id", "current_dm_metadata_id", "scene_refresh_flag"}


def rust_field_types(struct_name, fname):
    src = read(os.path.join(SRC, "rpu", fname))
    for name, _, fields in structs_of(src, fname):
        if name == struct_name:
            return dict(fields)
    raise Shape("rpu/%s: struct %s not found" % (fname, struct_name))


def translate_expr(target, var, field, expr, rtypes, ctypes):
    """one `(C field, Rust expression)` pair -> list of `(Lean field, Lean expression)`"""
    v = re.escape(var)
    ctype = ctypes[field]
    m = re.fullmatch(v + r"\.(\w+)", expr)
    if m:
        f = m.group(1)
        if f not in rtypes:
            raise Shape("%s.%s: Rust field %s not found" % (target, field, f))
        if target == "VdrDmData" and f not in DM_DIRECT:
            return [(field, "%s.mainNamed %s" % (var, lstr(f)))]
        if rtypes[f] != ctype and not (rtypes[f].startswith("[") and ctype.startswith("[")):
            raise Shape("%s.%s: copied from %s of type %s into %s" % (target, field, f, rtypes[f], ctype))
        return [(field, "%s.%s" % (var, f))]
    m = re.fullmatch(v + r"\.(\w+) as u8", expr)
    if m and ctype == "u8":
        return [(field, "%s.%s.toNat" % (var, m.group(1)))]
    if expr == var + ".get_dovi_profile()":
        return [(field, var + ".getDoviProfile")]
    if expr == "null()" and ctype.startswith("*const"):
        return [(field, "none")]
    m = re.fullmatch(r"(\w+)::from\(" + v + r"\.(\w+)\.clone\(\)\)", expr)
    if m and m.group(1) == ctype and ctype in BUF_1D | BUF_ND:
        f = m.group(2)
        rt = rtypes.get(f)
        if rt is None:
            raise Shape("%s.%s: Rust field %s not found" % (target, field, f))
        if ctype == "Data" and rt == "Vec<bool>":
            return [(field, "%s.%s.map Dovi.boolU8" % (var, f))]
        elem = {"Data": "u8", "U16Data": "u16", "U64Data": "u64", "I64Data": "i64", "U64Data2D": "u64", "I64Data2D": "i64",
                "U64Data3D": "u64", "I64Data3D": "i64"}[ctype]
        dims = 1 if ctype in BUF_1D else int(ctype[-2])
        # the Rust type must be `dims` nested Vec / ArrayVec of the element type
        inner = rt
        for _ in range(dims):
            mm = re.fullmatch(r"Vec<(.+)>", inner) or re.fullmatch(r"ArrayVec<\[(.+); \w+\]>", inner)
            if not mm:
                raise Shape("%s.%s: %s is not a %d-dimensional buffer" % (target, field, rt, dims))
            inner = mm.group(1)
        if inner != elem:
            raise Shape("%s.%s: element type %s of %s copied into %s" % (target, field, inner, rt, ctype))
        return [(field, "%s.%s" % (var, f))]
    m = re.fullmatch(v + r"\.(\w+)\.as_ref\(\)\.map_or\(null_mut\(\), \|(\w+)\| Box::into_raw\(Box::new\((\w+)::from\(\2\)\)\)\)", expr)
    if m and ctype == "*const " + m.group(3) and m.group(3) in LEAN_FN:
        return [(field, "%s.%s.map %s" % (var, m.group(1), LEAN_FN[m.group(3)][0]))]
    m = re.fullmatch(v + r"\.(\w+)\.as_ref\(\)\.map_or\(-1, \|(\w+)\| \(\*\2 as u8\) as i32\)", expr) or \
        re.fullmatch(v + r"\.(\w+)\.map_or\(-1, \|(\w+)\| \2 as i32\)", expr)
    if m and ctype == "i32":
        return [(field, "Dovi.optMarker %s.%s" % (var, m.group(1)))]
    m = re.fullmatch(r"U16Data::from\(" + v + r"\.(\w+)\)", expr)
    if m and ctype == "U16Data" and re.fullmatch(r"Option<\[u16; \w+\]>", rtypes.get(m.group(1), "")):
        # From<Option<[u16; N]>> for U16Data = map_or(U16Data::empty(), U16Data::from); empty() has a null pointer
        return [(field, "%s.%s.getD []" % (var, m.group(1))), ("nlq_pred_data_null", "%s.%s.isNone" % (var, m.group(1)))]
    m = re.fullmatch(r"\[ReshapingCurve::from\(&" + v + r"\.curves\[0\]\), ReshapingCurve::from\(&" + v +
                     r"\.curves\[1\]\), ReshapingCurve::from\(&" + v + r"\.curves\[2\]\)\]", expr)
    if m and ctype == "[ReshapingCurve; NUM_COMPONENTS]":
        return [(field, "[cCurve (%s.curve 0), cCurve (%s.curve 1), cCurve (%s.curve 2)]" % (var, var, var))]
    if expr == "DmData::combine_dm_data(%s.cmv29_metadata.as_ref(), %s.cmv40_metadata.as_ref())" % (var, var) and ctype == "DmData":
        return [(field, "Dovi.cLevels " + var)]
    raise Shape("%s.%s: expression not of a known shape: %s" % (target, field, expr))


def main():
    structs = []          # (name, fields)
    impls = []            # (key, var, pairs)
    files = sorted(f for f in os.listdir(CS) if f.endswith(".rs") and f != "mod.rs") if os.path.isdir(CS) else []
    if set(files) != set(EXPECTED):
        raise Shape("c_structs/ holds %s, expected %s" % (files, sorted(EXPECTED)))
    for fname in files:
        src = read(os.path.join(CS, fname))
        found = structs_of(src, fname)
        c_names = [n for n, is_c, _ in found if is_c]
        other = [n for n, is_c, _ in found if not is_c]
        if c_names != EXPECTED[fname]:
            raise Shape("c_structs/%s declares the repr(C) structs %s, expected %s" % (fname, c_names, EXPECTED[fname]))
        if other != OPAQUE.get(fname, []):
            raise Shape("c_structs/%s declares the structs %s without repr(C), expected %s" % (fname, other, OPAQUE.get(fname, [])))
        structs += [(n, f) for n, is_c, f in found if is_c]
        impls += from_impls(src, fname)
    sd = dict(structs)

    # the block structs
    blocks = []
    for lvl in LEVELS:
        fname = "level%d.rs" % lvl
        src = read(os.path.join(BL, fname))
        hit = [(n, is_c, f) for n, is_c, f in structs_of(src, fname) if n == "ExtMetadataBlockLevel%d" % lvl]
        if len(hit) != 1:
            raise Shape("blocks/%s: struct ExtMetadataBlockLevel%d not found" % (fname, lvl))
        if not hit[0][1]:
            raise Shape("blocks/%s: ExtMetadataBlockLevel%d is not repr(C) any more" % (fname, lvl))
        blocks.append((lvl, hit[0][2]))

    # DmData::set_blocks / Default / the list conversions / U16Data::empty
    ext = read(os.path.join(CS, "extension_metadata.rs"))
    sb = fn_body(ext, r"\bfn\s+set_blocks\s*\(", "extension_metadata.rs")
    fm = re.search(r"\bfor\s+block\s+in\s+blocks\s*\{", sb)
    if not fm:
        raise Shape("extension_metadata.rs: set_blocks: loop over blocks not found")
    loop, after = close_at(sb, fm.end() - 1, "{", "}")
    mm = re.search(r"\bmatch\s+block\s*\{", loop)
    if not mm:
        raise Shape("extension_metadata.rs: set_blocks: match on the block not found")
    arms_src, _ = close_at(loop, mm.end() - 1, "{", "}")
    arms = []
    for part in split_top(arms_src):
        for arm in re.split(r"\}\s*(?=ExtMetadataBlock::)", part):
            am = re.match(r"^ExtMetadataBlock::(\w+)\((\w+)\)\s*=>\s*(.*)$", arm.strip(), flags=re.S)
            if not am:
                raise Shape("extension_metadata.rs: set_blocks arm not understood: %r" % arm[:60])
            rhs = norm(am.group(3).rstrip("}").strip().lstrip("{").strip())
            if rhs in ("", "{}", "{"):
                arms.append((am.group(1), ""))
                continue
            rm = re.fullmatch(r"self\.(\w+) = Box::into_raw\(Box::new\(" + re.escape(am.group(2)) +
                              r"\.clone\(\)\)\) as \*const ExtMetadataBlock(\w+)", rhs)
            if not rm or rm.group(2) != am.group(1):
                raise Shape("extension_metadata.rs: set_blocks arm %s not understood: %s" % (am.group(1), rhs))
            arms.append((am.group(1), rm.group(1)))
    rest = sb[after + 0:]
    vm = re.search(r"\bmatch\s+cm_version\s*\{", sb)
    if not vm:
        raise Shape("extension_metadata.rs: set_blocks: match on cm_version not found")
    vsrc, _ = close_at(sb, vm.end() - 1, "{", "}")
    lists = []
    for arm in split_top(vsrc):
        am = re.match(r"^CmVersion::(\w+)\s*=>\s*(.*)$", arm, flags=re.S)
        if not am:
            raise Shape("extension_metadata.rs: cm_version arm not understood: %r" % arm[:60])
        body = am.group(2).strip()
        if body.startswith("{"):
            body = body[1:-1] if body.endswith("}") else body[1:]
        for st in [x.strip() for x in body.split(";") if x.strip()]:
            sm = re.fullmatch(r"self\.(\w+) = (\w+)::from\(blocks\)", norm(st))
            if not sm:
                raise Shape("extension_metadata.rs: cm_version statement not understood: %s" % st)
            lists.append((am.group(1), sm.group(1) + " = " + sm.group(2)))
    filters = []
    for key, var, pairs in impls:
        m = re.fullmatch(r"(Level\d+BlockList) <- &\[ExtMetadataBlock\]", key)
        if m:
            lets = [e for f, e in pairs if f.startswith("let ")]
            fl = re.search(r"\.filter\(\|(\w+)\| matches!\(\1, ExtMetadataBlock::(\w+)\(_\)\)\)", lets[0] if lets else "")
            mp = re.search(r"ExtMetadataBlock::(\w+)\((\w+)\) => \{?Box::into_raw\(Box::new\(\2\.clone\(\)\)\) as \*const ExtMetadataBlock(\w+)", lets[0] if lets else "")
            if not fl or not mp or not (fl.group(2) == mp.group(1) == mp.group(3)) or not lets[0].startswith(var + ".iter().filter("):
                raise Shape("extension_metadata.rs: %s: filter / map not understood" % key)
            d = dict(pairs)
            lname = [f for f, _ in pairs if f.startswith("let ")][0][4:]
            if d.get("len") != lname + ".len()" or not d.get("list", "").startswith("Box::into_raw(%s.into_boxed_slice())" % lname):
                raise Shape("extension_metadata.rs: %s: len / list not understood" % key)
            filters.append((m.group(1), fl.group(2)))
    dm = re.search(r"\bimpl\s+Default\s+for\s+DmData\s*\{", ext)
    if not dm:
        raise Shape("extension_metadata.rs: Default for DmData not found")
    dbody, _ = close_at(ext, dm.end() - 1, "{", "}")
    fb = fn_body(dbody, r"\bfn\s+default\s*\(", "extension_metadata.rs")
    _, dpairs = struct_literal(fb, "DmData", "extension_metadata.rs", "Default for DmData")
    if dpairs is None:
        raise Shape("extension_metadata.rs: Default for DmData: struct literal not found")
    buf = read(os.path.join(CS, "buffers.rs"))
    em = re.search(r"\bimpl\s+U16Data\s*\{", buf)
    if not em:
        raise Shape("buffers.rs: impl U16Data not found")
    ebody, _ = close_at(buf, em.end() - 1, "{", "}")
    eb = fn_body(ebody, r"\bfn\s+empty\s*\(", "buffers.rs")
    _, epairs = struct_literal(eb, "U16Data", "buffers.rs", "U16Data::empty")
    if epairs is None:
        raise Shape("buffers.rs: U16Data::empty: struct literal not found")

    # the translated conversions
    fns = []
    imap = {}
    for key, var, pairs in impls:
        imap.setdefault(key.split(" <- ")[0], []).append((key, var, pairs))
    for target in ORDER:
        cands = [x for x in imap.get(target, []) if x[0].split(" <- ")[1].startswith("&")]
        if len(cands) != 1:
            raise Shape("expected exactly one impl From<&..> for %s, found %d" % (target, len(cands)))
        key, var, pairs = cands[0]
        rfile, rname = RUST_SIDE[target]
        rtypes = rust_field_types(rname, rfile)
        ctypes = dict(sd[target])
        fields = [f for f, _ in pairs if not f.startswith("let ")]
        # (the order of the initialisers is free in Rust; the declaration order is tied by `source_cstructs_agree`)
        if sorted(fields) != sorted(f for f, _ in sd[target]):
            raise Shape("%s: the struct literal sets %s, the struct declares %s" % (key, fields, [f for f, _ in sd[target]]))
        out = []
        for f, e in pairs:
            if f.startswith("let "):
                continue
            out += translate_expr(target, var, f, e, rtypes, ctypes)
        name, arg_t, res_t = LEAN_FN[target]
        fns.append((name, var, arg_t, res_t, key, out))

    L = []
    L.append("import DoviModel.Model.CView")
    L.append("/-! GENERATED by tools/gen_source_cstructs.py from the Rust sources of /repo on every run — do not edit. -/")
    L.append("namespace Dovi.Src.CS")
    L.append("")
    L.append("/-- every `#[repr(C)]` struct of `c_structs/*.rs`: (field, C type as written) in declaration order -/")
    L.append("def structs : List (String × List (String × String)) := [")
    L.append(",\n".join("  (%s, %s)" % (lstr(n), lpairs(f)) for n, f in structs) + "]")
    L.append("")
    L.append("/-- the `#[repr(C)]` structs `ExtMetadataBlockLevelN` of `rpu/extension_metadata/blocks/levelN.rs` -/")
    L.append("def blockStructs : List (Nat × List (String × String)) := [")
    L.append(",\n".join("  (%d, %s)" % (n, lpairs(f)) for n, f in blocks) + "]")
    L.append("")
    L.append("/-- every `impl From<S> for T` of `c_structs/*.rs` (key `T <- S`): (C field, Rust expression) of the returned struct literal -/")
    L.append("def fromImpls : List (String × List (String × String)) := [")
    L.append(",\n".join("  (%s, %s)" % (lstr(k), lpairs(p)) for k, _, p in impls) + "]")
    L.append("")
    L.append("/-- `DmData::set_blocks`: (block variant, pointer field it is boxed into; \"\" = nothing) -/")
    L.append("def setBlocksArms : List (String × String) := " + lpairs(arms))
    L.append("")
    L.append("/-- `DmData::set_blocks`: (CM version, list assignment) -/")
    L.append("def setBlocksLists : List (String × String) := " + lpairs(lists))
    L.append("")
    L.append("/-- `LevelNBlockList::from(blocks)`: (list struct, variant kept by its filter; pointers in slice order, `len` = their number) -/")
    L.append("def listFilters : List (String × String) := " + lpairs(filters))
    L.append("")
    L.append("/-- `DmData::default()` -/")
    L.append("def dmDataDefault : List (String × String) := " + lpairs(dpairs))
    L.append("")
    L.append("/-- `U16Data::empty()` -/")
    L.append("def u16Empty : List (String × String) := " + lpairs(epairs))
    for name, var, arg_t, res_t, key, out in fns:
        L.append("")
        L.append("/-- `%s`, translated field by field -/" % key.replace(" <- ", "::from(") .__add__(")"))
        L.append("def %s (%s : %s) : %s :=" % (name, var, arg_t, res_t))
        L.append("  { " + ",\n    ".join("%s := %s" % (f, e) for f, e in out) + " }")
    L.append("")
    L.append("end Dovi.Src.CS")
    text = "\n".join(L) + "\n"
    os.makedirs(os.path.dirname(os.path.abspath(OUT)), exist_ok=True)
    old = open(OUT).read() if os.path.exists(OUT) else None
    if old != text:
        open(OUT, "w").write(text)
    print("gen_source_cstructs: %d structs, %d block structs, %d From impls, %d translated conversions -> %s%s" %
          (len(structs), len(blocks), len(impls), len(fns), OUT, "" if old != text else " (unchanged)"))


if __name__ == "__main__":
    try:
        main()
    except Shape as e:
        sys.stderr.write("gen_source_cstructs: unexpected source shape: %s\n" % e)
        sys.exit(2)
