#!/usr/bin/env python3
"""seedcheck.py <seed dir> <check id> [<check id> …]
Applies <seed dir>/patch.diff to /repo's working tree, runs the given quick checks, reverts the tree
(git -C /repo checkout -- .), prints for each check whether it raised a VIOLATION."""
import subprocess, sys, os, json, time

ROOT = os.path.dirname(os.path.dirname(os.path.abspath(__file__)))   # the tree this script belongs to

def main():
    seed = sys.argv[1]
    checks = sys.argv[2:]
    seed = os.path.abspath(seed)
    patch = os.path.join(seed, "patch.diff")
    st = subprocess.run(["git", "-C", "/repo", "status", "--short"], capture_output=True, text=True).stdout.strip()
    if st:
        print("refusing: /repo has uncommitted changes:\n" + st); return 2
    r = subprocess.run(["git", "-C", "/repo", "apply", patch], capture_output=True, text=True)
    if r.returncode != 0:
        print("patch does not apply:", r.stderr); return 2
    res = {}
    try:
        for c in checks:
            t0 = time.time()
            p = subprocess.run(["./check", c, "--tier", os.environ.get("TIER", "quick")], cwd=ROOT, capture_output=True, text=True, timeout=3600)
            lines = [l for l in p.stdout.splitlines() if l.startswith("VIOLATION") or l.startswith("CHECK-ERROR")]
            res[c] = {"rc": p.returncode, "violation_lines": lines[:3], "summary": p.stdout.strip().splitlines()[-1:] , "wall_s": round(time.time() - t0, 1)}
            print(c, "rc=%d" % p.returncode, lines[:1], p.stdout.strip().splitlines()[-1:])
    finally:
        subprocess.run(["git", "-C", "/repo", "checkout", "--", "."], check=True)
        # untracked files a patch may have added
        subprocess.run(["git", "-C", "/repo", "clean", "-fdq", "--", "src", "dolby_vision/src", "tests"], check=False)
    json.dump(res, open(os.path.join(seed, "check_result.json"), "w"), indent=1)
    return 0

if __name__ == "__main__":
    sys.exit(main())
