#!/usr/bin/env python3
"""Source pins: functions of /repo that the Lean model was written from but that the translators read only in part
(or not at all) are pinned by their whitespace- and comment-normalised text in tools/source_pins.json.

  check_source_pins.py [repo]            exit 0 when every pinned function still has the pinned text,
                                         exit 2 (message on stderr naming the function and the first difference) otherwise
  check_source_pins.py [repo] --update   rewrite the pins from the given tree (done by hand, never by a check)

A mismatch does not say that a property is violated — only that the code the model (or a translated fragment's
context) was written from has changed: the check reports it as a broken obligation and searches for a failing input,
exactly as for a translator that no longer understands a source shape. The pins close the gaps an audit found in the
fragment-wise translators: an early `return` in front of translated assignments, a `validate()` call removed from a
writer, the guard behind a translated table, functions the C-struct translator never read."""
import json, os, re, sys

HERE = os.path.dirname(os.path.abspath(__file__))
PINS = os.path.join(HERE, "source_pins.json")

# (file, regex matching the function signature up to its name)
FUNCTIONS = [
    ("dolby_vision/src/rpu/extension_metadata/blocks/level1.rs", r"fn\s+clamp_values_int\s*\("),
    ("dolby_vision/src/rpu/extension_metadata/blocks/level1.rs", r"pub\s+fn\s+from_stats_cm_version\s*\("),
    ("dolby_vision/src/rpu/extension_metadata/blocks/level6.rs", r"pub\s+fn\s+source_meta_from_l6\s*\("),
    ("dolby_vision/src/rpu/dovi_rpu.rs", r"pub\s+fn\s+convert_with_mode\s*<"),
    ("dolby_vision/src/rpu/dovi_rpu.rs", r"fn\s+convert_to_mel\s*\("),
    ("dolby_vision/src/rpu/dovi_rpu.rs", r"fn\s+p5_to_p81\s*\("),
    ("dolby_vision/src/rpu/dovi_rpu.rs", r"fn\s+write_rpu_data\s*\("),
    ("dolby_vision/src/rpu/rpu_data_mapping.rs", r"pub\s+fn\s+validate\s*\("),
    ("dolby_vision/src/rpu/rpu_data_nlq.rs", r"pub\s+fn\s+is_mel\s*\("),
    ("dolby_vision/src/rpu/vdr_dm_data.rs", r"pub\s+fn\s+change_source_levels\s*\("),
    ("dolby_vision/src/utils.rs", r"pub\s+fn\s+nits_to_pq\s*\("),
    ("dolby_vision/src/utils.rs", r"pub\s+fn\s+pq_to_nits\s*\("),
    ("dolby_vision/src/c_structs/extension_metadata.rs", r"fn\s+combine_dm_data\s*\("),
    ("dolby_vision/src/c_structs/extension_metadata.rs", r"fn\s+set_blocks\s*\("),
    ("dolby_vision/src/capi.rs", r"fn\s+dovi_rpu_get_header\s*\("),
    ("dolby_vision/src/capi.rs", r"fn\s+dovi_rpu_get_data_mapping\s*\("),
    ("dolby_vision/src/capi.rs", r"fn\s+dovi_rpu_get_vdr_dm_data\s*\("),
    ("dolby_vision/src/capi.rs", r"fn\s+dovi_convert_rpu_with_mode\s*\("),
    ("dolby_vision/src/rpu/generate.rs", r"pub\s+fn\s+copy_metadata_from_shot\s*\("),
    ("src/dovi/rpu_injector.rs", r"fn\s+finalize\s*\("),
    ("src/dovi/muxer.rs", r"fn\s+finalize\s*\("),
]
# every block level's `write` must begin by validating (levels without a validate() must not pretend to)
WRITERS = [("dolby_vision/src/rpu/extension_metadata/blocks/level%d.rs" % lv, lv) for lv in (1, 2, 3, 4, 5, 6, 8, 9, 10, 11, 254, 255)]


def strip_comments(s):
    s = re.sub(r"//[^\n]*", "", s)
    return re.sub(r"/\*.*?\*/", "", s, flags=re.S)


def body(src, sig):
    m = re.search(sig, src)
    if not m:
        return None
    i = src.index("{", m.end())
    depth = 0
    for j in range(i, len(src)):
        if src[j] == "{":
            depth += 1
        elif src[j] == "}":
            depth -= 1
            if depth == 0:
                return " ".join(src[i + 1:j].split())
    return None


def collect(repo):
    out = {}
    for f, sig in FUNCTIONS:
        try:
            src = strip_comments(open(os.path.join(repo, f)).read())
        except OSError:
            out["%s :: %s" % (f, sig)] = None
            continue
        out["%s :: %s" % (f, sig)] = body(src, sig)
    for f, lv in WRITERS:
        try:
            src = strip_comments(open(os.path.join(repo, f)).read())
        except OSError:
            out["%s :: write begins with validate" % f] = None
            continue
        wb = body(src, r"pub\s+fn\s+write\s*\(")
        has_validate = re.search(r"pub\s+fn\s+validate\s*\(", src) is not None
        out["%s :: write begins with validate" % f] = None if wb is None else \
            ("validate-first" if wb.startswith("self.validate()?;") else ("no-validate-fn" if not has_validate and "validate" not in wb else "NOT-FIRST"))
    return out


def main():
    args = [a for a in sys.argv[1:] if not a.startswith("--")]
    repo = args[0] if args else "/repo"
    cur = collect(repo)
    if "--update" in sys.argv:
        json.dump(cur, open(PINS, "w"), indent=1, sort_keys=True)
        print("pinned %d items" % len(cur))
        return 0
    try:
        pins = json.load(open(PINS))
    except (OSError, ValueError) as e:
        sys.stderr.write("check_source_pins: cannot read %s: %s\n" % (PINS, e))
        return 2
    bad = []
    for k, want in pins.items():
        got = cur.get(k)
        if got != want:
            if got is None or want is None:
                bad.append("%s: %s" % (k, "not found in the source" if got is None else "pin missing"))
            else:
                n = next((i for i, (a, b) in enumerate(zip(got, want)) if a != b), min(len(got), len(want)))
                bad.append("%s: text differs from the pinned text at character %d: now `%s` / pinned `%s`"
                           % (k, n, got[max(0, n - 40):n + 60], want[max(0, n - 40):n + 60]))
    for k in cur:
        if k not in pins:
            bad.append("%s: not pinned (run --update by hand after reviewing the model)" % k)
    if bad:
        sys.stderr.write("check_source_pins: %d pinned function(s) changed:\n  " % len(bad) + "\n  ".join(bad) + "\n")
        return 2
    return 0


if __name__ == "__main__":
    sys.exit(main())
