#!/usr/bin/env python3
"""Translator for the validation rules of the RPU structures: reads the Rust sources of /repo and regenerates
lean/DoviModel/Gen/SourceRules.lean —

  * `Src.blockFieldNames`  : the public fields of every `ExtMetadataBlockLevelN` in declaration order (without `length`),
  * `Src.blockValidate`    : every level's `validate()` as a Boolean function of the model's `Block`
                             (`ensure!` conditions, `if self.length > k {..} else {..}`, `matches!`, `CONST.contains`),
  * `Src.headerValidate`   : `RpuDataHeader::validate(profile)`,
  * `Src.dmValidate`       : `VdrDmData::validate()` (the field conditions; the two containers' `validate` are named),
  * `Src.cmv29Allowed/Counts`, `Src.cmv40Allowed/Counts` : `ALLOWED_BLOCK_LEVELS` and the per-level count limits of
                             `CmV29DmData::validate` / `CmV40DmData::validate`.

Props/SourceTie.lean proves each of them equal to the hand-written model definition for every argument; a source
edit that changes a bound, a comparison, a field, a level list or a count limit breaks that proof obligation.

usage: gen_source_rules.py [repo] [out]   (exit 2 when a source file no longer has the expected shape)"""
import os, re, sys

REPO = sys.argv[1] if len(sys.argv) > 1 else "/repo"
OUT = sys.argv[2] if len(sys.argv) > 2 else os.path.join(os.path.dirname(os.path.abspath(__file__)), "..", "lean", "DoviModel", "Gen", "SourceRules.lean")
RPU = os.path.join(REPO, "dolby_vision", "src", "rpu")
BL = os.path.join(RPU, "extension_metadata", "blocks")
LEVELS = [1, 2, 3, 4, 5, 6, 8, 9, 10, 11, 254, 255]


class Shape(Exception):
    pass


def strip_comments(s):
    s = re.sub(r"//[^\n]*", "", s)
    return re.sub(r"/\*.*?\*/", "", s, flags=re.S)


def block_at(src, i):
    """src[i] == '{' -> (inner text, index after the closing brace)"""
    depth = 0
    for j in range(i, len(src)):
        if src[j] == "{":
            depth += 1
        elif src[j] == "}":
            depth -= 1
            if depth == 0:
                return src[i + 1:j], j + 1
    raise Shape("unbalanced braces")


def paren_at(src, i):
    depth = 0
    for j in range(i, len(src)):
        if src[j] == "(":
            depth += 1
        elif src[j] == ")":
            depth -= 1
            if depth == 0:
                return src[i + 1:j], j + 1
    raise Shape("unbalanced parentheses")


def fn_body(src, signature_re, required=True):
    m = re.search(signature_re, src)
    if not m:
        if required:
            raise Shape("function not found: " + signature_re)
        return None
    return block_at(src, src.index("{", m.end()))[0]


def first_arg(args):
    """text of the first top-level comma separated argument"""
    depth = 0
    in_str = False
    for k, ch in enumerate(args):
        if in_str:
            if ch == '"' and args[k - 1] != "\\":
                in_str = False
            continue
        if ch == '"':
            in_str = True
        elif ch in "([{":
            depth += 1
        elif ch in ")]}":
            depth -= 1
        elif ch == "," and depth == 0:
            return args[:k]
    return args


def parse_stmts(body):
    """statement list of a `validate` body:
       ('ensure', expr) | ('if', cond, [then], [else] or None) | ('match', scrutinee, [(pattern, [stmts])]) |
       ('iflet', header text, inner text) | ('other', text)"""
    out = []
    i, n = 0, len(body)
    while i < n:
        if body[i].isspace() or body[i] == ";":
            i += 1
            continue
        rest = body[i:]
        if rest.startswith("ensure!"):
            j = body.index("(", i)
            args, i = paren_at(body, j)
            out.append(("ensure", first_arg(args).strip()))
        elif re.match(r"if\s+let\b", rest):
            j = body.index("{", i)
            inner, k = block_at(body, j)
            out.append(("iflet", body[i:j].strip(), inner.strip()))
            i = k
        elif re.match(r"if\b", rest):
            j = body.index("{", i)
            cond = body[i + 2:j].strip()
            inner, k = block_at(body, j)
            els = None
            m = re.match(r"\s*else\s*\{", body[k:])
            if m:
                e_inner, k = block_at(body, k + m.end() - 1)
                els = parse_stmts(e_inner)
            out.append(("if", cond, parse_stmts(inner), els))
            i = k
        elif re.match(r"for\b", rest):
            j = body.index("{", i)
            inner, k = block_at(body, j)
            out.append(("for", body[i:j].strip(), inner.strip()))
            i = k
        elif re.match(r"match\b", rest):
            j = body.index("{", i)
            scrut = body[i + 5:j].strip()
            inner, k = block_at(body, j)
            arms = []
            p = 0
            while p < len(inner):
                m = re.match(r"\s*([\w|\s]+?)\s*=>\s*", inner[p:])
                if not m:
                    if inner[p:].strip(" ,\n\t") == "":
                        break
                    raise Shape("match arm not understood: " + inner[p:p + 60])
                p += m.end()
                if inner[p] == "{":
                    a_inner, p = block_at(inner, p)
                    arms.append((m.group(1).strip(), parse_stmts(a_inner)))
                elif inner[p:].startswith("()"):
                    arms.append((m.group(1).strip(), []))
                    p += 2
                else:
                    raise Shape("match arm body not understood: " + inner[p:p + 60])
                while p < len(inner) and inner[p] in ", \n\t":
                    p += 1
            out.append(("match", scrut, arms))
            i = k
        else:
            j = body.find(";", i)
            j = n if j < 0 else j
            txt = body[i:j].strip()
            if txt:
                out.append(("other", txt))
            i = j + 1
    return out


class Ctx:
    """how `self.<field>` and constants are written in Lean"""
    def __init__(self, field, consts, int_literals):
        self.field, self.consts, self.int_literals = field, consts, int_literals


def lean_expr(e, cx):
    e = " ".join(e.split())
    # matches!(self.length, a | b | c)
    def matches(m):
        alts = [a.strip() for a in m.group(2).split("|")]
        return "(" + " || ".join("%s == %s" % (cx.field(m.group(1)), a) for a in alts) + ")"
    e = re.sub(r"matches!\(\s*self\.(\w+)\s*,\s*([\d\s|]+)\)", matches, e)
    # CONST.contains(&self.f)
    def contains(m):
        vals = cx.consts.get(m.group(1))
        if not isinstance(vals, list):
            raise Shape("unknown list constant " + m.group(1))
        ty = "Int" if cx.int_literals else "Nat"
        return "([%s] : List %s).contains (%s)" % (", ".join(map(str, vals)), ty, cx.field(m.group(2)))
    e = re.sub(r"(\w+)\.contains\(\s*&self\.(\w+)\s*\)", contains, e)
    e = re.sub(r"\(\s*(\w+)\s+as\s+\w+\s*\)", r"\1", e)
    e = re.sub(r"self\.(\w+)\.is_none\(\)", lambda m: "(%s).isNone" % cx.field(m.group(1)), e)
    e = re.sub(r"self\.(\w+)\.is_some\(\)", lambda m: "(%s).isSome" % cx.field(m.group(1)), e)
    e = re.sub(r"self\.(\w+)", lambda m: cx.field(m.group(1)), e)
    def const(m):
        w = m.group(0)
        if w in cx.consts and isinstance(cx.consts[w], int):
            return str(cx.consts[w])
        return w
    e = re.sub(r"\b[A-Z][A-Z0-9_]+\b", const, e)
    e = re.sub(r"(?<=\d)_(?=\d)", "", e)
    e = e.replace("<=", "≤").replace(">=", "≥")
    if re.search(r"[A-Z]{3,}|::|\?|\.iter\(|\bas\b", e):
        raise Shape("expression not understood: " + e)
    return e


def lean_stmts(stmts, cx, special=None):
    parts = []
    for s in stmts:
        if s[0] == "ensure":
            parts.append("(" + lean_expr(s[1], cx) + ")")
        elif s[0] == "if":
            c = lean_expr(s[1], cx)
            t = lean_stmts(s[2], cx, special)
            if s[3] is None:
                parts.append("(!(%s) || %s)" % (c, t))
            else:
                parts.append("(if %s then %s else %s)" % (c, t, lean_stmts(s[3], cx, special)))
        elif s[0] == "match":
            arms = []
            wild = False
            for pat, body in s[2]:
                if pat == "_":
                    wild = True
                    arms.append("| _ => " + lean_stmts(body, cx, special))
                else:
                    for alt in pat.split("|"):
                        arms.append("| %s => %s" % (alt.strip(), lean_stmts(body, cx, special)))
            if not wild:
                raise Shape("match without a wildcard arm")
            parts.append("(match %s with %s)" % (s[1].strip(), " ".join(arms)))
        elif s[0] in ("iflet", "for"):
            if special is None:
                raise Shape("%s not expected here: %s" % (s[0], s[1]))
            r = special(s)
            if r:
                parts.append(r)
        elif s[0] == "other":
            if s[1] in ("Ok(())",):
                continue
            if special is not None:
                r = special(s)
                if r is not None:
                    if r:
                        parts.append(r)
                    continue
            raise Shape("statement not understood: " + s[1][:80])
    return " && ".join(parts) if parts else "true"


def read_consts():
    consts = {}
    for root in (BL, os.path.join(RPU, "extension_metadata"), RPU):
        for f in sorted(os.listdir(root)):
            if not f.endswith(".rs"):
                continue
            src = strip_comments(open(os.path.join(root, f)).read())
            for m in re.finditer(r"const\s+(\w+)\s*:\s*[ui]\d+\s*=\s*([\d_]+)\s*;", src):
                consts.setdefault(m.group(1), int(m.group(2).replace("_", "")))
            for m in re.finditer(r"const\s+(\w+)\s*:\s*&(?:'static\s+)?\[[ui]\d+\]\s*=\s*&\[([\d_,\s]+)\]\s*;", src):
                consts.setdefault(m.group(1), [int(x.replace("_", "")) for x in m.group(2).split(",") if x.strip()])
    return consts


def struct_fields(src, name):
    m = re.search(r"pub\s+struct\s+%s\s*\{" % name, src)
    if not m:
        raise Shape("struct not found: " + name)
    inner, _ = block_at(src, m.end() - 1)
    inner = re.sub(r"#\[[^\]]*\]", "", inner)
    return re.findall(r"pub\s+(\w+)\s*:", inner)


def container_rules(path):
    src = strip_comments(open(path).read())
    m = re.search(r"ALLOWED_BLOCK_LEVELS\s*:\s*&'static\s*\[u8\]\s*=\s*&\[([\d,\s]+)\]", src)
    if not m:
        raise Shape("ALLOWED_BLOCK_LEVELS not found in " + path)
    allowed = [int(x) for x in m.group(1).split(",") if x.strip()]
    body = fn_body(src, r"pub\s+fn\s+validate\s*\(")
    names = {}
    for m in re.finditer(r"let\s+(\w+)\s*=\s*blocks\s*\.iter\(\)\s*\.filter\(\|b\|\s*b\.level\(\)\s*==\s*(\d+)\)\s*\.count\(\)", body):
        names[m.group(1)] = int(m.group(2))
    if not re.search(r"let\s+invalid_blocks_count\s*=\s*blocks\s*\.iter\(\)\s*\.filter\(\|b\|\s*!Self::ALLOWED_BLOCK_LEVELS\.contains\(&b\.level\(\)\)\)\s*\.count\(\)", body):
        raise Shape("invalid_blocks_count no longer counts the blocks outside ALLOWED_BLOCK_LEVELS in " + path)
    counts = []
    seen_invalid = False
    for s in parse_stmts(body):
        if s[0] == "ensure":
            m = re.fullmatch(r"(\w+)\s*(<=|==|<)\s*(\d+)", " ".join(s[1].split()))
            if not m:
                raise Shape("count rule not understood: " + s[1])
            if m.group(1) == "invalid_blocks_count":
                if (m.group(2), m.group(3)) != ("==", "0"):
                    raise Shape("invalid_blocks_count rule changed")
                seen_invalid = True
            elif m.group(1) in names:
                op, k = m.group(2), int(m.group(3))
                if op == "<":
                    op, k = "<=", k - 1
                counts.append((names[m.group(1)], op == "==", k))
            else:
                raise Shape("unknown counter " + m.group(1))
        elif s[0] == "other" and (s[1].startswith("let ") or s[1] == "Ok(())"):
            continue
        else:
            raise Shape("statement not understood in container validate: " + str(s)[:80])
    if not seen_invalid:
        raise Shape("no rule on invalid_blocks_count in " + path)
    return allowed, counts


def main():
    try:
        consts = read_consts()
        names, rules = {}, {}
        for lv in LEVELS:
            src = strip_comments(open(os.path.join(BL, "level%d.rs" % lv)).read())
            fields = [f for f in struct_fields(src, "ExtMetadataBlockLevel%d" % lv) if f != "length"]
            names[lv] = fields

            def fld(name, fields=fields, lv=lv):
                if name == "length":
                    return "b.length"
                if name not in fields:
                    raise Shape("level%d: unknown field %s" % (lv, name))
                return "v %d" % fields.index(name)
            body = fn_body(src, r"pub\s+fn\s+validate\s*\(", required=False)
            rules[lv] = "true" if body is None else lean_stmts(parse_stmts(body), Ctx(fld, consts, True))
        # header
        hsrc = strip_comments(open(os.path.join(RPU, "rpu_data_header.rs")).read())
        hfields = struct_fields(hsrc, "RpuDataHeader")

        def hfld(name):
            if name not in hfields:
                raise Shape("header: unknown field " + name)
            return "h." + name
        header = lean_stmts(parse_stmts(fn_body(hsrc, r"pub\s+fn\s+validate\s*\(")), Ctx(hfld, consts, False))
        # vdr_dm_data
        dsrc = strip_comments(open(os.path.join(RPU, "vdr_dm_data.rs")).read())
        wnames = re.findall(r"write(?:_signed)?_n\(\s*&self\.(\w+)\s*,\s*\d+\s*\)", fn_body(dsrc, r"pub\s+fn\s+write\s*\("))
        if len(wnames) != 32:
            raise Shape("vdr_dm_data write: %d fields" % len(wnames))

        def dfld(name):
            if name in ("affected_dm_metadata_id", "compressed"):
                return "d." + name
            if name not in wnames:
                raise Shape("vdr_dm_data: unknown field " + name)
            return "d.main.getD %d 0" % wnames.index(name)

        def dspecial(s):
            t = " ".join((s[1] + " { " + s[2] + " }").split()) if s[0] == "iflet" else s[1]
            if re.fullmatch(r"if let Some\((\w+)\) = &self\.cmv29_metadata \{ \1\.validate\(\)\? ?;? \}", t):
                return "(match d.cmv29 with | some c => c.validate29 | none => true)"
            if re.fullmatch(r"if let Some\((\w+)\) = &self\.cmv40_metadata \{ \1\.validate\(\)\? ?;? \}", t):
                return "(match d.cmv40 with | some c => c.validate40 | none => true)"
            raise Shape("vdr_dm_data validate: statement not understood: " + t[:80])
        dm = lean_stmts(parse_stmts(fn_body(dsrc, r"pub\s+fn\s+validate\s*\(")), Ctx(dfld, consts, True), dspecial)
        # ---- RpuDataMapping::validate(profile): everything except the per-curve loop
        mpsrc = strip_comments(open(os.path.join(RPU, "rpu_data_mapping.rs")).read())
        mfields = struct_fields(mpsrc, "RpuDataMapping")

        def mfld(name):
            if name not in mfields:
                raise Shape("mapping: unknown field " + name)
            return "m." + name
        loops = []

        def mspecial(s):
            if s[0] == "for":
                loops.append(" ".join(s[1].split()))
                return "LOOP"
            if s[0] == "iflet":
                t = " ".join((s[1] + " { " + s[2] + " }").split())
                mm_ = re.fullmatch(r"if let Some\((\w+)\) = self\.nlq_pred_pivot_value \{ ensure!\( \1\.iter\(\)\.sum::<u16>\(\) == (\d+), \"[^\"]*\" \); \}", t)
                if mm_:
                    return "(match m.nlq_pred_pivot_value with | some pv => pv.foldl (· + ·) 0 %% 65536 == %s | none => true)" % mm_.group(2)
            raise Shape("mapping validate: statement not understood: " + str(s)[:100])
        mv = lean_stmts(parse_stmts(fn_body(mpsrc, r"pub\s+fn\s+validate\s*\(")), Ctx(mfld, consts, False), mspecial)
        if loops != ["for curve in &self.curves"] or mv.count("LOOP") != 1:
            raise Shape("mapping validate: expected exactly one loop over self.curves, found %s" % loops)
        mv_head, mv_tail = mv.split(" && LOOP && ")
        # ---- profile classification: nested `match` / `if … { n } else { m }` with integer results
        def value_expr(body):
            b = body.strip()
            if re.fullmatch(r"\d+", b):
                return b
            m = re.match(r"match\s+self\.(\w+)\s*\{", b)
            if m:
                inner, k = block_at(b, m.end() - 1)
                if b[k:].strip():
                    raise Shape("text after match: " + b[k:][:40])
                arms, q = [], 0
                while q < len(inner):
                    mm = re.match(r"\s*(\d+|_)\s*=>\s*", inner[q:])
                    if not mm:
                        if inner[q:].strip(" ,\n\t") == "":
                            break
                        raise Shape("profile arm not understood: " + inner[q:q + 40])
                    q += mm.end()
                    if inner[q] == "{":
                        a, q = block_at(inner, q)
                        arms.append((mm.group(1), value_expr(a)))
                    else:
                        m2 = re.match(r"(\d+)", inner[q:])
                        if not m2:
                            raise Shape("profile arm value not understood")
                        arms.append((mm.group(1), m2.group(1)))
                        q += m2.end()
                    while q < len(inner) and inner[q] in ", \n\t":
                        q += 1
                return "(match %s with %s)" % (hfld(m.group(1)), " ".join("| %s => %s" % a for a in arms))
            m = re.match(r"if\s+(.*?)\s*\{", b, flags=re.S)
            if m:
                t, k = block_at(b, m.end() - 1)
                m2 = re.match(r"\s*else\s*\{", b[k:])
                if not m2:
                    raise Shape("if without else in a value position")
                e, k2 = block_at(b, k + m2.end() - 1)
                if b[k2:].strip():
                    raise Shape("text after if/else")
                return "(if %s then %s else %s)" % (lean_expr(m.group(1), Ctx(hfld, consts, False)), value_expr(t), value_expr(e))
            raise Shape("value expression not understood: " + b[:60])
        profile = value_expr(fn_body(hsrc, r"pub\s+fn\s+get_dovi_profile\s*\("))
        # ---- is_mel: `let x = self.f.iter().all(|e| *e == K);` … and a final conjunction of those names
        nsrc = strip_comments(open(os.path.join(RPU, "rpu_data_nlq.rs")).read())
        mb = fn_body(nsrc, r"pub\s+fn\s+is_mel\s*\(")
        lets = dict((a, (f, int(k))) for a, f, k in re.findall(r"let\s+(\w+)\s*=\s*self\.(\w+)\.iter\(\)\.all\(\|e\|\s*\*e\s*==\s*(\d+)\)\s*;", mb))
        tail = re.sub(r"let\s+\w+\s*=[^;]*;", "", mb).strip()
        conj = [t.strip() for t in tail.split("&&")]
        if not lets or any(c not in lets for c in conj):
            raise Shape("is_mel not understood: " + tail[:80])
        mel = " && ".join("n.%s.all (· == %d)" % lets[c] for c in conj)
        # ---- sort keys
        skeys = {}
        for lv in LEVELS:
            src = strip_comments(open(os.path.join(BL, "level%d.rs" % lv)).read())
            lb = fn_body(src, r"fn\s+level\s*\(\s*&self\s*\)")
            if lb.strip() != str(lv):
                raise Shape("level%d.rs: level() returns %s" % (lv, lb.strip()))
            kb = fn_body(src, r"fn\s+sort_key\s*\(", required=False)
            if kb is None:
                skeys[lv] = None
            else:
                m = re.fullmatch(r"\(\s*self\.level\(\)\s*,\s*self\.(\w+)(?:\s+as\s+u16)?\s*\)", kb.strip())
                if not m or m.group(1) not in names[lv]:
                    raise Shape("level%d.rs: sort_key not understood: %s" % (lv, kb.strip()))
                skeys[lv] = names[lv].index(m.group(1))
        msrc = strip_comments(open(os.path.join(BL, "mod.rs")).read())
        dk = fn_body(msrc, r"fn\s+sort_key\s*\(\s*&self\s*\)\s*->\s*\(u8,\s*u16\)")
        if dk.strip() != "(self.level(), 0)":
            raise Shape("default sort_key changed: " + dk.strip())
        # ---- conversion modes: `From<u8> for ConversionMode` and the profiles each mode accepts in `convert_with_mode`
        rsrc = strip_comments(open(os.path.join(RPU, "mod.rs")).read())
        m = re.search(r"impl\s+From<u8>\s+for\s+ConversionMode\s*\{", rsrc)
        if not m:
            raise Shape("From<u8> for ConversionMode not found")
        fb = fn_body(block_at(rsrc, m.end() - 1)[0], r"fn\s+from\s*\(")
        mm = re.search(r"match\s+mode\s*\{", fb)
        inner = block_at(fb, mm.end() - 1)[0]
        mode_of = []
        for pat, tgt in re.findall(r"([\d\s|_]+?)\s*=>\s*ConversionMode::(\w+)\s*,", inner):
            for alt in pat.split("|"):
                mode_of.append((alt.strip(), tgt))
        if not mode_of or mode_of[-1][0] != "_":
            raise Shape("From<u8> for ConversionMode: arms not understood")
        LEAN_MODE = {"Lossless": ".lossless", "ToMel": ".toMel", "To81": ".to81", "To84": ".to84", "To81MappingPreserved": ".to81MappingPreserved"}
        csrc = strip_comments(open(os.path.join(RPU, "dovi_rpu.rs")).read())
        cb = fn_body(csrc, r"pub\s+fn\s+convert_with_mode\s*<")
        mm = re.search(r"let\s+valid_conversion\s*=\s*match\s+mode\s*\{", cb)
        if not mm:
            raise Shape("convert_with_mode: valid_conversion match not found")
        inner = block_at(cb, mm.end() - 1)[0]
        accepts = {}
        q = 0
        while q < len(inner):
            am = re.match(r"\s*ConversionMode::(\w+)\s*=>\s*", inner[q:])
            if not am:
                if inner[q:].strip(" ,\n\t") == "":
                    break
                raise Shape("convert_with_mode arm not understood: " + inner[q:q + 50])
            q += am.end()
            if inner[q] == "{":
                body, q = block_at(inner, q)
            else:
                m2 = re.match(r"match\s+self\.dovi_profile\s*\{", inner[q:])
                if m2:
                    b2, q2 = block_at(inner, q + m2.end() - 1)
                    body, q = inner[q:q2], q2
                else:
                    m3 = re.match(r"(true|false)", inner[q:])
                    if not m3:
                        raise Shape("convert_with_mode arm value not understood")
                    body, q = m3.group(1), q + m3.end()
            while q < len(inner) and inner[q] in ", \n\t":
                q += 1
            body = body.strip()
            m4 = re.search(r"match\s+self\.dovi_profile\s*\{", body)
            if m4:
                arms_txt = block_at(body, m4.end() - 1)[0]
                profs, r_ = [], 0
                while r_ < len(arms_txt):
                    pm = re.match(r"\s*([\d\s|_]+?)\s*=>\s*", arms_txt[r_:])
                    if not pm:
                        if arms_txt[r_:].strip(" ,\n\t") == "":
                            break
                        raise Shape("profile arm not understood")
                    r_ += pm.end()
                    if arms_txt[r_] == "{":
                        ab, r_ = block_at(arms_txt, r_)
                    else:
                        vm = re.match(r"(true|false)", arms_txt[r_:])
                        ab, r_ = vm.group(1), r_ + vm.end()
                    while r_ < len(arms_txt) and arms_txt[r_] in ", \n\t":
                        r_ += 1
                    last = ab.strip().split()[-1] if ab.strip() else ""
                    if last not in ("true", "false"):
                        raise Shape("profile arm does not end in true/false")
                    if last == "true":
                        if pm.group(1).strip() == "_":
                            raise Shape("wildcard profile arm accepts")
                        profs += [int(x) for x in pm.group(1).split("|")]
                accepts[am.group(1)] = sorted(profs)
            elif re.match(r"if\s+matches!\(\s*self\.dovi_profile\s*,\s*([\d\s|]+)\)\s*\{", body):
                m5 = re.match(r"if\s+matches!\(\s*self\.dovi_profile\s*,\s*([\d\s|]+)\)\s*\{", body)
                t_, k_ = block_at(body, m5.end() - 1)
                m6 = re.match(r"\s*else\s*\{\s*false\s*\}\s*$", body[k_:])
                if not m6 or t_.strip().split()[-1] != "true":
                    raise Shape("convert_with_mode: guarded arm not understood")
                accepts[am.group(1)] = sorted(int(x) for x in m5.group(1).split("|"))
            elif body == "true" or body.split()[-1] == "true" and "if" not in body and "match" not in body:
                accepts[am.group(1)] = None      # every profile
            else:
                raise Shape("convert_with_mode arm not understood: " + body[:60])
        if set(accepts) != set(LEAN_MODE):
            raise Shape("convert_with_mode: modes %s" % sorted(accepts))
        # ---- ExtMetadataBlockLevel6::source_meta_from_l6: two `let x = self.f;`, an if/else-if chain and a match
        l6src = strip_comments(open(os.path.join(BL, "level6.rs")).read())
        l6b = fn_body(l6src, r"pub\s+fn\s+source_meta_from_l6\s*\(")
        l6names = names[6]
        alias = dict((a, f) for a, f in re.findall(r"let\s+(\w+)\s*=\s*self\.(\w+)\s*;", l6b))
        mm_ = re.search(r"let\s+source_min_pq\s*=\s*(if\b.*?\})\s*;", l6b, flags=re.S)
        mx_ = re.search(r"let\s+source_max_pq\s*=\s*match\s+(\w+)\s*\{(.*?)\}\s*;", l6b, flags=re.S)
        if not mm_ or not mx_ or not re.search(r"\(\s*source_min_pq\s*,\s*source_max_pq\s*\)\s*$", l6b.strip()):
            raise Shape("source_meta_from_l6 not understood")

        def l6v(a):
            if a not in alias or alias[a] not in l6names:
                raise Shape("source_meta_from_l6: unknown name " + a)
            return "(b.vals.getD %d 0)" % l6names.index(alias[a])
        chain = mm_.group(1)
        parts_ = re.findall(r"(?:if|else\s+if)\s+(\w+)\s*(<=|==|<|>=|>)\s*(\d+)\s*\{\s*(\d+)\s*\}", chain)
        last_ = re.search(r"else\s*\{\s*(\d+)\s*\}\s*$", chain)
        if not parts_ or not last_ or len(re.findall(r"\bif\b", chain)) != len(parts_):
            raise Shape("source_meta_from_l6: min chain not understood")
        min_expr = ""
        for a, op_, k_, v_ in parts_:
            min_expr += "if %s %s %s then %s else " % (l6v(a), {"<=": "≤", ">=": "≥"}.get(op_, op_), k_, v_)
        min_expr += last_.group(1)
        arms_ = re.findall(r"(\d+|_)\s*=>\s*(\d+)\s*,", mx_.group(2))
        if not arms_ or arms_[-1][0] != "_":
            raise Shape("source_meta_from_l6: max match not understood")
        max_expr = ""
        for k_, v_ in arms_[:-1]:
            max_expr += "if %s == %s then %s else " % (l6v(mx_.group(1)), k_, v_)
        max_expr += arms_[-1][1]
        # ---- constants and the L1 clamp
        l1src = strip_comments(open(os.path.join(BL, "level1.rs")).read())
        cbody = fn_body(l1src, r"fn\s+clamp_values_int\s*\(")
        m = re.search(r"let\s+avg_min_value\s*=\s*match\s+cm_version\s*\{\s*CmVersion::V29\s*=>\s*(\w+)\s*,\s*CmVersion::V40\s*=>\s*(\w+)\s*,?\s*\}", cbody)
        if not m:
            raise Shape("clamp_values_int: avg_min_value match not understood")
        clamp_lets = ["let avg_min_value : Int := if cmv40 then %d else %d" % (consts[m.group(2)], consts[m.group(1)])]
        assigns = re.findall(r"self\.(\w+)\s*=\s*self\.(\w+)\.clamp\(\s*([^,]+?)\s*,\s*([^;]+?)\s*\)\s*;", cbody)
        if [a for a, _, _, _ in assigns] != ["min_pq", "max_pq", "avg_pq"] or any(a != b for a, b, _, _ in assigns):
            raise Shape("clamp_values_int: assignments not understood: %s" % assigns)

        def cexpr(t):
            t = re.sub(r"self\.(\w+)", r"\1", t.strip())
            t = re.sub(r"\b[A-Z][A-Z0-9_]+\b", lambda mm: str(consts[mm.group(0)]) if isinstance(consts.get(mm.group(0)), int) else mm.group(0), t)
            if not re.fullmatch(r"[\w\s\-+]+", t) or re.search(r"[A-Z]{3,}", t):
                raise Shape("clamp bound not understood: " + t)
            return t
        for a, _, lo, hi in assigns:
            clamp_lets.append("let %s : Int := min (max %s (%s)) (%s)" % (a, a, cexpr(lo), cexpr(hi)))
        usrc = strip_comments(open(os.path.join(REPO, "dolby_vision", "src", "utils.rs")).read())
        from fractions import Fraction
        st = {}
        for nm in ("ST2084_Y_MAX", "ST2084_M1", "ST2084_M2", "ST2084_C1", "ST2084_C2", "ST2084_C3"):
            m = re.search(r"const\s+%s\s*:\s*f64\s*=\s*([^;]+);" % nm, usrc)
            if not m or not re.fullmatch(r"[\d\.\s/*()]+", m.group(1)):
                raise Shape("constant %s not understood" % nm)
            st[nm] = eval(re.sub(r"(\d+\.\d+|\d+)", r"Fraction('\1')", m.group(1)), {"Fraction": Fraction})
        asrc = strip_comments(open(os.path.join(REPO, "dolby_vision", "src", "av1", "mod.rs")).read())
        m = re.search(r"const\s+ITU_T35_DOVI_RPU_PAYLOAD_HEADER\s*:\s*&\[u8\]\s*=\s*&\[([^\]]+)\]", asrc)
        if not m:
            raise Shape("ITU_T35_DOVI_RPU_PAYLOAD_HEADER not found")
        t35 = [int(x.strip(), 0) for x in m.group(1).split(",") if x.strip()]
        a29, c29 = container_rules(os.path.join(RPU, "extension_metadata", "cmv29.rs"))
        a40, c40 = container_rules(os.path.join(RPU, "extension_metadata", "cmv40.rs"))
    except (Shape, OSError, ValueError, AttributeError, IndexError) as e:
        sys.stderr.write("gen_source_rules: source no longer has the expected shape: %s\n" % e)
        return 2

    o = "import DoviModel.Model.RpuWrite\nimport DoviModel.Model.Ops\n"
    o += "/-! GENERATED by tools/gen_source_rules.py from the Rust sources of /repo on every run — do not edit. -/\nnamespace Dovi.Src\n\n"
    o += "/-- public fields of `ExtMetadataBlockLevelN` in declaration order (without `length`) -/\ndef blockFieldNames (level : Nat) : List String :=\n  match level with\n"
    for lv in LEVELS:
        o += "  | %d => [%s]\n" % (lv, ", ".join('"%s"' % f for f in names[lv]))
    o += "  | _ => []\n\n"
    o += "/-- `ExtMetadataBlockLevelN::validate()`; `v i` is the i-th struct field -/\ndef blockValidate (b : Dovi.Block) : Bool :=\n  let v (i : Nat) : Int := b.vals.getD i 0\n  match b.level with\n"
    for lv in LEVELS:
        o += "  | %d => %s\n" % (lv, rules[lv])
    o += "  | _ => true\n\n"
    o += "/-- `RpuDataHeader::validate(profile)` -/\ndef headerValidate (h : Dovi.Header) (profile : Nat) : Bool :=\n  %s\n\n" % header
    o += "/-- `VdrDmData::validate()`; main-payload fields by their position in `write` -/\ndef dmValidate (d : Dovi.DmData) : Bool :=\n  %s\n\n" % dm

    def lst(xs):
        return "[" + ", ".join(map(str, xs)) + "]"

    def cnt(cs):
        return "[" + ", ".join("(%d, %s, %d)" % (l, "true" if eq else "false", k) for l, eq, k in cs) + "]"
    o += "/-- `CmV29DmData::ALLOWED_BLOCK_LEVELS` -/\ndef cmv29Allowed : List Nat := %s\n" % lst(a29)
    o += "/-- `CmV29DmData::validate`: (level, exact count?, bound) in source order -/\ndef cmv29Counts : List (Nat × Bool × Nat) := %s\n" % cnt(c29)
    o += "/-- `CmV40DmData::ALLOWED_BLOCK_LEVELS` -/\ndef cmv40Allowed : List Nat := %s\n" % lst(a40)
    o += "/-- `CmV40DmData::validate`: (level, exact count?, bound) in source order -/\ndef cmv40Counts : List (Nat × Bool × Nat) := %s\n" % cnt(c40)
    o += "\n/-- `RpuDataMapping::validate(profile)`: the rules before and after the per-curve loop -/\n"
    o += "def mappingValidateHead (m : Dovi.Mapping) (profile : Nat) : Bool :=\n  %s\n" % mv_head
    o += "def mappingValidateTail (m : Dovi.Mapping) : Bool :=\n  %s\n" % mv_tail
    o += "\n/-- `RpuDataHeader::get_dovi_profile` -/\ndef getDoviProfile (h : Dovi.Header) : Nat :=\n  %s\n" % profile
    o += "\n/-- `RpuDataNlq::is_mel` -/\ndef isMel (n : Dovi.Nlq) : Bool :=\n  %s\n" % mel
    o += "\n/-- per level: the struct field (index) used as second component of `sort_key()`; none = the default `(level, 0)` -/\n"
    o += "def sortKeyField : List (Nat × Option Nat) := [%s]\n" % ", ".join("(%d, %s)" % (lv, "none" if skeys[lv] is None else "some %d" % skeys[lv]) for lv in LEVELS)
    o += "\n/-- `From<u8> for ConversionMode` -/\ndef modeOfU8 (n : Nat) : Dovi.Mode :=\n  match n with\n"
    for pat, tgt in mode_of:
        o += "  | %s => %s\n" % (pat, LEAN_MODE[tgt])
    o += "\n/-- `convert_with_mode`: the profiles for which `valid_conversion` is true (none = every profile) -/\n"
    o += "def modeAccepts : Dovi.Mode → Option (List Nat)\n"
    for k in ("Lossless", "ToMel", "To81", "To84", "To81MappingPreserved"):
        o += "  | %s => %s\n" % (LEAN_MODE[k], "none" if accepts[k] is None else "some " + lst(accepts[k]))
    o += "\n/-- `ExtMetadataBlockLevel6::source_meta_from_l6` on the model's L6 block -/\n"
    o += "def sourceMetaFromL6 (b : Dovi.Block) : Int × Int :=\n  ((%s),\n   (%s))\n" % (min_expr, max_expr)
    o += "\n/-- `ExtMetadataBlockLevel1::clamp_values_int` on (min_pq, max_pq, avg_pq); `x.clamp(lo, hi)` = `min (max x lo) hi` -/\n"
    o += "def clampL1 (cmv40 : Bool) (min_pq max_pq avg_pq : Int) : Int × Int × Int :=\n"
    for l in clamp_lets:
        o += "  %s\n" % l
    o += "  (min_pq, max_pq, avg_pq)\n\n"
    o += "/-- the L1 limits of level1.rs -/\ndef l1Consts : List (String × Nat) := [%s]\n\n" % ", ".join(
        '("%s", %d)' % (k, consts[k]) for k in ("L1_MIN_PQ_MAX_VALUE", "L1_MAX_PQ_MIN_VALUE", "L1_MAX_PQ_MAX_VALUE", "L1_AVG_PQ_MIN_VALUE", "L1_AVG_PQ_MIN_VALUE_CMV40"))
    o += "/-- utils.rs: the ST 2084 constants as exact reduced fractions (numerator, denominator) -/\n"
    for nm in ("ST2084_Y_MAX", "ST2084_M1", "ST2084_M2", "ST2084_C1", "ST2084_C2", "ST2084_C3"):
        o += "def %s : Nat × Nat := (%d, %d)\n" % (nm.lower(), st[nm].numerator, st[nm].denominator)
    o += "\n/-- av1/mod.rs: `ITU_T35_DOVI_RPU_PAYLOAD_HEADER` -/\ndef ituT35Header : List Nat := %s\n" % lst(t35)
    o += "\nend Dovi.Src\n"
    os.makedirs(os.path.dirname(OUT), exist_ok=True)
    old = open(OUT).read() if os.path.exists(OUT) else None
    if old != o:
        open(OUT, "w").write(o)
    return 0


if __name__ == "__main__":
    sys.exit(main())
