#!/bin/bash
# runs every claimed quick check for several seeds; prints the ones that raise an alarm
cd "$(dirname "$0")/.."
for seed in ${SEEDS:-1 2 3 4 5}; do
  for p in $(python3 -c "import json; print(' '.join(c['property_id'] for c in json.load(open('MANIFEST.json'))['checks']))"); do
    out=$(VERIF_SEED=$seed timeout 3000 ./check $p --tier ${TIER:-quick} 2>&1 | tail -3)
    rc=$?
    echo "$out" | grep -q VIOLATION && echo "ALARM seed=$seed $p: $out"
    echo "$out" | tail -1
  done
done
