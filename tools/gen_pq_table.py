#!/usr/bin/env python3-vt
"""Generates /verif/lean/DoviModel/Model/PqTable.lean: the certified ST 2084 (PQ) tables of property C19.

What is generated (see DESIGN.md section 7, C19):

* for every tie point j + 1/2 (j = 0..4094) between two 12-bit codes, two dyadic luminances
  yDown(j) < yUp(j) (normalised luminance y = nits/10000, denominators 2^SY) and two dyadic t-domain
  witnesses aDown(j), aUp(j) (denominators 2^KT) such that the *integer* inequalities

      yDown^1305 <= tDown^8192 ,  M(tDown)^2523 < ((j + 1/2 - mu)/4095)^32          (certLt)
      tUp^8192   <= yUp^1305   ,  ((j + 1/2 + mu)/4095)^32 < M(tUp)^2523            (certGt)

  hold, where M(t) = (c1 + c2 t)/(1 + c3 t), PQ(y) = M(y^(1305/8192))^(2523/32) and mu = 10^-6.  They imply
  4095*PQ(yDown) < j + 1/2 - mu and 4095*PQ(yUp) > j + 1/2 + mu; by monotonicity every real luminance in
  [yUp(c-1), yDown(c)] has |4095*PQ - c| < 1/2 - mu.
* the integer code tables round(4095*PQ(n)) for n = 0..10000 nits and for k/10000 nits (k = 0..10000);
  their certificate is membership of the exact rational in the bracket [yUp(c-1), yDown(c)].
* for every multiple of 50 nits (50..9950) the floor code f with f < 4095*PQ(h) < f+1 and the two t-domain
  witnesses; these decide on which side of a rounding threshold (to 100 / 1000 nits) the exact luminance of a
  12-bit code lies (summary strings of rpu_info.rs).

High-precision floating point (mpmath, 70 digits) is used only to *find* the witnesses.  Every inequality is
then re-checked here in exact integer arithmetic (the same expressions the Lean kernel evaluates); the script
aborts if one fails.  Usage: python3-vt tools/gen_pq_table.py [--no-verify]
"""
import os
import sys
from concurrent.futures import ProcessPoolExecutor

from mpmath import mp, mpf, floor, ceil

mp.dps = 70

KT = 40          # t-domain denominators 2^KT
SY = 64          # y-domain denominators 2^SY
MU_DEN = 10 ** 6  # certified margin mu = 1/MU_DEN (code units)
GAP = 3          # witnesses are placed at j + 1/2 -/+ GAP*mu

M1 = mpf(1305) / 8192
M2 = mpf(2523) / 32
C1 = mpf(107) / 128
C2 = mpf(2413) / 128
C3 = mpf(2392) / 128

OUT = os.path.join(os.path.dirname(os.path.dirname(os.path.abspath(__file__))), "lean", "DoviModel", "Model", "PqTable.lean")


def pq_of_y(y):
    t = y ** M1 if y > 0 else mpf(0)
    return ((C1 + C2 * t) / (1 + C3 * t)) ** M2


def y_of_pq(p):
    xp = p ** (1 / M2)
    return ((xp - C1) / (C2 - C3 * xp)) ** (1 / M1)


# exact integer checkers (identical to the Lean definitions) ------------------------------------

def g_num(a):
    return 107 * 2 ** KT + 2413 * a


def g_den(a):
    return 128 * 2 ** KT + 2392 * a


def cert_lt(yn, yd, a, pn, pd):
    return (yn ** 1305 * (2 ** KT) ** 8192 <= a ** 8192 * yd ** 1305) and \
           (g_num(a) ** 2523 * pd ** 32 < pn ** 32 * g_den(a) ** 2523)


def cert_gt(yn, yd, a, pn, pd):
    return (a ** 8192 * yd ** 1305 <= yn ** 1305 * (2 ** KT) ** 8192) and \
           (pn ** 32 * g_den(a) ** 2523 < g_num(a) ** 2523 * pd ** 32)


P_DEN = 4095 * MU_DEN


def p_down(j):
    return (2 * j + 1) * (MU_DEN // 2) - 1


def p_up(j):
    return (2 * j + 1) * (MU_DEN // 2) + 1


def boundary(j):
    mu = mpf(1) / MU_DEN
    yd_ = y_of_pq((j + mpf(1) / 2 - GAP * mu) / 4095)
    nd = int(floor(yd_ * 2 ** SY))
    ad = int(ceil((mpf(nd) / 2 ** SY) ** M1 * 2 ** KT)) + 1
    yu_ = y_of_pq((j + mpf(1) / 2 + GAP * mu) / 4095)
    nu = int(ceil(yu_ * 2 ** SY))
    au = int(floor((mpf(nu) / 2 ** SY) ** M1 * 2 ** KT)) - 1
    return (nd, ad, au, nu)


def verify_boundary(args):
    j, (nd, ad, au, nu) = args
    return j, cert_lt(nd, 2 ** SY, ad, p_down(j), P_DEN) and cert_gt(nu, 2 ** SY, au, p_up(j), P_DEN) and nd < nu


def threshold(i):
    # h = 50*i nits, y = i/200
    y = mpf(i) / 200
    e = 4095 * pq_of_y(y)
    f = int(floor(e))
    t = y ** M1
    a_lo = int(floor(t * 2 ** KT)) - 1
    a_hi = int(ceil(t * 2 ** KT)) + 1
    return (f, a_lo, a_hi)


def verify_threshold(args):
    i, (f, a_lo, a_hi) = args
    return i, cert_gt(i, 200, a_lo, f, 4095) and cert_lt(i, 200, a_hi, f + 1, 4095)


def in_bracket(bnd, yn, yd, c):
    ok = c <= 4095 and yn <= yd and yd > 0
    if c != 0:
        ok = ok and bnd[c - 1][3] * yd <= yn * 2 ** SY
    if c != 4095:
        ok = ok and yn * 2 ** SY <= bnd[c][0] * yd
    return ok


def pack(rows, widths, per_chunk):
    """rows: list of tuples; field k occupies widths[k] bits; row r of a chunk sits at bit r*sum(widths)"""
    roww = sum(widths)
    chunks = []
    for s in range(0, len(rows), per_chunk):
        w = 0
        for r, row in enumerate(rows[s:s + per_chunk]):
            off = r * roww
            for v, wd in zip(row, widths):
                assert 0 <= v < (1 << wd), (v, wd)
                w |= v << off
                off += wd
        chunks.append(w)
    return chunks


def lean_chunked(name, rows, widths, per_chunk, doc):
    """`name i` = the Nat literal holding rows [i*per_chunk, (i+1)*per_chunk), selected by a balanced tree of
    `cond (Nat.ble k i)` decisions on literals (`Nat.ble` on literals is one GMP-accelerated kernel step).  (Inside the kernel, list/array indexing costs milliseconds per access and a
    single 900-kbit literal takes the parser most of a minute; a decision tree over medium-sized literals costs
    microseconds on both counts.)"""
    chunks = pack(rows, widths, per_chunk)

    def tree(lo, hi, ind):
        pad = " " * ind
        if hi - lo == 1:
            return "%s0x%x" % (pad, chunks[lo])
        mid = (lo + hi) // 2
        return "%scond (Nat.ble %d i)\n%s\n%s" % (pad, mid, tree(mid, hi, ind + 1).replace(pad + " ", pad + " (", 1) + ")", tree(lo, mid, ind + 1).replace(pad + " ", pad + " (", 1) + ")")

    return "/-- %s (%d rows per literal) -/\ndef %s (i : Nat) : Nat :=\n%s" % (doc, per_chunk, name, tree(0, len(chunks), 2))


TEMPLATE_HEAD = r'''/-!
# PQ (SMPTE ST 2084) certificate tables — property C19

GENERATED by `/verif/tools/gen_pq_table.py`; do not edit by hand.  Core Lean only (no Mathlib): this module is
imported by the model driver.

The tables are *data plus integer checkers*.  Nothing here is trusted: `Proofs/PqCert.lean` evaluates the
checkers in the kernel (`decide +kernel`) and `Proofs/PqReal.lean` lifts a successful check to the real-number
statement about `nitsToPq` (the lemmas `nitsToPq_lt_of_certLt`, `nitsToPq_gt_of_certGt`).

Notation: `y = nits / 10000`, `t = y ^ (1305/8192)`, `M t = (c1 + c2 t) / (1 + c3 t)`,
`PQ y = (M t) ^ (2523/32)`; `mu = 10⁻⁶` is the certified margin in code units.
-/
set_option maxRecDepth 100000
namespace Dovi.PqTable

/-! ## ST 2084 constants as exact rationals (numerator, denominator) -/
/-- `ST2084_M1 = 2610/16384` -/
def m1 : Nat × Nat := (1305, 8192)
/-- `ST2084_M2 = 2523/4096*128` -/
def m2 : Nat × Nat := (2523, 32)
/-- `ST2084_C1 = 3424/4096` -/
def c1 : Nat × Nat := (107, 128)
/-- `ST2084_C2 = 2413/4096*32` -/
def c2 : Nat × Nat := (2413, 128)
/-- `ST2084_C3 = 2392/4096*32` -/
def c3 : Nat × Nat := (2392, 128)

/-- t-domain witnesses are `a / 2^KT` -/
def KT : Nat := @KT@
/-- y-domain witnesses of the tie points are `n / 2^SY` -/
def SY : Nat := @SY@

/-- numerator of `M (a / 2^KT)` over the common denominator `128 · 2^KT` -/
def gNum (a : Nat) : Nat := 107 * 2 ^ KT + 2413 * a
/-- denominator of `M (a / 2^KT)` -/
def gDen (a : Nat) : Nat := 128 * 2 ^ KT + 2392 * a

/-- certificate for `PQ (yn/yd) < pn/pd` with t-domain witness `a / 2^KT`:
`(yn/yd)^1305 ≤ (a/2^KT)^8192` and `M(a/2^KT)^2523 < (pn/pd)^32` -/
def certLt (yn yd a pn pd : Nat) : Bool :=
  decide (yn ^ 1305 * (2 ^ KT) ^ 8192 ≤ a ^ 8192 * yd ^ 1305) &&
  decide (gNum a ^ 2523 * pd ^ 32 < pn ^ 32 * gDen a ^ 2523)

/-- certificate for `pn/pd < PQ (yn/yd)` with t-domain witness `a / 2^KT`:
`(a/2^KT)^8192 ≤ (yn/yd)^1305` and `(pn/pd)^32 < M(a/2^KT)^2523` -/
def certGt (yn yd a pn pd : Nat) : Bool :=
  decide (a ^ 8192 * yd ^ 1305 ≤ yn ^ 1305 * (2 ^ KT) ^ 8192) &&
  decide (pn ^ 32 * gDen a ^ 2523 < gNum a ^ 2523 * pd ^ 32)

/-! ## Tie points `j + 1/2`, `j = 0..4094`
row `j` = `(yDown, aDown, aUp, yUp)`, packed 68 + 44 + 44 + 68 bits; 64 rows per literal -/
'''

TEMPLATE_MID = r'''
/-- the 224-bit row of tie point `j`.  (Written with `Nat.div`, `Nat.mod`, `Nat.shiftRight` applied directly:
each is a single GMP-accelerated kernel step, without the type-class unfolding of `/`, `%`, `>>>`.) -/
def bndWord (j : Nat) : Nat := Nat.shiftRight (bndChunk (Nat.div j 64)) (Nat.mul (Nat.mod j 64) 224)

/-- `yDown j / 2^SY` is a luminance whose exact code value is below `j + 1/2 - mu` -/
def yDown (j : Nat) : Nat := Nat.mod (bndWord j) 0x100000000000000000
def aDown (j : Nat) : Nat := Nat.mod (Nat.shiftRight (bndWord j) 68) 0x100000000000
def aUp (j : Nat) : Nat := Nat.mod (Nat.shiftRight (bndWord j) 112) 0x100000000000
/-- `yUp j / 2^SY` is a luminance whose exact code value is above `j + 1/2 + mu` -/
def yUp (j : Nat) : Nat := Nat.mod (Nat.shiftRight (bndWord j) 156) 0x100000000000000000

/-- `withNat n f = f n`; inside the kernel (which evaluates by name) the match forces `n` to a literal once,
instead of once per occurrence in `f` -/
def withNat {α : Type} (n : Nat) (f : Nat → α) : α :=
  match n with
  | 0 => f 0
  | k + 1 => f (k + 1)

theorem withNat_eq {α : Type} (n : Nat) (f : Nat → α) : withNat n f = f n := by
  cases n <;> rfl

/-- the margin `mu = 1 / muDen` (code units) -/
def muDen : Nat := @MUDEN@
def pDen : Nat := 4095 * muDen
/-- `(j + 1/2 - mu) / 4095 = pDown j / pDen` -/
def pDown (j : Nat) : Nat := (2 * j + 1) * (muDen / 2) - 1
/-- `(j + 1/2 + mu) / 4095 = pUp j / pDen` -/
def pUp (j : Nat) : Nat := (2 * j + 1) * (muDen / 2) + 1

/-- the certificate of tie point `j` -/
def bndCheck (j : Nat) : Bool :=
  certLt (yDown j) (2 ^ SY) (aDown j) (pDown j) pDen &&
  certGt (yUp j) (2 ^ SY) (aUp j) (pUp j) pDen

/-- `yn/yd` (normalised luminance, at most 1) lies in the certified bracket of code `c`:
`yUp (c-1) ≤ y ≤ yDown c` (no lower bound for code 0, no upper bound for code 4095) -/
def inBracket (yn yd c : Nat) : Bool :=
  decide (c ≤ 4095) && decide (0 < yd) && decide (yn ≤ yd) &&
  (c == 0 || decide (yUp (c - 1) * yd ≤ yn * 2 ^ SY)) &&
  (c == 4095 || decide (yn * 2 ^ SY ≤ yDown c * yd))

/-- binary search for the smallest `c` with `y ≤ yDown c` (4095 if there is none) -/
def searchGo (yn yd : Nat) : Nat → Nat → Nat → Nat
  | 0, lo, _ => lo
  | fuel + 1, lo, hi =>
    if lo ≥ hi then lo else
    let mid := (lo + hi) / 2
    if yn * 2 ^ SY ≤ yDown mid * yd then searchGo yn yd fuel lo mid else searchGo yn yd fuel (mid + 1) hi

/-- the certified 12-bit code of the normalised luminance `yn/yd`; `none` inside one of the (6·10⁻⁶ code units
wide) gaps around the tie points, or outside `[0, 1]` -/
def codeOfRat (yn yd : Nat) : Option Nat :=
  let c := searchGo yn yd 13 0 4095
  if inBracket yn yd c then some c else none

/-! ## Code tables: integer nits `0..10000` and min-luminance `k/10000` nits, `k = 0..10000`
12 bits per entry, 256 entries per literal -/
'''

TEMPLATE_TAIL = r'''
/-- `round (4095 · PQ (n / 10000))` for integer nits `n ≤ 10000` -/
def codeOfNits (n : Nat) : Nat := Nat.mod (Nat.shiftRight (nitsChunk (Nat.div n 256)) (Nat.mul (Nat.mod n 256) 12)) 4096
/-- `round (4095 · PQ (k / 10⁸))` for the min-luminance `k/10000` nits, `k ≤ 10000` -/
def codeOfMinLum (k : Nat) : Nat := Nat.mod (Nat.shiftRight (minLumChunk (Nat.div k 256)) (Nat.mul (Nat.mod k 256) 12)) 4096

def nitsCheck (n : Nat) : Bool := withNat (codeOfNits n) fun c => inBracket n 10000 c
def minLumCheck (k : Nat) : Bool := withNat (codeOfMinLum k) fun c => inBracket k 100000000 c

/-! ## Rounding thresholds `50·i` nits, `i = 1..199`
row `i` = `(floor code f, aLo, aHi)` packed 12 + 44 + 44 bits at bit `100·i` of one literal (row 0 unused);
certificate: `f/4095 < PQ (i/200) < (f+1)/4095` -/
@THR@

def thrFloor (i : Nat) : Nat := Nat.mod (Nat.shiftRight thrBig (Nat.mul i 100)) 4096
def thrALo (i : Nat) : Nat := Nat.mod (Nat.shiftRight thrBig (Nat.add (Nat.mul i 100) 12)) 0x100000000000
def thrAHi (i : Nat) : Nat := Nat.mod (Nat.shiftRight thrBig (Nat.add (Nat.mul i 100) 56)) 0x100000000000

def thrCheck (i : Nat) : Bool :=
  certGt i 200 (thrALo i) (thrFloor i) 4095 && certLt i 200 (thrAHi i) (thrFloor i + 1) 4095

/-- binary search for the smallest `k ≤ hi` with `k = hi ∨ c ≤ thrFloor (a·k + b)`, i.e. the exact luminance of
code `c` is below the threshold `50·(a·k + b)` nits.  (The result is *checked* by `round100Check` /
`round1000Check`; the theorems do not depend on the search being right.) -/
def roundGo (c a b : Nat) : Nat → Nat → Nat → Nat
  | 0, lo, _ => lo
  | fuel + 1, lo, hi =>
    if lo ≥ hi then lo else
    withNat ((lo + hi) / 2) fun mid =>
      if c ≤ thrFloor (a * mid + b) then roundGo c a b fuel lo mid else roundGo c a b fuel (mid + 1) hi

/-- `round (pqToNits (c/4095) / 100)`: thresholds at `100k + 50 = 50·(2k+1)` -/
def nitsRound100 (c : Nat) : Nat := roundGo c 2 1 8 0 100
/-- `round (pqToNits (c/4095) / 1000)`: thresholds at `1000k + 500 = 50·(20k+10)` -/
def nitsRound1000 (c : Nat) : Nat := roundGo c 20 10 5 0 10

def round100Check (c : Nat) : Bool :=
  withNat (nitsRound100 c) fun k =>
  decide (k ≤ 100) && (k == 0 || decide (thrFloor (2 * k - 1) < c)) && (k == 100 || decide (c ≤ thrFloor (2 * k + 1)))
def round1000Check (c : Nat) : Bool :=
  withNat (nitsRound1000 c) fun k =>
  decide (k ≤ 10) && (k == 0 || decide (thrFloor (20 * k - 10) < c)) && (k == 10 || decide (c ≤ thrFloor (20 * k + 10)))

end Dovi.PqTable
'''


def main():
    verify = "--no-verify" not in sys.argv
    print("computing tie-point witnesses ...", file=sys.stderr)
    bnd = [boundary(j) for j in range(4095)]
    thr = [(0, 0, 0)] + [threshold(i) for i in range(1, 200)]
    nits = []
    minlum = []
    for n in range(10001):
        nits.append(int(floor(4095 * pq_of_y(mpf(n) / 10000) + mpf(1) / 2)))
        minlum.append(int(floor(4095 * pq_of_y(mpf(n) / 10 ** 8) + mpf(1) / 2)))
    # monotone, ends
    assert nits[0] == 0 and nits[10000] == 4095 and all(a <= b for a, b in zip(nits, nits[1:]))
    assert minlum[0] == 0 and all(a <= b for a, b in zip(minlum, minlum[1:]))
    for j in range(4094):
        assert bnd[j][3] < bnd[j + 1][0], j      # brackets are non-empty and ordered
    for n in range(10001):
        assert in_bracket(bnd, n, 10000, nits[n]), ("nits", n)
        assert in_bracket(bnd, n, 10 ** 8, minlum[n]), ("minlum", n)
    if verify:
        print("exact integer verification of %d tie points and %d thresholds ..." % (len(bnd), len(thr) - 1), file=sys.stderr)
        with ProcessPoolExecutor(max_workers=min(16, os.cpu_count() or 1)) as ex:
            for j, ok in ex.map(verify_boundary, list(enumerate(bnd)), chunksize=32):
                if not ok:
                    raise SystemExit("tie point %d: certificate does not check" % j)
            for i, ok in ex.map(verify_threshold, list(enumerate(thr))[1:], chunksize=8):
                if not ok:
                    raise SystemExit("threshold %d: certificate does not check" % i)
    out = []
    out.append(TEMPLATE_HEAD.replace("@KT@", str(KT)).replace("@SY@", str(SY)))
    out.append(lean_chunked("bndChunk", bnd, [68, 44, 44, 68], 64, "packed tie-point rows"))
    out.append(TEMPLATE_MID.replace("@MUDEN@", str(MU_DEN)))
    out.append(lean_chunked("nitsChunk", [(c,) for c in nits], [12], 256, "packed codes of the integer nits 0..10000"))
    out.append("")
    out.append(lean_chunked("minLumChunk", [(c,) for c in minlum], [12], 256, "packed codes of k/10000 nits, k = 0..10000"))
    out.append(TEMPLATE_TAIL.replace("@THR@", "/-- packed threshold rows -/\ndef thrBig : Nat :=\n  0x%x" % pack(thr, [12, 44, 44], len(thr))[0]))
    open(OUT, "w").write("\n".join(out))
    print("wrote %s (%d bytes)" % (OUT, os.path.getsize(OUT)), file=sys.stderr)


if __name__ == "__main__":
    main()
