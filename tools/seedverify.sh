#!/bin/sh
# seedverify.sh <ID> <k> ['demo command' (default: sh <out>/run_demo.sh)]
# Confirms a candidate seeded change in its scratch worktree /tmp/seed/<ID>:
#   (1) patch applies and the workspace builds, (2) the 108 existing tests pass with it,
#   (3) the demonstration fails with the change, (4) passes without it.
# Prints one line per step; exit 0 iff all four hold.
ID=$1; K=$2
WT=/tmp/seed/$ID; OUT=/tmp/seed/$ID-out/change$K
DEMOCMD=${3:-"sh $OUT/run_demo.sh"}
cd $WT || exit 2
git checkout -q -- . ; git clean -fdq -- src dolby_vision/src tests 2>/dev/null
git apply $OUT/patch.diff || { echo "STEP1 patch-apply FAIL"; exit 1; }
echo "STEP1 patch-apply ok"
T=$(CARGO_NET_OFFLINE=true timeout 3000 cargo test --workspace --no-fail-fast --offline 2>&1 | grep -E "^test result" )
echo "$T"
P=$(echo "$T" | sed -n 's/.* \([0-9]*\) passed.*/\1/p' | paste -sd+ | bc)
F=$(echo "$T" | sed -n 's/.* \([0-9]*\) failed.*/\1/p' | paste -sd+ | bc)
echo "STEP2 tests passed=$P failed=$F"
CARGO_NET_OFFLINE=true cargo build --offline >/dev/null 2>&1
sh -c "$DEMOCMD" > /tmp/seed/$ID-out/change$K.with.log 2>&1; RC1=$?
echo "STEP3 demo-with-change rc=$RC1 (want nonzero)"; tail -3 /tmp/seed/$ID-out/change$K.with.log
git checkout -q -- . ; git clean -fdq -- src dolby_vision/src tests 2>/dev/null
CARGO_NET_OFFLINE=true cargo build --offline >/dev/null 2>&1
sh -c "$DEMOCMD" > /tmp/seed/$ID-out/change$K.without.log 2>&1; RC2=$?
echo "STEP4 demo-without-change rc=$RC2 (want 0)"; tail -3 /tmp/seed/$ID-out/change$K.without.log
[ "$P" = "108" ] && [ "$F" = "0" ] && [ $RC1 -ne 0 ] && [ $RC2 -eq 0 ] && { echo "CONFIRMED $ID change$K"; exit 0; }
echo "NOT-CONFIRMED $ID change$K"; exit 1
