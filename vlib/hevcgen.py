"""Synthetic Annex-B HEVC / Dolby Vision stream generator (C05, C06, C07, C18).

Pure Python, deterministic from a `common.Lcg`.  Nothing in here calls the tool under test; the only
things taken from the repository are the three parameter-set NAL units of
assets/hevc_tests/regular.hevc (lifted at run time) so that the tool's slice-header parser has a real
SPS/PPS to work with.  See README-hevcgen.md for the knobs.

Vocabulary
  Nal      one NAL unit: bytes (header + escaped payload), the start-code length used when rendering,
           the number of trailing zero bytes written after it, and a role tag
  Au       one access unit = one frame: list of Nal + the generator's own labels
           (decode index, period, full POC, slice type, RPU index)
  Stream   list of Au + the display order computed from the POCs the generator chose
"""
import os

from . import common, specgen

# NAL unit types
TRAIL_N, TRAIL_R, TSA_N, TSA_R, STSA_N, STSA_R, RADL_N, RADL_R, RASL_N, RASL_R = range(10)
BLA_W_LP, BLA_W_RADL, BLA_N_LP, IDR_W_RADL, IDR_N_LP, CRA = 16, 17, 18, 19, 20, 21
VPS, SPS, PPS, AUD, EOS, EOB, FD, SEI_PREFIX, SEI_SUFFIX = 32, 33, 34, 35, 36, 37, 38, 39, 40
UNSPEC62, UNSPEC63 = 62, 63
SLICE_TYPES = set(range(0, 10)) | set(range(16, 22))
SLICE_B, SLICE_P, SLICE_I = 0, 1, 2

EL_PREFIX = b"\x7e\x01"
RPU_PREFIX = b"\x7c\x01"
HDR10PLUS_HEAD = bytes([0xB5, 0x00, 0x3C, 0x00, 0x01, 0x04, 0x01])
SAFE = 0xAA  # filler byte that never needs emulation prevention


# ---------------------------------------------------------------------------------------------
# bits, emulation prevention
# ---------------------------------------------------------------------------------------------

class BitReader:
    def __init__(self, b):
        self.b = b
        self.p = 0

    def u(self, n):
        v = 0
        for _ in range(n):
            v = (v << 1) | ((self.b[self.p >> 3] >> (7 - (self.p & 7))) & 1)
            self.p += 1
        return v

    def ue(self):
        z = 0
        while self.u(1) == 0:
            z += 1
        return (1 << z) - 1 + self.u(z) if z else 0


class BitWriter:
    def __init__(self):
        self.bits = []

    def u(self, n, v):
        for i in range(n - 1, -1, -1):
            self.bits.append((v >> i) & 1)

    def ue(self, v):
        v += 1
        n = v.bit_length()
        self.u(n - 1, 0)
        self.u(n, v)

    def aligned(self):
        return len(self.bits) % 8 == 0

    def bytes(self):
        b = self.bits[:]
        while len(b) % 8:
            b.append(0)
        return bytes(int("".join(map(str, b[i:i + 8])), 2) for i in range(0, len(b), 8))


def bits_of(data):
    return [(x >> (7 - i)) & 1 for x in data for i in range(8)]


def bytes_of(bits):
    bits = list(bits)
    while len(bits) % 8:
        bits.append(0)
    return bytes(int("".join(map(str, bits[i:i + 8])), 2) for i in range(0, len(bits), 8))


def esc(b):
    """emulation prevention over a whole NAL unit (2 header bytes never escaped)"""
    o = bytearray()
    z = 0
    for x in b:
        if len(o) > 2 and z >= 2 and x <= 3:
            o.append(3)
            z = 0
        o.append(x)
        z = z + 1 if x == 0 else 0
    return bytes(o)


def unesc(b):
    o = bytearray()
    z = 0
    for x in b:
        if z >= 2 and x == 3:
            z = 0
            continue
        o.append(x)
        z = z + 1 if x == 0 else 0
    return bytes(o)


# ---------------------------------------------------------------------------------------------
# Annex-B framing (independent of the tool)
# ---------------------------------------------------------------------------------------------

def split_nals(data):
    """Annex B byte stream -> [(start_code_len, nal_bytes)].

    A NAL unit starts after each 00 00 01 and extends to the next 00 00 01 (or the end of the data);
    every zero byte in front of the next start code (zero_byte / trailing_zero_8bits) is framing and
    not part of the NAL unit, so all trailing zeros are stripped.  start_code_len is 4 when the byte in
    front of the 00 00 01 is zero, else 3."""
    starts = []
    i = 0
    n = len(data)
    find = data.find
    while True:
        j = find(b"\x00\x00\x01", i)
        if j < 0:
            break
        starts.append(j)
        i = j + 3
    out = []
    for k, s in enumerate(starts):
        e = starts[k + 1] if k + 1 < len(starts) else n
        body = data[s + 3:e].rstrip(b"\x00")
        out.append((4 if s > 0 and data[s - 1] == 0 else 3, bytes(body)))
    return out


def nal_type(nal):
    return (nal[0] >> 1) & 0x3F


def nal_seq(data):
    """[(type, nal bytes)] of a byte stream"""
    return [(nal_type(p), p) for _, p in split_nals(data) if len(p)]


def nal_seq_file(path):
    with open(path, "rb") as fh:
        return nal_seq(fh.read())


class Nal:
    __slots__ = ("data", "sc", "tz", "role")

    def __init__(self, data, role, sc=4, tz=0):
        self.data = bytes(data)
        self.role = role
        self.sc = sc
        self.tz = tz

    @property
    def type(self):
        return nal_type(self.data)

    def size(self):
        return self.sc + len(self.data) + self.tz

    def stretch(self, k):
        """grow the NAL by k filler bytes (in front of its last byte); only for slice-like NALs"""
        assert k >= 0
        self.data = self.data[:-1] + bytes([SAFE]) * k + self.data[-1:]

    def copy(self):
        return Nal(self.data, self.role, self.sc, self.tz)

    def render(self):
        return (b"\x00" if self.sc == 4 else b"") + b"\x00\x00\x01" + self.data + b"\x00" * self.tz

    def __repr__(self):
        return "Nal(%s t=%d len=%d sc=%d tz=%d)" % (self.role, self.type, len(self.data), self.sc, self.tz)


def render(nals):
    return b"".join(n.render() for n in nals)


def seq_of(nals):
    """the (type, bytes) sequence a correct splitter sees for a list of Nal"""
    return [(n.type, n.data) for n in nals]


# ---------------------------------------------------------------------------------------------
# parameter sets
# ---------------------------------------------------------------------------------------------

class ParamSets:
    """VPS/SPS/PPS lifted from a real stream, plus the few fields a slice header depends on"""

    def __init__(self, path=None):
        path = path or os.path.join(common.REPO, "assets", "hevc_tests", "regular.hevc")
        with open(path, "rb") as fh:
            src = fh.read(400000)
        nals = [p for _, p in split_nals(src)]
        self.vps = next(p for p in nals if nal_type(p) == VPS)
        self.sps = next(p for p in nals if nal_type(p) == SPS)
        self.pps = next(p for p in nals if nal_type(p) == PPS)
        self._parse_sps()
        self._parse_pps()

    def _parse_sps(self):
        raw = unesc(self.sps)
        r = BitReader(raw[2:])
        r.u(4)
        msl = r.u(3)
        r.u(1)
        assert msl == 0, "generator expects sps_max_sub_layers_minus1 == 0"
        r.u(96)  # profile_tier_level(1, 0)
        self.sps_id = r.ue()
        chroma = r.ue()
        self.sep = r.u(1) if chroma == 3 else 0
        self.width = r.ue()
        self.height = r.ue()
        if r.u(1):
            for _ in range(4):
                r.ue()
        r.ue()
        r.ue()
        self._poc_field_start = 16 + r.p   # bit position inside the unescaped NAL
        self.log2_max_poc_lsb = r.ue() + 4
        self._poc_field_end = 16 + r.p
        r.u(1)
        r.ue(); r.ue(); r.ue()
        log2_min_cb = r.ue() + 3
        log2_ctb = log2_min_cb + r.ue()
        cw = (self.width + (1 << log2_ctb) - 1) >> log2_ctb
        ch = (self.height + (1 << log2_ctb) - 1) >> log2_ctb
        self.ctbs = cw * ch
        self.addr_bits = max(0, (self.ctbs - 1).bit_length())

    def _parse_pps(self):
        r = BitReader(unesc(self.pps)[2:])
        self.pps_id = r.ue()
        assert r.ue() == self.sps_id
        self.dependent_enabled = r.u(1)
        self.output_flag_present = r.u(1)
        self.extra_bits = r.u(3)

    def sps_with_poc_bits(self, n):
        """the same SPS with log2_max_pic_order_cnt_lsb = n (4..16); the following fields are shifted"""
        assert 4 <= n <= 16
        if n == self.log2_max_poc_lsb:
            return self.sps
        bits = bits_of(unesc(self.sps))
        stop = len(bits) - 1 - bits[::-1].index(1)   # rbsp_stop_one_bit
        w = BitWriter()
        w.ue(n - 4)
        new = bits[:self._poc_field_start] + w.bits + bits[self._poc_field_end:stop] + [1]
        return esc(bytes_of(new))


class Codec:
    """parameter sets in force for one generated stream (possibly with a modified POC LSB width)"""

    def __init__(self, ps, poc_bits=None):
        self.ps = ps
        self.poc_bits = poc_bits or ps.log2_max_poc_lsb
        self.vps = ps.vps
        self.sps = ps.sps_with_poc_bits(self.poc_bits)
        self.pps = ps.pps

    def slice_nal(self, ntype, poc, slice_type, tid=0, first=True, addr=0, dependent=False, filler=b"",
                  nonfirst_slice_type=None):
        """hand-written slice segment header followed by filler payload.
        Fields written: first_slice_segment_in_pic_flag, [no_output_of_prior_pics_flag], pps id,
        [dependent_slice_segment_flag, slice_segment_address], reserved bits, slice_type,
        [pic_output_flag], [colour_plane_id], [slice_pic_order_cnt_lsb]; then a 1 bit, alignment, filler and
        a final 0x80 byte, all escaped."""
        ps = self.ps
        assert 0 <= tid <= 6, "nuh_temporal_id_plus1 is 1..7"
        w = BitWriter()
        w.u(1, 0); w.u(6, ntype); w.u(6, 0); w.u(3, tid + 1)
        w.u(1, 1 if first else 0)
        if 16 <= ntype <= 23:
            w.u(1, 0)
        w.ue(ps.pps_id)
        dep = False
        if not first:
            if ps.dependent_enabled:
                dep = bool(dependent)
                w.u(1, 1 if dep else 0)
            w.u(ps.addr_bits, addr)
        if not dep:
            w.u(ps.extra_bits, 0)
            w.ue(slice_type if first or nonfirst_slice_type is None else nonfirst_slice_type)
            if ps.output_flag_present:
                w.u(1, 1)
            if ps.sep:
                w.u(2, 0)
            if ntype not in (IDR_W_RADL, IDR_N_LP):
                w.u(self.poc_bits, poc % (1 << self.poc_bits))
        w.u(1, 1)
        body = w.bytes() + bytes(filler) + b"\x80"
        return esc(body)

    def param_nals(self, which="vsp", sc=4):
        m = {"v": (self.vps, "vps"), "s": (self.sps, "sps"), "p": (self.pps, "pps")}
        return [Nal(m[c][0], m[c][1], sc) for c in which]


def aud_nal(slice_type, canonical=True):
    """access unit delimiter; canonical = the pic_type the tool itself regenerates from the slice type"""
    pic = {SLICE_I: 0, SLICE_P: 1, SLICE_B: 2}[slice_type] if canonical else 2
    return bytes([AUD << 1, 1, (pic << 5) | 0x10])


def canonical_aud_for(slice_type):
    return aud_nal(slice_type, True)


def eos_nal():
    return bytes([EOS << 1, 1])


def eob_nal():
    return bytes([EOB << 1, 1])


def wrap_el(nal):
    return EL_PREFIX + nal


# ---------------------------------------------------------------------------------------------
# SEI
# ---------------------------------------------------------------------------------------------

def sei_message(ptype, payload):
    b = bytearray()
    t = ptype
    while t >= 255:
        b.append(0xFF)
        t -= 255
    b.append(t)
    s = len(payload)
    while s >= 255:
        b.append(0xFF)
        s -= 255
    b.append(s)
    return bytes(b) + bytes(payload)


def sei_nal(messages, ntype=SEI_PREFIX, tid=0):
    """messages: list of (payload_type, payload bytes)"""
    body = bytes([ntype << 1, tid + 1]) + b"".join(sei_message(t, p) for t, p in messages) + b"\x80"
    return esc(body)


def parse_sei(nal):
    """independent SEI walker (H.265 7.3.5): [(payload_type, payload bytes)] of an escaped SEI NAL unit.
    Stops at the rbsp trailing bits (a final 0x80 byte)."""
    d = unesc(nal)
    i = 2
    out = []
    while i < len(d) and not (i == len(d) - 1 and d[i] == 0x80):
        t = 0
        while d[i] == 0xFF:
            t += 255
            i += 1
        t += d[i]
        i += 1
        s = 0
        while d[i] == 0xFF:
            s += 255
            i += 1
        s += d[i]
        i += 1
        if i + s > len(d):
            raise ValueError("SEI payload overruns the NAL unit")
        out.append((t, bytes(d[i:i + s])))
        i += s
    return out


def is_hdr10plus(msg):
    t, p = msg
    return t == 4 and len(p) >= 7 and p[:7] == HDR10PLUS_HEAD


def drop_hdr10plus_reference(nal):
    """what --drop-hdr10plus must do to one prefix SEI NAL: returns None (NAL dropped), the same bytes
    (no ST 2094-40 message inside) or the rewritten NAL"""
    msgs = parse_sei(nal)
    keep = [m for m in msgs if not is_hdr10plus(m)]
    if len(keep) == len(msgs):
        return nal
    if not keep:
        return None
    d = unesc(nal)
    return esc(d[:2] + b"".join(sei_message(t, p) for t, p in keep) + b"\x80")


PAYLOAD_STYLES = ("zeros", "emul", "random", "safe", "ff")


def payload_bytes(rng, n, style):
    if style == "zeros":      # long zero runs: an escape byte every second byte
        return bytes(rng.choice([0, 0, 0, 0, 1]) for _ in range(n))
    if style == "emul":       # 00 00 0x patterns and literal 00 00 03 sequences
        return bytes(rng.choice([0, 0, 0, 1, 2, 3, 3, 4, 0x80]) for _ in range(n))
    if style == "ff":         # 0xFF bytes inside payloads (must not be taken for size extension bytes)
        return bytes(rng.choice([0xFF, 0xFF, 0, 0x7F, 3]) for _ in range(n))
    if style == "safe":
        return bytes([SAFE]) * n
    return rng.bytes(n)


SEI_SIZES = [0, 1, 2, 3, 6, 7, 8, 24, 100, 253, 254, 255, 256, 257, 300, 509, 510, 511, 520, 765, 1100]
OTHER_TYPES = [0, 1, 5, 6, 129, 132, 137, 144, 147, 148, 200, 254]
OTHER_T35 = [bytes([0xB5, 0x00, 0x31, 0x47, 0x41, 0x39, 0x34]),      # ATSC A/53 (GA94)
             bytes([0xB5, 0x00, 0x3B, 0x00, 0x00, 0x08, 0x00]),      # Dolby ST 2094-10 style
             bytes([0xB5, 0x00, 0x3C, 0x00, 0x01, 0x04, 0x00]),      # right provider, other version
             bytes([0xB5, 0x00, 0x3C, 0x00, 0x01, 0x05, 0x01]),      # right provider, other application
             bytes([0xB5, 0x00, 0x3C, 0x00, 0x02, 0x04, 0x01]),      # other provider oriented code
             bytes([0x26, 0x00, 0x3C, 0x00, 0x01, 0x04, 0x01])]      # other country


def hdr10plus_message(rng, size=None, style=None):
    size = rng.choice([7, 8, 24, 60, 248, 254, 255, 256, 300, 510, 511, 700]) if size is None else max(7, size)
    style = style or rng.choice(PAYLOAD_STYLES)
    return (4, HDR10PLUS_HEAD + payload_bytes(rng, size - 7, style))


def other_message(rng, kind=None):
    """a message that is NOT ST 2094-40: kinds other / t35 (another provider) / trunc (HDR10+ header cut
    short, payload shorter than 7 bytes) / near (type other than 4 with the HDR10+ bytes)"""
    kind = kind or rng.choice(["other", "other", "t35", "trunc", "near"])
    style = rng.choice(PAYLOAD_STYLES)
    if kind == "t35":
        head = rng.choice(OTHER_T35)
        return (4, head + payload_bytes(rng, rng.choice([0, 1, 5, 24, 248, 249, 300]), style))
    if kind == "trunc":
        return (4, HDR10PLUS_HEAD[:rng.choice([1, 3, 5, 6])])
    if kind == "near":
        return (rng.choice([5, 3, 132]), HDR10PLUS_HEAD + payload_bytes(rng, rng.choice([0, 10, 250]), style))
    return (rng.choice(OTHER_TYPES), payload_bytes(rng, rng.choice(SEI_SIZES), style))


def gen_sei_messages(rng, nmsg=None, hdr_pos=None, with_hdr=True):
    """1..4 messages with at most one HDR10+ message at position hdr_pos (None: random, -1: none)"""
    nmsg = nmsg or 1 + rng.below(4)
    if not with_hdr:
        hdr_pos = -1
    elif hdr_pos is None:
        hdr_pos = rng.below(nmsg)
    out = []
    for j in range(nmsg):
        out.append(hdr10plus_message(rng) if j == hdr_pos else other_message(rng))
    return out


# ---------------------------------------------------------------------------------------------
# GOP structure and display order
# ---------------------------------------------------------------------------------------------

class FrameSpec:
    __slots__ = ("ntype", "stype", "poc", "tid", "period", "lead")

    def __init__(self, ntype, stype, poc, tid, period, lead=False):
        self.ntype, self.stype, self.poc, self.tid, self.period, self.lead = ntype, stype, poc, tid, period, lead

    def updates_tid0(self):
        return self.tid == 0 and self.ntype not in (TRAIL_N, TSA_N, STSA_N, RADL_N, RASL_N, RADL_R, RASL_R)

    def __repr__(self):
        return "F(t%d s%d poc%d tid%d per%d)" % (self.ntype, self.stype, self.poc, self.tid, self.period)


def _hier(rng, lo, hi, depth, out, mode):
    """decode order of the POCs lo..hi (inclusive) lying between two already coded anchors"""
    if lo > hi:
        return
    if mode == "perm":
        for p in rng.shuffle(list(range(lo, hi + 1))):
            out.append((p, 1, False))
        return
    if mode == "inc":
        for p in range(lo, hi + 1):
            out.append((p, 1, True))
        return
    if mode == "dec":
        for p in range(hi, lo - 1, -1):
            out.append((p, 1, True))
        return
    mid = (lo + hi) // 2 if mode == "pyramid" else lo + rng.below(hi - lo + 1)
    out.append((mid, depth, lo < hi))
    halves = [(lo, mid - 1), (mid + 1, hi)]
    if mode == "skew" and rng.chance(1, 2):
        halves.reverse()
    for a, b in halves:
        _hier(rng, a, b, depth + 1, out, mode)


def gen_structure(rng, nframes, poc_bits=8, max_minigop=8, period_len=(1, 24), irap_weights=None,
                  max_lead=4, first_irap=None, allow_tid0_b=True, intra=0):
    """decode-order list of FrameSpec with full POCs.

    Every period starts with an IRAP picture (IDR_W_RADL / IDR_N_LP: POC 0; CRA: POC continues, optional
    leading RASL/RADL pictures with smaller POCs coded after it; BLA: POC restarts at an arbitrary LSB),
    followed by mini-GOPs: an anchor (TRAIL_R, temporal id 0, P or B) `m` POCs ahead, then the pictures
    in between in a hierarchical / permuted / increasing / decreasing decode order.  All POC distances to
    the previous temporal-id-0 reference picture stay below half the LSB range, which is the condition
    under which H.265 8.3.1 reconstructs the POC from its LSBs."""
    half = 1 << (poc_bits - 1)
    maxm = max(1, min(max_minigop, half - 1))
    irap_weights = irap_weights or {"idr": 3, "cra": 4, "bla": 1}
    bag = [k for k, w in irap_weights.items() for _ in range(w)]
    frames = []
    period = -1
    cur_max = 0
    tid0 = 0
    while len(frames) < nframes:
        period += 1
        kind = rng.choice(bag) if not (period == 0 and first_irap) else first_irap
        plen = period_len[0] + rng.below(period_len[1] - period_len[0] + 1)
        plen = min(plen, nframes - len(frames))
        nlead = 0
        if kind == "cra":
            if period == 0:
                room = half - 1
                base = -1
            else:
                room = half - 1 - (cur_max + 1 - tid0)
                base = cur_max
            if room < 0:
                kind = "idr"
            else:
                nlead = min(rng.below(max_lead + 1), room, max(0, plen - 1))
                poc = base + 1 + nlead
                frames.append(FrameSpec(CRA, SLICE_I, poc, 0, period))
                tid0 = poc
                order = []
                _hier(rng, base + 1, poc - 1, 1, order, rng.choice(["pyramid", "perm", "inc", "dec", "skew"]))
                for p, depth, ref in order:
                    rasl = rng.chance(2, 3)
                    nt = (RASL_R if ref else RASL_N) if rasl else (RADL_R if ref else RADL_N)
                    frames.append(FrameSpec(nt, rng.choice([SLICE_B, SLICE_B, SLICE_P]), p, min(rng.choice([0, depth]), 6), period, True))
                cur_max = poc
        if kind == "bla":
            # POC of a BLA picture = its LSBs.  The LSBs are kept within [0, half) above those of the previous
            # temporal-id-0 picture: hevc_parser 0.6.8 computes the MSB candidate in u64 *before* it zeroes it
            # for BLA, so a downward wrap at MSB 0 is an arithmetic overflow there (dev-profile panic in a
            # third-party crate; recorded in README-hevcgen.md, not a subject of these checks)
            poc = (tid0 + rng.below(half)) % (1 << poc_bits)
            frames.append(FrameSpec(rng.choice([BLA_W_LP, BLA_W_RADL, BLA_N_LP]), SLICE_I, poc, 0, period))
            tid0 = cur_max = poc
        if kind == "idr":
            frames.append(FrameSpec(rng.choice([IDR_W_RADL, IDR_N_LP]), SLICE_I, 0, 0, period))
            tid0 = cur_max = 0
        count = 1 + nlead
        while count < plen:
            room = half - 1 - (cur_max - tid0)
            m = 1 + rng.below(max(1, min(maxm, room, plen - count)))
            anchor = cur_max + m
            frames.append(FrameSpec(TRAIL_R, rng.choice([SLICE_P, SLICE_P, SLICE_B]), anchor, 0, period))
            if intra and rng.below(16) < intra:
                frames[-1].stype = SLICE_I              # intra coded picture that is not an IRAP (scene cut)
            tid0 = anchor
            order = []
            _hier(rng, cur_max + 1, anchor - 1, 1, order, rng.choice(["pyramid", "pyramid", "perm", "inc", "dec", "skew", "rand"]))
            for p, depth, ref in order:
                r = rng.below(10)
                if r < 1 and allow_tid0_b and ref:
                    nt, tid = TRAIL_R, 0                # B picture used as temporal-id-0 reference
                elif r < 2:
                    nt, tid = TRAIL_N, 0                # sub-layer non-reference at temporal id 0
                elif r < 4:
                    nt, tid = (TSA_R if ref else TSA_N), depth
                elif r < 5:
                    nt, tid = (STSA_R if ref else STSA_N), depth
                else:
                    nt, tid = (TRAIL_R if ref else TRAIL_N), depth
                f = FrameSpec(nt, SLICE_B if rng.chance(5, 6) else SLICE_P, p, min(tid, 6), period)
                if intra and rng.below(16) < intra:
                    f.stype = SLICE_I                   # intra picture inside the mini-GOP hierarchy
                frames.append(f)
                if f.updates_tid0():
                    tid0 = p
            cur_max = anchor
            count += m
    got = derive_pocs(frames, poc_bits)
    assert got == [f.poc for f in frames], "generator bug: POCs not reconstructible from their LSBs"
    # cutting a structure in the middle of a mini-GOP leaves a stream whose display order is still well
    # defined (sparser POCs), so a cut is always allowed
    return frames[:nframes]


def derive_pocs(frames, poc_bits):
    """H.265 8.3.1 applied to the LSBs that will be written: the POC a conforming decoder reconstructs.
    Used as a self-check of the generator (must give back the POCs it chose)."""
    mx = 1 << poc_bits
    prev = 0
    out = []
    for f in frames:
        if f.ntype in (IDR_W_RADL, IDR_N_LP):
            poc = 0
        else:
            lsb = f.poc % mx
            plsb, pmsb = prev % mx, prev - prev % mx
            if lsb < plsb and plsb - lsb >= mx // 2:
                msb = pmsb + mx
            elif lsb > plsb and lsb - plsb > mx // 2:
                msb = pmsb - mx
            else:
                msb = pmsb
            if f.ntype in (BLA_W_LP, BLA_W_RADL, BLA_N_LP):
                msb = 0
            poc = msb + lsb
        out.append(poc)
        if f.updates_tid0():
            prev = poc
    return out


def display_order(frames):
    """decode indices in display order: by POC inside each random-access period, periods in stream
    order.  Computed from the generator's own labels only."""
    idx = sorted(range(len(frames)), key=lambda i: (frames[i].period, frames[i].poc, i))
    return idx


def presentation_numbers(frames):
    """pres[d] = position of decode index d in display order"""
    order = display_order(frames)
    pres = [0] * len(frames)
    for k, d in enumerate(order):
        pres[d] = k
    return pres


# ---------------------------------------------------------------------------------------------
# RPU pool
# ---------------------------------------------------------------------------------------------

def rpu_file_bytes(rpu_nals):
    """RPU list file as written by extract-rpu: 00 00 00 01 + NAL without its 7C 01 header"""
    return b"".join(b"\x00\x00\x00\x01" + r[2:] for r in rpu_nals)


def rpu_pool(rng, n, max_len=900, need_tags=None):
    """n distinct valid RPU NAL units (7C 01 + escaped payload) from the independent encoder, keeping only
    those which the real library re-encodes byte-identically (so that an injected RPU can be compared
    with the bytes that were fed in).  Returns [(nal_bytes, tags)]."""
    from . import rpucases
    out = []
    seen = set()
    tries = 0
    while len(out) < n and tries < 12:
        tries += 1
        cand = rpucases.gen_structured(rng.fork("pool%d" % tries), max(40, (n - len(out)) * 2))
        cand = [(b, t) for b, _, t in cand if len(b) <= max_len and b[-1:] == b"\x80"
                and (need_tags is None or all(x in t for x in need_tags))]
        lines = ["nalu.write " + (RPU_PREFIX + specgen.escape(b)).hex() for b, _ in cand]
        res, _, _ = common.run_lines_sharded(common.LIBCASE, lines, shards=8)
        for (b, t), r in zip(cand, res):
            nal = RPU_PREFIX + specgen.escape(b)
            if r == "ok " + nal.hex() and nal not in seen:
                seen.add(nal)
                out.append((nal, t))
                if len(out) >= n:
                    break
    if len(out) < n:
        raise common.CheckError("RPU pool: only %d of %d RPUs round-trip" % (len(out), n))
    return out


# ---------------------------------------------------------------------------------------------
# access units and streams
# ---------------------------------------------------------------------------------------------

class Au:
    """one access unit; `nals` in stream order.  Roles: aud vps sps pps psei slice el ssei rpu eos eob"""

    def __init__(self, spec, index):
        self.spec = spec
        self.index = index        # decode index
        self.nals = []
        self.rpu_index = None     # index into the stream's RPU list, None if the AU has no RPU

    def by_role(self, *roles):
        return [n for n in self.nals if n.role in roles]

    def bl_nals(self):
        return [n for n in self.nals if n.role not in ("el", "rpu")]

    def el_nals(self):
        return [n for n in self.nals if n.role == "el"]

    def rpu(self):
        r = self.by_role("rpu")
        return r[0] if r else None

    def first_slice_type(self):
        return self.spec.stype


class Stream:
    def __init__(self, codec, specs):
        self.codec = codec
        self.specs = specs
        self.aus = []
        self.desc = {}

    def nals(self):
        return [n for au in self.aus for n in au.nals]

    def render(self):
        return render(self.nals())

    def seq(self):
        return seq_of(self.nals())

    def display_order(self):
        return display_order(self.specs)

    def pres(self):
        return presentation_numbers(self.specs)

    def rpus_in_decode_order(self):
        return [au.rpu().data for au in self.aus if au.rpu() is not None]

    def rpus_in_display_order(self):
        return [self.aus[d].rpu().data for d in self.display_order() if self.aus[d].rpu() is not None]

    def size(self):
        return sum(n.size() for n in self.nals())


DEFAULT_OPTS = dict(
    aud="canonical",        # canonical | any | none | mixed
    params="irap",          # irap | first | every | mixed   (where [VPS SPS PPS] groups are repeated)
    max_slices=4,
    prefix_sei=(0, 2),      # min,max prefix SEI NALs per AU
    suffix_sei=(0, 1),
    hdr10plus=0,            # probability (in 1/8) that a prefix SEI NAL carries an ST 2094-40 message
    el="none",              # none | parse (EL frames delimitable by a parser) | free (0..k arbitrary EL NALs)
    el_max=3,
    rpu=True,
    eos="end",              # none | end | mid (EOS at period ends and EOS+EOB at the end) | every
    sc="four",              # four | three | mixed    input start codes
    tz=0,                   # probability (in 1/8) of 1..3 trailing zero bytes after a NAL
    pad=(0, 40),            # slice filler bytes min,max
    rich_filler=True,       # filler with zero runs (emulation prevention inside slices)
    nonfirst_type_varies=True,
    ssei_pos="after_el",    # after_el (template of C05) | before_el (layout that demux->mux reproduces)
    eos_pos="end",          # end | before_el (layout of muxers that write EOS/EOB in front of the EL; implies ssei before_el)
    el_aud=0,               # probability (in 1/8) that an EL frame starts with its own (wrapped) AUD
)


def _sample_sorted(rng, n, k):
    """k distinct values of 1..n-1, ascending"""
    k = max(0, min(k, n - 1))
    got = set()
    while len(got) < k:
        got.add(1 + rng.below(n - 1))
    return sorted(got)


def _filler(rng, lo, hi, rich):
    n = lo + rng.below(hi - lo + 1)
    if rich and rng.chance(1, 2):
        return bytes(rng.choice([0, 0, 0, 1, 2, 3, 0x55, 0xFF]) for _ in range(n))
    return bytes([SAFE]) * n


def build_stream(rng, codec, specs, rpus=None, **kw):
    """render a structure into access units
    [AUD] [VPS SPS PPS] [prefix SEI]* slice+ [EL NALs wrapped as UNSPEC63]* [suffix SEI] [RPU] [EOS [EOB]]"""
    o = dict(DEFAULT_OPTS)
    o.update(kw)
    st = Stream(codec, specs)
    st.desc = {k: (list(v) if isinstance(v, tuple) else v) for k, v in o.items()}
    n = len(specs)
    rpu_i = 0
    for i, f in enumerate(specs):
        au = Au(f, i)
        irap = 16 <= f.ntype <= 23
        # --- AUD
        am = o["aud"]
        if am == "mixed":
            am = rng.choice(["canonical", "canonical", "none"])
        if am != "none":
            au.nals.append(Nal(aud_nal(f.stype, am == "canonical"), "aud"))
        # --- parameter sets
        pm = o["params"]
        which = ""
        if i == 0 or (irap and pm in ("irap", "mixed", "every")) or pm == "every":
            which = "vsp"
        elif pm == "mixed" and rng.chance(1, 5):
            which = rng.choice(["vsp", "sp", "p"])
        au.nals += codec.param_nals(which)
        # --- prefix SEI
        for _ in range(o["prefix_sei"][0] + rng.below(o["prefix_sei"][1] - o["prefix_sei"][0] + 1)):
            msgs = gen_sei_messages(rng, with_hdr=rng.below(8) < o["hdr10plus"])
            au.nals.append(Nal(sei_nal(msgs, SEI_PREFIX, f.tid), "psei"))
        # --- slices
        ns = 1 + rng.below(o["max_slices"])
        ns = min(ns, max(1, codec.ps.ctbs))
        addrs = _sample_sorted(rng, codec.ps.ctbs, ns - 1)
        for s in range(ns):
            nft = rng.choice([SLICE_B, SLICE_P, SLICE_I]) if (o["nonfirst_type_varies"] and not irap and rng.chance(1, 4)) else None
            data = codec.slice_nal(f.ntype, f.poc, f.stype, f.tid, first=(s == 0), addr=(addrs[s - 1] if s else 0),
                                   dependent=(s > 0 and rng.chance(1, 4)),
                                   filler=_filler(rng, o["pad"][0], o["pad"][1], o["rich_filler"]),
                                   nonfirst_slice_type=nft)
            au.nals.append(Nal(data, "slice"))
        # --- EL
        if o["el"] == "parse":
            if o["el_aud"] and rng.below(8) < o["el_aud"]:
                au.nals.append(Nal(wrap_el(aud_nal(f.stype, True)), "el"))
            if i == 0 or irap or (o["params"] == "every"):
                for c in "vsp":
                    au.nals.append(Nal(wrap_el({"v": codec.vps, "s": codec.sps, "p": codec.pps}[c]), "el"))
            k = 1 + rng.below(o["el_max"])
            eaddrs = _sample_sorted(rng, codec.ps.ctbs, k - 1)
            for s in range(k):
                data = codec.slice_nal(f.ntype, f.poc, f.stype, f.tid, first=(s == 0), addr=(eaddrs[s - 1] if s else 0),
                                       filler=_filler(rng, o["pad"][0], o["pad"][1], o["rich_filler"]))
                au.nals.append(Nal(wrap_el(data), "el"))
            if rng.chance(1, 6):
                au.nals.append(Nal(wrap_el(sei_nal([other_message(rng, "other")], SEI_SUFFIX, f.tid)), "el"))
        elif o["el"] == "free":
            for _ in range(rng.below(o["el_max"] + 1)):
                c = rng.below(4)
                if c == 0:
                    inner = bytes([1 + rng.below(255)])          # 3-byte NAL unit once wrapped
                elif c == 1:
                    inner = codec.slice_nal(f.ntype, f.poc, f.stype, f.tid, filler=_filler(rng, 0, 30, True))
                elif c == 2:
                    inner = esc(bytes([0x50, 0x01]) + payload_bytes(rng, 1 + rng.below(60), "emul") + b"\x80")
                else:
                    inner = bytes([0x02, 0x01, 0x80 | rng.below(128)])
                au.nals.append(Nal(wrap_el(inner), "el"))
        # --- suffix SEI
        for _ in range(o["suffix_sei"][0] + rng.below(o["suffix_sei"][1] - o["suffix_sei"][0] + 1)):
            au.nals.append(Nal(sei_nal([other_message(rng, "other")], SEI_SUFFIX, f.tid), "ssei"))
        # --- RPU
        if o["rpu"] and rpus is not None:
            au.rpu_index = rpu_i
            au.nals.append(Nal(rpus[rpu_i % len(rpus)], "rpu"))
            rpu_i += 1
        # --- EOS / EOB
        last = i == n - 1
        period_end = last or specs[i + 1].period != f.period
        em = o["eos"]
        if em == "every" or (em == "mid" and period_end and rng.chance(2, 3)) or (em in ("end", "mid") and last):
            au.nals.append(Nal(eos_nal(), "eos"))
            if last and em != "every" and rng.chance(1, 2):
                au.nals.append(Nal(eob_nal(), "eob"))
        # --- layout variants
        if o["ssei_pos"] == "before_el" or o["eos_pos"] == "before_el":
            g = {"pre": [], "el": [], "ssei": [], "rpu": [], "eos": []}
            for nl in au.nals:
                g[{"el": "el", "ssei": "ssei", "rpu": "rpu", "eos": "eos", "eob": "eos"}.get(nl.role, "pre")].append(nl)
            if o["eos_pos"] == "before_el":
                au.nals = g["pre"] + g["ssei"] + g["eos"] + g["el"] + g["rpu"]
            else:
                au.nals = g["pre"] + g["ssei"] + g["el"] + g["rpu"] + g["eos"]
        # --- start codes, trailing zeros
        for k, nl in enumerate(au.nals):
            if o["sc"] == "three":
                nl.sc = 3
            elif o["sc"] == "mixed":
                nl.sc = rng.choice([3, 4])
            if o["tz"] and rng.below(8) < o["tz"]:
                nl.tz = 1 + rng.below(3)
        st.aus.append(au)
    return st


# ---------------------------------------------------------------------------------------------
# sizing and alignment
# ---------------------------------------------------------------------------------------------

def inflate(stream, rng, count, lo, hi):
    """grow `count` randomly chosen slice / EL-slice NALs to a size in lo..hi bytes"""
    cands = [n for n in stream.nals() if n.role in ("slice",) or (n.role == "el" and len(n.data) > 8)]
    for nl in rng.shuffle(cands)[:count]:
        target = lo + rng.below(hi - lo + 1)
        if target > len(nl.data):
            nl.stretch(target - len(nl.data))


def align_start_code(stream, nal_index, chunk, delta, before=True):
    """make the 00 00 01 of NAL number `nal_index` begin at byte offset k*chunk + delta (delta may be
    negative) by stretching the nearest stretchable NAL in front of it.  Returns the offset reached or
    None when no stretchable NAL precedes it."""
    nals = stream.nals()
    if nal_index <= 0 or nal_index >= len(nals):
        return None
    j = nal_index - 1
    while j >= 0 and not (nals[j].role == "slice" or (nals[j].role == "el" and len(nals[j].data) > 8)):
        j -= 1
    if j < 0:
        return None
    off = sum(n.size() for n in nals[:nal_index]) + (1 if nals[nal_index].sc == 4 else 0)
    need = (delta - off) % chunk
    nals[j].stretch(need)
    return off + need


def start_code_offsets(stream):
    """byte offset of every 00 00 01 in the rendered stream"""
    out = []
    off = 0
    for n in stream.nals():
        out.append(off + (1 if n.sc == 4 else 0))
        off += n.size()
    return out


# ---------------------------------------------------------------------------------------------
# layers
# ---------------------------------------------------------------------------------------------

def split_layers(stream):
    """(BL nals, EL nals) of a dual-layer stream as a correct demuxer would produce them: EL = wrapped
    NALs without their 2-byte UNSPEC63 header plus the RPUs, in order; BL = everything else"""
    bl, el = [], []
    for n in stream.nals():
        if n.role == "el":
            el.append(Nal(n.data[2:], "el", 4, 0))
        elif n.role == "rpu":
            el.append(Nal(n.data, "rpu", 4, 0))
        else:
            bl.append(n.copy())
    return bl, el


def bl_stream_bytes(stream):
    return render(split_layers(stream)[0])


def el_stream_bytes(stream):
    return render(split_layers(stream)[1])


def el_frames_of(stream):
    """per AU: the EL-file NALs (unwrapped EL NALs then RPU, in stream order)"""
    out = []
    for au in stream.aus:
        fr = []
        for n in au.nals:
            if n.role == "el":
                fr.append(Nal(n.data[2:], "el"))
            elif n.role == "rpu":
                fr.append(Nal(n.data, "rpu"))
        out.append(fr)
    return out


def bl_aus_of(stream):
    return [(au.spec.stype, [n for n in au.nals if n.role not in ("el", "rpu")]) for au in stream.aus]


def describe(stream, limit=40):
    """compact human-readable structure (for replays)"""
    s = []
    for au in stream.aus[:limit]:
        f = au.spec
        s.append("%d:t%d/s%d/poc%d/tid%d/p%d[%s]" % (au.index, f.ntype, f.stype, f.poc, f.tid, f.period,
                                                   " ".join("%s%d" % (n.role, len(n.data)) for n in au.nals)))
    return "; ".join(s)
