"""C11 — CM XML documents generate the documented integer encodings, one RPU per frame, shots by start."""
import concurrent.futures
import glob
import itertools
import json
import os
from fractions import Fraction

from . import common, rpucases, clirun, specgen, xmlgen, xmlspec, xmldoc


# ---------------------------------------------------------------------------------------------
# running the real CLI
# ---------------------------------------------------------------------------------------------

def run_cli(args):
    i, work, text, cw, ch = args
    d = os.path.join(work, "d%d" % i)
    os.makedirs(d, exist_ok=True)
    xp = os.path.join(d, "in.xml")
    with open(xp, "w") as f:
        f.write(text)
    outp = os.path.join(d, "out.bin")
    a = ["generate", "--xml", xp, "-o", outp]
    if cw is not None:
        a += ["--canvas-width", str(cw)]
    if ch is not None:
        a += ["--canvas-height", str(ch)]
    rc, so, se = clirun.run(a)
    out = clirun.read_rpu_file(outp) if rc == 0 and os.path.exists(outp) else None
    se = se.decode(errors="replace")
    k = se.find("panicked at")
    # with a backtrace enabled in the environment the message is far from the end: keep it
    return rc, out, (se[k:k + 300].split("stack backtrace")[0].strip() if k >= 0 else se[-400:])


def run_many(tag, items):
    """items: list of (text, cw, ch); returns list of (rc, rpus, stderr tail)"""
    work = clirun.workdir(tag)
    try:
        with concurrent.futures.ThreadPoolExecutor(max_workers=12) as ex:
            return list(ex.map(run_cli, [(i, work, t, cw, ch) for i, (t, cw, ch) in enumerate(items)]))
    finally:
        clirun.cleanup(work)


def parse_frames(rpu_lists):
    """per document: list of per-frame JSON (or None where the RPU does not parse), via libcase nalu.json"""
    lines = []
    for out in rpu_lists:
        for o in (out or []):
            lines.append("nalu.json 7c01" + o.hex())
    res, _, _ = common.run_lines_sharded(common.LIBCASE, lines) if lines else ([], 0, "")
    it = iter(res)
    parsed = []
    for out in rpu_lists:
        fr = []
        for _ in (out or []):
            l = next(it, "missing")
            fr.append(json.loads(l[3:]) if l.startswith("ok {") else None)
        parsed.append(fr)
    return parsed


# ---------------------------------------------------------------------------------------------
# comparison with the specification
# ---------------------------------------------------------------------------------------------

def count_leaves(j):
    if isinstance(j, dict):
        return sum(count_leaves(v) for v in j.values())
    if isinstance(j, list):
        return sum(count_leaves(v) for v in j)
    return 1


def first_mismatch(sp, frames_json):
    """None when the tool's frames are the specification's; else (frame, field path, observed, expected)"""
    exp = sp["frames"]
    if len(exp) != len(frames_json):
        return (-1, "#frames", len(frames_json), len(exp))
    for i, (e, o) in enumerate(zip(exp, frames_json)):
        if o is None:
            return (i, "<rpu>", "does not parse", "parses")
        ej = xmlspec.frame_json(e, sp["cm40"])
        oj = xmlspec.project_tool_json(o)
        if ej != oj:
            d = rpucases.diff(oj, ej)
            p, a, b = d[0] if d else ("?", oj, ej)
            return (i, p, a, b)
    return None


def explain(doc, cw, ch, frames_json, quirks=frozenset(), cap=1024):
    """(spec result, flips, mismatch): the resolution of the tie-ambiguous sites under which the tool's output is the
    specification's, searched over subsets of the ambiguous sites (small subsets first)"""
    sp = xmlspec.spec(doc, cw, ch, frozenset(), quirks)
    mm = first_mismatch(sp, frames_json) if sp["status"] == "ok" else None
    if mm is None or not sp["ambiguous"]:
        return sp, frozenset(), mm
    sites = [a[0] for a in sp["ambiguous"]]
    tried = 0
    for k in range(1, len(sites) + 1):
        for sub in itertools.combinations(sites, k):
            tried += 1
            if tried > cap:
                return sp, frozenset(), mm
            fl = frozenset(sub)
            sp2 = xmlspec.spec(doc, cw, ch, fl, quirks)
            if sp2["status"] == "ok" and first_mismatch(sp2, frames_json) is None:
                return sp2, fl, None
    return sp, frozenset(), mm


# ---------------------------------------------------------------------------------------------
# shrinking a failing document
# ---------------------------------------------------------------------------------------------

def _variants(doc):
    """smaller documents, most aggressive first"""
    import copy
    n = len(doc["shots"])
    for i in range(n):
        if n > 1:
            d = copy.deepcopy(doc); del d["shots"][i]; yield d
    for i, s in enumerate(doc["shots"]):
        for j in range(len(s["frames"])):
            d = copy.deepcopy(doc); del d["shots"][i]["frames"][j]; yield d
        for j in range(len(s["levels"] or [])):
            d = copy.deepcopy(doc); del d["shots"][i]["levels"][j]; yield d
        for j, f in enumerate(s["frames"]):
            for k in range(len(f["levels"] or [])):
                d = copy.deepcopy(doc); del d["shots"][i]["frames"][j]["levels"][k]; yield d
        if s["duration"] > 1:
            d = copy.deepcopy(doc); d["shots"][i]["duration"] = 1; yield d
    used = set()
    for s in doc["shots"]:
        for nd in (s["levels"] or []) + [x for f in s["frames"] for x in (f["levels"] or [])]:
            if nd[0] in ("L2", "L8"):
                used.add(nd[1])
    for i, t in enumerate(doc["targets"]):
        if t["id"] not in used:
            d = copy.deepcopy(doc); del d["targets"][i]; yield d
    for key in ("level11", "level254", "level6"):
        if doc.get(key) is not None:
            d = copy.deepcopy(doc); d[key] = None; yield d
    # neutralise values one list at a time
    for i, s in enumerate(doc["shots"]):
        holders = [("levels", None)] + [("frames", j) for j in range(len(s["frames"]))]
        for where, j in holders:
            nodes = s["levels"] if where == "levels" else s["frames"][j]["levels"]
            for k, nd in enumerate(nodes or []):
                for pos in range(1, len(nd)):
                    if isinstance(nd[pos], list):
                        for q, tok in enumerate(nd[pos]):
                            if tok != "0" and nd[0] not in ("L9", "L5"):
                                d = copy.deepcopy(doc)
                                tgt = d["shots"][i]["levels"] if where == "levels" else d["shots"][i]["frames"][j]["levels"]
                                nn = list(tgt[k]); lst = list(nn[pos]); lst[q] = "0"; nn[pos] = lst; tgt[k] = tuple(nn)
                                yield d
                    elif isinstance(nd[pos], str) and nd[pos] != "0":
                        d = copy.deepcopy(doc)
                        tgt = d["shots"][i]["levels"] if where == "levels" else d["shots"][i]["frames"][j]["levels"]
                        nn = list(tgt[k]); nn[pos] = "0"; tgt[k] = tuple(nn)
                        yield d


def fails_same(doc, cw, ch, shape):
    """re-run one document: the failure record (or None)"""
    (rc, out, se), = run_many("c11m", [(xmlgen.render(doc), cw, ch)])
    return judge(doc, cw, ch, rc, out, se, parse_frames([out])[0] if out else [])[0]


def shrink(doc, cw, ch, failure, budget=120):
    cur = doc
    progress = True
    while progress and budget > 0:
        progress = False
        for cand in _variants(cur):
            budget -= 1
            if budget <= 0:
                break
            f = fails_same(cand, cw, ch, failure["shape"])
            if f is not None and f["shape"] == failure["shape"]:
                cur, failure, progress = cand, f, True
                break
    return cur, failure


# ---------------------------------------------------------------------------------------------
# verdict on one document
# ---------------------------------------------------------------------------------------------

def judge_with(doc, cw, ch, rc, out, se, frames_json, quirks):
    """(failure | None, spec result used, flips, stats) under the documented behaviour (or the given known deviations)"""
    stats = {"frames": 0, "fields": 0}
    S = lambda flips=frozenset(): xmlspec.spec(doc, cw, ch, flips, quirks)
    if rc not in (0, 1):
        sp = S()
        if sp["status"] == "panic" and rc == 101:
            return None, sp, frozenset(), stats
        return ({"op": "generate --xml", "frame": -1, "field": "<exit status>", "observed": "exit %s %s" % (rc, se[-200:]),
                 "expected": "exit 0 (or an error message for a value the RPU syntax cannot hold)", "shape": "crash"}, sp, frozenset(), stats)
    if rc == 1:
        sp = S()
        if sp["status"] == "ok":
            # a tie-ambiguous site may decide encodability (e.g. an L3 offset rounding to 4096)
            for a in sp["ambiguous"]:
                sp2 = S(frozenset([a[0]]))
                if sp2["status"] == "unencodable":
                    return None, sp2, frozenset([a[0]]), stats
            return ({"op": "generate --xml", "frame": -1, "field": "<exit status>", "observed": "exit 1: " + se[-200:],
                     "expected": "exit 0: every value of the document has an encoding", "shape": "valid-document-rejected"},
                    sp, frozenset(), stats)
        if sp["status"] == "panic":
            return ({"op": "generate --xml", "frame": -1, "field": "<exit status>", "observed": "exit 1", "expected": "panic",
                     "shape": "quirk-not-reproduced"}, sp, frozenset(), stats)
        return None, sp, frozenset(), stats
    sp, flips, mm = explain(doc, cw, ch, frames_json, quirks)
    if sp["status"] != "ok":
        for a in sp["ambiguous"]:
            sp2, fl2 = S(frozenset([a[0]])), frozenset([a[0]])
            if sp2["status"] == "ok" and first_mismatch(sp2, frames_json) is None:
                return None, sp2, fl2, stats
        return ({"op": "generate --xml", "frame": -1, "field": "<exit status>", "observed": "exit 0, %d RPUs" % len(out or []),
                 "expected": "an error: " + sp["reason"], "shape": "unencodable-accepted"}, sp, frozenset(), stats)
    if mm is not None:
        fi, path, obs, expv = mm
        shape = "frame-count" if path == "#frames" else "field:" + "/".join(x.split("[")[0] for x in path.split("/")[-2:])
        return ({"op": "generate --xml", "frame": fi, "field": path, "observed": obs, "expected": expv, "shape": shape},
                sp, flips, stats)
    stats["frames"] = len(sp["frames"])
    stats["fields"] = sum(count_leaves(xmlspec.frame_json(f, sp["cm40"])) for f in sp["frames"])
    return None, sp, flips, stats


def judge(doc, cw, ch, rc, out, se, frames_json):
    """verdict against the documented behaviour; when that fails and the document can reach known deviations of the
    tool, the failure is labelled with the deviations that reproduce the tool's output exactly (shape `known-deviation:…`,
    matched by known_findings.json), and the specification result under those deviations is returned for the model run"""
    failure, sp, flips, stats = judge_with(doc, cw, ch, rc, out, se, frames_json, frozenset())
    if failure is None:
        return failure, sp, flips, stats
    tr = xmlspec.traits(doc)
    if tr:
        subsets = [frozenset(c) for k in range(1, len(tr) + 1) for c in itertools.combinations(sorted(tr), k)]
        for q in subsets:
            f2, sp2, fl2, st2 = judge_with(doc, cw, ch, rc, out, se, frames_json, q)
            if f2 is None:
                failure = dict(failure, shape="known-deviation:" + "+".join(sorted(q)), generic_shape=failure["shape"])
                return failure, sp2, fl2, stats
    return failure, sp, flips, stats


# ---------------------------------------------------------------------------------------------
# the document-level Lean model: configOfDoc + generateXml on the tokenised document (Model/XmlDoc.lean)
# ---------------------------------------------------------------------------------------------

def impl_answer(rc, out):
    """the tool's result in the model's answer format"""
    if rc == 0 and out is not None:
        return "ok %d %s" % (len(out), ",".join(rpucases.unescape(o).hex() for o in out) if out else "-")
    return "err" if rc == 1 else "panic" if rc == 101 else "exit %s" % rc


def model_rpus(answer):
    """(rc, escaped payloads) of a model answer, in the form `judge_with` takes the tool's result"""
    if answer.startswith("ok "):
        parts = answer.split(" ")
        hexes = [] if len(parts) < 3 or parts[2] == "-" else parts[2].split(",")
        return 0, [specgen.escape(bytes.fromhex(h)) for h in hexes]
    return (1 if answer == "err" else 101 if answer == "panic" else -1), None


def doc_model_compare(ctx, runs):
    """runs: list of (doc, cw, ch, rc, out, se, tool_ok, n_ambiguous).  Every document goes through the Lean
    `xml.doc` op; the model's RPU list must be the tool's byte for byte.  The model rounds exactly, the tool in
    f32 / f64: where they differ, the model's own output is judged against the exact reference like the tool's
    (`judge_with`, same tie search); a difference is a tie difference - not a disagreement - only when the
    document has tie-ambiguous sites and both outputs lie in the accepted set"""
    lines, keep = [], []
    for r in runs:
        try:
            lines.append(xmldoc.line(r[0], r[1], r[2]))
            keep.append(r)
        except xmldoc.NotScaled:
            ctx.count("docmodel=skipped-token-beyond-6-digits")
    mo, _, _ = common.run_lines_sharded(common.MODEL_EXE, lines) if lines else ([], 0, "")
    ctx.evaluations += len(lines)
    differing = []
    for l, m, r in zip(lines, mo, keep):
        impl = impl_answer(r[3], r[4])
        if m == impl:
            ctx.count("docmodel=identical" + ("" if r[3] == 0 else "-" + impl.split(" ")[0]))
        else:
            differing.append((l, m, impl, r))
    # the model's frames, parsed like the tool's
    mr = [model_rpus(m) for _, m, _, _ in differing]
    mparsed = parse_frames([o for _, o in mr]) if differing else []
    ties = 0
    for (l, m, impl, r), (mrc, mout), mfr in zip(differing, mr, mparsed):
        doc, cw, ch, rc, out, se, tool_ok, namb = r
        verdict = None
        if namb > 0 and tool_ok and mrc in (0, 1):
            verdict = judge_with(doc, cw, ch, mrc, mout, "", mfr if mout else [], frozenset())[0]
            if verdict is None:
                ties += 1
                ctx.count("docmodel=tie-difference")
                continue
        ctx.count("docmodel=DISAGREE")
        ctx.disagree("generate --xml (Lean configOfDoc + generateXml on the tokenised document)", l[:4000], m[:300],
                     impl[:300] + " | " + se[-150:] + (" | model vs reference: %s" % json.dumps(verdict)[:300] if verdict else ""))
    ctx.extra["doc_model_documents"] = len(lines)
    ctx.extra["doc_model_identical"] = len(lines) - len(differing)
    ctx.extra["doc_model_tie_differences"] = ties
    return lines


def save_xml(ctx, text, n):
    if len(text) <= 6000:
        return text
    os.makedirs(os.path.join(common.VERIF, "replays"), exist_ok=True)
    p = os.path.join(common.VERIF, "replays", "C11-%d-doc%d.xml" % (ctx.seed, n))
    with open(p, "w") as f:
        f.write(text)
    return p


# ---------------------------------------------------------------------------------------------
# Lean definitions vs the Fraction specification (the integer-level functions the theorems speak about)
# ---------------------------------------------------------------------------------------------

def scaled(tok):
    v = Fraction(tok) * 10**6
    assert v.denominator == 1
    return int(v)


def xmlenc_cases(rng, n):
    """(line for the model, expected answer computed by xmlspec)"""
    cases = []
    st = xmlspec.Sites()
    tv = lambda: xmlgen.trim_value(rng)
    fixed = ["0", "1", "-1", "0.5", "-0.5", "2", "-2", "0.000244", "-0.000244", "0.000245", "0.999756", "0.999755", "1.5", "-3", "100"]
    for k in range(n):
        pick = (lambda: rng.choice(fixed)) if k % 5 == 0 else tv
        m = k % 10
        if m == 0:
            l, g, ga = pick(), pick(), pick()
            e = xmlspec.enc_trim(st, Fraction(l), Fraction(g), Fraction(ga), "")
            cases.append(("xmlenc trim %d,%d,%d" % (scaled(l), scaled(g), scaled(ga)), "ok %d,%d,%d" % e))
        elif m == 1:
            vs = [pick() for _ in range(4)]
            cases.append(("xmlenc lin " + ",".join(str(scaled(v)) for v in vs),
                          "ok " + ",".join(str(xmlspec.enc_lin12(st, Fraction(v), "")) for v in vs)))
        elif m == 2:
            vs = [pick() for _ in range(4)]
            cases.append(("xmlenc vec " + ",".join(str(scaled(v)) for v in vs),
                          "ok " + ",".join(str(xmlspec.enc_vec8(st, Fraction(v), "")) for v in vs)))
        elif m == 3:
            vs = [pick() for _ in range(3)]
            b = xmlspec.enc_l3(st, vs, "")
            cases.append(("xmlenc l3 " + ",".join(str(scaled(v)) for v in vs), "ok %d,%d,%d" % (b[2][0], b[2][2], b[2][1])))
        elif m == 4:
            vs = [xmlgen.unit_value(rng) for _ in range(3)]
            cm40 = rng.chance(1, 2)
            b = xmlspec.enc_l1(st, vs, cm40, "")
            cases.append(("xmlenc l1 %s %s" % ("40" if cm40 else "29", ",".join(str(scaled(v)) for v in vs)),
                          "ok " + ",".join(str(v) for v in b[2])))
        elif m == 5:
            cw, ch = xmlgen.gen_canvas(rng)
            cw, ch = cw or 1920, ch or 1080
            c = rng.choice(xmlgen.AR_POOL)
            i = c if rng.chance(1, 4) else (rng.choice(xmlgen.AR_POOL) if rng.chance(1, 2) else xmlgen.rand_dec(rng, 0.5, 3, 6))
            b = xmlspec.enc_l5(st, c, i, cw, ch, "")
            cases.append(("xmlenc l5 %d,%d,%d,%d" % (cw, ch, scaled(c), scaled(i)), "ok " + ",".join(str(v) for v in b[2])))
        elif m == 6:
            zero6 = ["0"] * 6
            shape = rng.below(5)
            node = ("L8", rng.below(256), [pick() for _ in range(6)], pick() if shape >= 1 else "0", pick() if shape >= 2 else "0",
                    [pick() if rng.chance(1, 2) else "0" for _ in range(6)] if shape >= 3 else zero6,
                    [pick() if rng.chance(1, 2) else "0" for _ in range(6)] if shape >= 4 else zero6)
            b = xmlspec.enc_l8(st, node, "")
            args = [node[1]] + [scaled(v) for v in node[2]] + [scaled(node[3]), scaled(node[4])] + [scaled(v) for v in node[5] + node[6]]
            cases.append(("xmlenc l8 " + ",".join(str(v) for v in args), "ok %d %s" % (b[1], ",".join(str(v) for v in b[2]))))
        elif m == 7:
            vs = xmlgen.gen_primaries(rng)
            cases.append(("xmlenc prim " + ",".join(str(scaled(v)) for v in vs),
                          "ok " + ",".join(str(v) for v in xmlspec.enc_primaries(st, vs, ""))))
        elif m == 8:
            vs = xmlgen.gen_primaries(rng, for_l9=True)
            b = xmlspec.enc_l9(st, vs, "")
            cases.append(("xmlenc l9 " + ",".join(str(scaled(v)) for v in vs), "ok %d %s" % (b[1], ",".join(str(v) for v in b[2]))))
        else:
            t = {"id": rng.below(256), "peak": rng.choice(xmlgen.NITS_POOL), "min": rng.choice(xmlgen.MIN_POOL),
                 "prim": xmlgen.gen_primaries(rng, for_l9=rng.chance(1, 3))}
            b = xmlspec.enc_l10(st, t, "")
            cases.append(("xmlenc l10 %d,%d,%d,%s" % (t["id"], b[2][1], b[2][2], ",".join(str(scaled(v)) for v in t["prim"])),
                          "ok %d %s" % (b[1], ",".join(str(v) for v in b[2]))))
    # the L6 / source-level / target-PQ encodings (Proofs/XmlMoreProof.lean: l6Light, l6MinLum, pqOfNits, pqOfMinLum,
    # sourceMinPqOfXml) against the exact-rational spec
    for k in range(max(20, n // 20)):
        lights = [rng.choice(["0", "1000", "999.5", "1000.4999", "65535", "65535.5", "70000", "0.5", "0.49"]) if k % 3 == 0
                  else str(xmlgen.rand_dec(rng, 0, 12000, 4)) for _ in range(4)]
        exp = [xmlspec.sat(st.round(Fraction(v), ""), 65535) for v in lights]
        cases.append(("xmlenc l6light " + ",".join(str(scaled(v)) for v in lights), "ok " + ",".join(map(str, exp))))
        mins = [rng.choice(["0", "0.0001", "0.0007", "0.00074", "0.00075", "0.005", "0.00005", "0.00004", "1"]) if k % 3 == 0
                else str(xmlgen.rand_dec(rng, 0, 1, 6)) for _ in range(4)]
        expm = [xmlspec.sat(st.round(Fraction(v) * 10000, ""), 65535) for v in mins]
        cases.append(("xmlenc l6minlum " + ",".join(str(scaled(v)) for v in mins), "ok " + ",".join(map(str, expm))))
        cases.append(("xmlenc srcminpq " + ",".join(str(scaled(v)) for v in mins),
                      "ok " + ",".join(str(xmlspec.sat(st.round(xmlspec.pq_scaled(Fraction(m, 10000)), ""), 65535)) for m in expm)))
        nits = [rng.choice([0, 1, 100, 600, 1000, 2000, 4000, 10000]) if k % 3 == 0 else rng.below(10001) for _ in range(4)]
        cases.append(("xmlenc pqnits " + ",".join(map(str, nits)),
                      "ok " + ",".join(str(xmlspec.sat(st.round(xmlspec.pq_scaled(Fraction(v)), ""), 65535)) for v in nits)))
        ks = [rng.below(10001) for _ in range(4)]
        cases.append(("xmlenc pqminlum " + ",".join(map(str, ks)),
                      "ok " + ",".join(str(xmlspec.sat(st.round(xmlspec.pq_scaled(Fraction(v, 10000)), ""), 65535)) for v in ks)))
    return cases


# ---------------------------------------------------------------------------------------------
# deliberate probes outside the quantifier (observations, never violations)
# ---------------------------------------------------------------------------------------------

def probes(ctx, rng):
    base = None
    while base is None:
        d = xmlgen.gen_doc(rng, max_shots=2, max_dur=2)
        if d["version"] == "5.1.0" and d["targets"] and all(t["app"] == "HOME" for t in d["targets"]) and len(d["targets"]) <= 3:
            base = d
    tid = base["targets"][0]["id"]
    l1 = ("L1", ["0", "0.2", "0.5"])
    for s in base["shots"]:
        s["levels"] = [l1]
        s["frames"] = []
    items = []
    # 1. malformed: a Level8 node without MidContrastBias (mandatory for the parser)
    text = xmlgen.render(dict(base, shots=[dict(base["shots"][0], levels=[l1, ("L8", tid, ["0"] * 6, "0", "0", ["0"] * 6, ["0"] * 6)])]))
    items.append(("malformed: Level8 without MidContrastBias", text.replace("<MidContrastBias>0</MidContrastBias>\n", ""), None, None))
    # 2. malformed: Shot without UniqueID
    text = xmlgen.render(base)
    items.append(("malformed: Shot without UniqueID", text.replace("<UniqueID>%s</UniqueID>" % base["shots"][0]["uid"], ""), None, None))
    # 3. not XML at all
    items.append(("malformed: not well-formed XML", "<DolbyLabsMDF version=\"4.0.2\"><Outputs>", None, None))
    # 4. unsupported version
    items.append(("unsupported version 3.0.0", xmlgen.render(base).replace("5.1.0", "3.0.0").replace("5_1_0", "3_0_0"), None, None))
    res = run_many("c11p", [(t, cw, ch) for _, t, cw, ch in items])
    parsed = parse_frames([r[1] for r in res])
    for (what, _, _, _), (rc, out, se), fr in zip(items, res, parsed):
        kind = "ok" if rc == 0 else "error" if rc == 1 else "panic" if rc == 101 else "exit %s" % rc
        msg = [l.strip() for l in se.strip().split("\n") if l.strip() and not l.startswith("note:")]
        ctx.notes.append("probe (outside the quantifier, observation only): %s -> %s%s"
                         % (what, kind, "" if rc == 0 else " [" + " ".join(msg[:2])[:200] + "]"))
        ctx.count("probe=" + kind)


# ---------------------------------------------------------------------------------------------
# entry points
# ---------------------------------------------------------------------------------------------

def replay(ctx, path):
    """./check C11 --replay replays/C11-….json : re-run the recorded document against the current tree"""
    ctx.build_and_audit(need_cli=True)
    rec = json.load(open(path))
    f = rec.get("failure", rec)
    text = f["input"]
    if not text.lstrip().startswith("<"):
        text = open(text).read()
    cw, ch = (f.get("canvas") or [None, None])[:2]
    doc = xmlgen.from_xml(text)
    (rc, out, se), = run_many("c11r", [(text, cw, ch)])
    failure, sp, flips, stats = judge(doc, cw, ch, rc, out, se, parse_frames([out])[0] if out else [])
    ctx.evaluations += 1
    if failure is not None:
        failure["input"] = text[:6000]
        failure["canvas"] = [cw, ch]
        ctx.oracle_fail(failure)
        print("replay: still failing: %s" % json.dumps({k: v for k, v in failure.items() if k != "input"})[:600])
    else:
        print("replay: the document now generates the documented encodings (exit %s, %d frames)" % (rc, stats["frames"]))
    return ctx.finish()


def run(ctx):
    ctx.rule = ("CM XML documents rendered from an abstract model: versions 2.0.5 / 4.0.2 / 5.0.0 / 5.1.0, 1..5 shots in sorted or "
                "shuffled document order (equal starts and gaps included) with 0..3 frame edits (offsets 0 / last / beyond / duplicated), "
                "L1/L2/L3/L5/L8/L9 nodes with trims at -1, 0, +1, beyond the clamp and random decimals (<= 6 fractional digits, plain or "
                "exponent notation), 0..5 target displays with preset and custom ids, shared peak / primaries, HOME and other application "
                "types, aspect ratios equal / wider / narrower / absent, canvas size given / partly given / absent, MaxCLL / MaxFALL / minimum "
                "luminance decimals, L11 / L254 nodes present or absent; plus the repository's five sample documents. The real CLI "
                "(`generate --xml`) is run on every document; each produced RPU is parsed back and every block field, the source PQ "
                "levels, the scene-cut flag, the frame count and order are compared with the exact-rational specification "
                "(vlib/xmlspec.py); a rounding whose exact argument lies within 2^-8 of a tie accepts both neighbours and is counted as "
                "tie_ambiguous; the tool's bytes are also compared with the Lean GenModel run on the specification's integer config, and with the Lean "
                "document model (Model/XmlDoc.lean: configOfDoc + generateXml) run on the tokenised document itself - byte for byte, a "
                "difference being tolerated only in a document with tie_ambiguous sites and when the model's output is in the accepted set too; "
                "the Lean integer encodings (Model/XmlSpec.lean) are compared with the Fraction specification on random scaled decimals; "
                "non-trivial = generation succeeded and every frame was compared; distinct by document hash")
    ctx.assumptions = ["XML text parsing (roxmltree) is a parameter: documents are rendered with the element layout of the repository's samples",
                       "float rounding exactly at / within 2^-8 of a tie is not decided: both neighbouring integers are accepted and counted (tie_ambiguous)",
                       "ST 2084 is evaluated with 50 decimal digits; libm pow is not modelled",
                       "documents whose documented values do not fit the RPU syntax (more than 4 custom target displays, an L3 offset above 4095) must be rejected with an error, not encoded"]
    ctx.build_and_audit(need_cli=True)
    rng = ctx.rng.fork("c11")
    quick = ctx.tier == "quick"

    # 1. Lean integer encodings == Fraction specification
    cases = xmlenc_cases(rng.fork("xmlenc"), 2000 if quick else 40000)
    mo, _, _ = common.run_lines_sharded(common.MODEL_EXE, [c[0] for c in cases])
    ctx.evaluations += len(cases)
    for (line, want), got in zip(cases, mo):
        ctx.count("xmlenc=" + line.split(" ")[1])
        if got != want:
            ctx.disagree("xmlenc (Lean XmlSpec vs Fraction specification)", line, got, want)

    # 2. documents: the repository's samples first, then generated ones
    docs = []
    files = [(f, "corpus") for f in sorted(glob.glob(os.path.join(common.VERIF, "corpus", "C11", "*.xml")))] + \
            [(f, "sample") for f in sorted(glob.glob(os.path.join(common.REPO, "assets", "tests", "*.xml")))]
    for f, kind in files:
        try:
            d = xmlgen.from_xml(open(f).read())
        except Exception as e:                      # a document this reader does not understand is skipped, visibly
            ctx.notes.append("%s %s not read: %s" % (kind, os.path.basename(f), e))
            continue
        for cw, ch in ((3840, 2160), (None, None)) if kind == "sample" else ((3840, 2160),):
            docs.append((d, cw, ch, open(f).read(), kind + ":" + os.path.basename(f)))
    n = 300 if quick else 4000
    drng = rng.fork("docs")
    for i in range(n):
        k = drng.below(24)
        d = xmlgen.gen_doc(drng, max_shots=5, max_dur=5 if quick else 6, l3_beyond=k in (4, 5), l2_ms_beyond=k in (0, 1),
                           nonhome_trims=k == 2, frame_only=k == 3)
        cw, ch = xmlgen.gen_canvas(drng)
        docs.append((d, cw, ch, xmlgen.render(d), "gen"))
    res = run_many("c11", [(t, cw, ch) for _, cw, ch, t, _ in docs])
    parsed = parse_frames([r[1] for r in res])
    ctx.evaluations += len(docs)

    tie_ambiguous = tie_flipped = frames_cmp = fields_cmp = sites_total = 0
    lines = []
    impls = []
    docruns = []
    n_fail = 0
    for k, ((doc, cw, ch, text, origin), (rc, out, se), fr) in enumerate(zip(docs, res, parsed)):
        failure, sp, flips, stats = judge(doc, cw, ch, rc, out, se, fr)
        for key in xmlgen.describe(doc):
            ctx.count(key)
        ctx.count("origin=" + origin.split(":")[0])
        ctx.count("canvas=" + ("given" if cw and ch else "absent" if not cw and not ch else "partial"))
        ctx.count("result=" + ("known-deviation" if failure is not None and failure["shape"].startswith("known-deviation") else
                               "failed" if failure is not None else "ok" if rc == 0 else "err-expected"))
        tie_ambiguous += len(sp["ambiguous"])
        tie_flipped += len(flips)
        sites_total += sp["sites"]
        frames_cmp += stats["frames"]
        fields_cmp += stats["fields"]
        if failure is not None:
            n_fail += 1
            mdoc, mcw, mch = doc, cw, ch
            if n_fail <= 3 and origin == "gen":
                mdoc, failure = shrink(doc, cw, ch, failure)
                text = xmlgen.render(mdoc)
            failure["input"] = save_xml(ctx, text, k) if n_fail <= 5 else text[:6000]
            failure["canvas"] = [cw, ch]
            failure["origin"] = origin
            failure["tie_ambiguous_sites_in_document"] = [a[1] for a in xmlspec.spec(mdoc, mcw, mch)["ambiguous"]][:20]
            ctx.oracle_fail(failure)
        elif rc == 0:
            ctx.nontriv(text)
        docruns.append((doc, cw, ch, rc, out, se, failure is None, len(sp["ambiguous"])))
        # the Lean model on the specification's integer config (under the tie resolution that explains the tool)
        if rc not in (0, 1):
            ctx.count("model-run-skipped=tool-crashed")
            continue
        lines.append(xmlspec.model_line(sp["config"]))
        impls.append(("ok %d %s" % (len(out), ",".join(rpucases.unescape(o).hex() for o in out) if out else "-") if rc == 0 and out is not None else "err", se))
    mo, _, _ = common.run_lines_sharded(common.MODEL_EXE, lines)
    ctx.evaluations += len(lines)
    for l, m, (impl, se) in zip(lines, mo, impls):
        if m != impl:
            ctx.disagree("generate --xml (GenModel on the specification's integer config)", l[:4000], m[:300], impl[:300] + " | " + se[-150:])

    # the same documents, tokenised, through the Lean document model (version detection, target filter, trim
    # selection, block order, defaults: Model/XmlDoc.lean) - the tool's bytes must be the model's
    doclines = doc_model_compare(ctx, docruns)

    ctx.extra["documents"] = len(docs)
    ctx.extra["frames_compared"] = frames_cmp
    ctx.extra["fields_compared"] = fields_cmp
    ctx.extra["rounding_sites"] = sites_total
    ctx.extra["tie_ambiguous"] = tie_ambiguous
    ctx.extra["tie_ambiguous_resolved_to_the_neighbour_by_the_tool"] = tie_flipped
    ctx.hist["tie_ambiguous"] = tie_ambiguous

    # 3. probes outside the quantifier
    probes(ctx, rng.fork("probes"))

    ctx.sample({"document": docs[10][3][:1500] + "...", "canvas": [docs[10][1], docs[10][2]]})
    ctx.sample({"model_line": lines[10][:600]})
    if len(doclines) > 10:
        ctx.sample({"doc_model_line": doclines[10][:600]})
    ctx.sample({"xmlenc": [list(c) for c in cases[:8]]})
    log = common.log
    log("C11: %d documents, %d frames / %d fields compared, %d rounding sites, %d tie_ambiguous (%d resolved to the neighbour)"
        % (len(docs), frames_cmp, fields_cmp, sites_total, tie_ambiguous, tie_flipped))
