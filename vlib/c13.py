"""C13 — start-code emulation prevention is exact and output NAL framing is unambiguous."""
import itertools
import os

from . import common

ALPHA = [0x00, 0x01, 0x02, 0x03, 0x04, 0xFF]


def hx(b):
    return bytes(b).hex() if len(b) else "-"


def forbidden(e):
    for i in range(len(e) - 2):
        if e[i] == 0 and e[i + 1] == 0 and e[i + 2] < 3:
            return True
    return False


def py_unesc(d):
    out = bytearray()
    for i, b in enumerate(d):
        if i >= 2 and d[i - 2] == 0 and d[i - 1] == 0 and b == 3:
            continue
        out.append(b)
    return bytes(out)


def oracle_lines(ctx, payloads, who="esc"):
    """direct oracle on the real code: esc through the implementation, then unesc through the
    implementation; no forbidden triple, exact round trip, inserted bytes only"""
    lines = ["%s %s" % (who, hx(p)) for p in payloads]
    outs, _, _ = common.run_lines_sharded(common.LIBCASE, lines)
    esc_out = []
    for p, o in zip(payloads, outs):
        if not o.startswith("ok "):
            ctx.oracle_fail({"op": who, "input": hx(p), "observed": o, "expected": "ok <escaped>"})
            esc_out.append(b"")
            continue
        e = bytes.fromhex(o[3:]) if o[3:] != "-" else b""
        esc_out.append(e)
        if len(p) and p[0] != 0 and forbidden(e):
            ctx.oracle_fail({"op": who, "input": hx(p), "observed": o, "expected": "no 00 00 0[0-2] in the escaped form"})
    un = "unesc" if who == "esc" else "hunesc"
    lines2 = ["%s %s" % (un, hx(e)) for e in esc_out]
    outs2, _, _ = common.run_lines_sharded(common.LIBCASE, lines2)
    for p, e, o in zip(payloads, esc_out, outs2):
        if len(p) and p[0] != 0:
            if o != "ok " + hx(p):
                ctx.oracle_fail({"op": who + "+" + un, "input": hx(p), "escaped": hx(e), "observed": o,
                                 "expected": "ok " + hx(p)})
            else:
                ctx.nontriv(hx(p))


def run(ctx):
    ctx.rule = ("exhaustive: all payloads of length <= L over {00,01,02,03,04,FF} behind 0x19 (digest protocol per "
                "(length, first letter) bucket, model vs dolby_vision::utils, direct oracle inside the executor); "
                "line mode: every position of a 00 00 0x triple in longer payloads, random zero-heavy strings with and "
                "without the 0x19 prefix, both the dolby_vision and the hevc_parser copy; non-trivial = the escaped "
                "form differs from the payload or the payload contains 00 00; distinct by payload hash")
    ctx.assumptions = ["payload first byte non-zero at every call site (0x19 RPU prefix; NAL header 7C 01 prepended after escaping)"]
    ctx.build_and_audit()
    L = 8 if ctx.tier == "quick" else 10
    # --- corpus + targeted line-mode cases ---------------------------------------------------
    payloads = []
    for n in range(0, 6):
        for t in itertools.product(ALPHA, repeat=n):
            payloads.append(bytes([0x19]) + bytes(t))
    # every position of a 00 00 0x triple in longer payloads
    rng = ctx.rng.fork("c13")
    for total in (12, 20, 33):
        for pos in range(0, total - 2):
            for x in (0, 1, 2, 3, 4):
                base = bytearray(rng.choice([0x11, 0x80, 0xFF, 0x05]) for _ in range(total))
                base[pos:pos + 3] = bytes([0, 0, x])
                payloads.append(bytes([0x19]) + bytes(base))
                payloads.append(bytes(base))  # without the prefix (first byte may be 0: model only)
    nrand = 4000 if ctx.tier == "quick" else 60000
    for _ in range(nrand):
        n = rng.below(40)
        payloads.append(bytes([0x19]) + bytes(rng.choice(ALPHA + [0, 0, 0]) for _ in range(n)))
    for _ in range(nrand // 4):
        n = rng.below(24)
        payloads.append(bytes(rng.choice(ALPHA + [0, 0]) for _ in range(n)))
    lines = []
    for p in payloads:
        for op in ("esc", "unesc", "hesc", "hunesc"):
            lines.append("%s %s" % (op, hx(p)))
    mo, io_ = ctx.correspond("esc/unesc", lines)
    for l, o in zip(lines, io_):
        if l.startswith("esc ") and o[3:] != l[4:]:
            ctx.count("escaped_differs")
    ctx.count("line_mode_cases", len(lines))
    for l in lines[:3] + lines[5000:5003]:
        ctx.sample(l)
    oracle_lines(ctx, [p for p in payloads if len(p) and p[0] != 0][:20000], "esc")
    oracle_lines(ctx, [p for p in payloads if len(p) and p[0] != 0][:5000], "hesc")
    # --- exhaustive digests ------------------------------------------------------------------
    dl = []
    for n in range(0, L + 1):
        for first in range(6 if n > 0 else 1):
            dl.append("escdigest %d %d" % (n, first))
    mo, io_ = ctx.correspond("escdigest", dl, shards=16)
    total = 0
    for l, m, r in zip(dl, mo, io_):
        parts = r.split(" ")
        if len(parts) >= 3 and parts[0] == "ok":
            total += int(parts[2])
        if "oracle-fail" in r:
            ctx.oracle_fail({"op": "esc+unesc", "input": parts[-1], "observed": "round trip or forbidden-triple check failed",
                             "expected": "unesc(esc(p)) = p and no 00 00 0[0-2]"})
        if m != r:
            # locate a concrete disagreeing input: shortest first
            found = False
            for n in range(0, 8):
                cand = [bytes([0x19]) + bytes(t) for t in itertools.product(ALPHA, repeat=n)]
                ll = ["esc " + hx(c) for c in cand] + ["unesc " + hx(c) for c in cand]
                a, _, _ = common.run_lines_sharded(common.MODEL_EXE, ll)
                b, _, _ = common.run_lines_sharded(common.LIBCASE, ll)
                for x, y, z in zip(ll, a, b):
                    if y != z:
                        ctx.disagree("esc/unesc (located from digest bucket %s)" % l, x, y, z)
                        found = True
                        break
                if found:
                    break
    # --- the NAL form the tool writes (write_hevc_unspec62_nalu), RPUs with zero runs and 0..9 trailing zeros ---
    from . import rpucases, specgen
    nal_lines = []
    nal_payloads = []
    gen = rpucases.gen_structured(rng.fork("nal"), 250 if ctx.tier == "quick" else 6000)
    for b, _, _ in gen:
        core = b.rstrip(b"\x00")
        for k in ([rng.below(10), rng.below(4)] if ctx.tier == "quick" else range(10)):
            pl = core + b"\x00" * k
            nal_payloads.append(pl)
            nal_lines.append("nalu.write " + hx(b"\x7c\x01" + specgen.escape(pl)))
    nm, ni = ctx.correspond("nalu.write (NAL form of RPUs with zero runs / trailing zeros)", nal_lines)
    for l, o, pl in zip(nal_lines, ni, nal_payloads):
        if not o.startswith("ok ") or o in ("ok werr", "ok wpanic"):
            ctx.count("nal-form=" + o[:8])
            continue
        out = bytes.fromhex(o[3:])
        body = out[2:]
        ctx.count("nal-form=written/trailing-zeros-%d" % (len(pl) - len(pl.rstrip(b"\x00"))))
        ctx.nontriv(hx(pl))
        bad = [i for i in range(len(body) - 2) if body[i] == 0 and body[i + 1] == 0 and body[i + 2] in (0, 1, 2)]
        if out[:2] != b"\x7c\x01" or bad or rpucases.unescape(body) != pl:
            ctx.oracle_fail({"op": "nalu.write", "input": l.split(" ")[1], "observed": o[3:][-60:],
                             "expected": "7c01 ++ escaped payload without 00 00 0[0-2], unescaping to the payload",
                             "shape": "forbidden-triple" if bad else "nal-form-roundtrip"})
    ctx.evaluations += total
    ctx.count("exhaustive_strings", total)
    ctx.extra["exhaustive_max_len"] = L
    ctx.exhaustive = True
    ctx.sample("escdigest %d 0 -> %s" % (L, io_[-6] if len(io_) >= 6 else ""))
    # distinct non-trivial among the exhaustive set: strings containing 00 00 (counted exactly)
    # number of strings of length n over 6 letters containing "00 00": computed by DP, not enumerated twice
    def count_with_zz(n):
        # automaton: state = trailing zeros (0,1), absorbing "seen"
        a0, a1, seen = 1, 0, 0
        for _ in range(n):
            a0, a1, seen = (a0 + a1) * 5, a0, seen * 6 + a1
        return seen
    ctx.extra["exhaustive_strings_containing_00_00"] = sum(count_with_zz(n) for n in range(L + 1))
