"""C01 — unmodified RPUs re-encode byte-exactly (or fail), never silently change."""
from . import common, rpucases, specgen


def hx(b):
    return bytes(b).hex() if len(b) else "-"


def check_write_oracle(ctx, op, inp, trimmed, out):
    """direct oracle on the real code's answer to `rpu.write` / `nalu.write`"""
    if out == "err" or out == "ok werr":
        return "rejected" if out == "err" else "write-error"
    if out.startswith("panic:") and "bitstream_io_reader.rs" in out:
        # the parser did not accept the input (third-party exp-Golomb reader panic: C08's known findings);
        # C01 speaks about accepted inputs only
        return "parser-panic (outside C01: not accepted; see C08)"
    if not out.startswith("ok "):
        ctx.oracle_fail({"op": op, "input": hx(inp), "observed": out, "expected": "ok <same bytes> | write error",
                         "shape": "panic-or-abort"})
        return "crash"
    got = bytes.fromhex(out[3:]) if out[3:] != "-" else b""
    if op == "rpu.write":
        if got != trimmed:
            ctx.oracle_fail({"op": op, "input": hx(inp), "observed": out[3:], "expected": hx(trimmed),
                             "shape": "silent-change"})
            return "changed"
    else:
        # escaped NAL form: 7C 01 ++ escaped payload; compare in emulation-prevention-free form, and
        # byte for byte when the input was canonically escaped
        un_in = rpucases.unescape(trimmed)
        if got[:2] != b"\x7c\x01" or rpucases.unescape(got[2:]) != un_in:
            ctx.oracle_fail({"op": op, "input": hx(inp), "observed": out[3:], "expected": "7c01 ++ escaped(" + hx(un_in) + ")",
                             "shape": "silent-change"})
            return "changed"
        if specgen.escape(un_in) == trimmed and got[2:] != trimmed:
            ctx.oracle_fail({"op": op, "input": hx(inp), "observed": out[3:], "expected": "7c01" + hx(trimmed),
                             "shape": "silent-change-escaped"})
            return "changed"
    ctx.nontriv(hx(trimmed))
    return "same"


def cli_level(ctx, rng, pool):
    """one level up: an empty editor config keeps every RPU of an RPU file and drops none, or fails"""
    import concurrent.futures, json, os
    from . import clirun
    need = ctx.build_and_audit  # noqa (built already)
    ok, out = common.cargo_build_cli()
    if not ok:
        raise common.CheckError("dovi_tool does not build:\n" + out[-3000:])
    pool = [b for b in pool if len(b) >= 25]
    work = clirun.workdir("c01")
    jobs = []
    nfiles = 24 if ctx.tier == "quick" else 300
    for i in range(nfiles):
        k = rng.choice([1, 2, 7, 40, 90, 90])
        rpus = [rng.choice(pool) for _ in range(k)]
        chunk = rng.choice([8192, 8192, 16384, 100000])
        mode = rng.choice(["plain", "exact-multiple", "exact-multiple"])
        if mode == "exact-multiple":
            # the read chunk size divides the file size exactly (the last read returns 0 bytes with an RPU carried over)
            size = sum(4 + len(specgen.escape(b)) for b in rpus)
            divs = [size // m for m in (1, 2, 3, 4) if size % m == 0 and size // m >= 8192]
            if divs:
                chunk = rng.choice(divs)
            else:
                mode = "plain"
        jobs.append((i, rpus, chunk, mode))

    def one(job):
        i, rpus, chunk, mode = job
        d = os.path.join(work, "f%d" % i)
        os.makedirs(d, exist_ok=True)
        inp = os.path.join(d, "in.bin")
        clirun.write_rpu_file(inp, rpus)
        cfg = os.path.join(d, "empty.json")
        open(cfg, "w").write("{}")
        outp = os.path.join(d, "out.bin")
        rc, so, se = clirun.run(["editor", "-i", inp, "-j", cfg, "-o", outp], env={"DOVI_TOOL_VERIF_CHUNK_SIZE": str(chunk)})
        same = rc == 0 and os.path.exists(outp) and open(outp, "rb").read() == open(inp, "rb").read()
        nout = len(clirun.read_rpu_file(outp)) if rc == 0 and os.path.exists(outp) else None
        return rc, same, nout, os.path.getsize(inp)
    try:
        with concurrent.futures.ThreadPoolExecutor(max_workers=12) as ex:
            res = list(ex.map(one, jobs))
        for (i, rpus, chunk, mode), (rc, same, nout, size) in zip(jobs, res):
            ctx.evaluations += 1
            ctx.count("cli-editor-empty/" + mode)
            if rc == 0 and not same:
                rp = os.path.join(common.VERIF, "replays", "C01-editor-empty-%d-%d.bin" % (ctx.seed, i))
                clirun.write_rpu_file(rp, rpus)
                ctx.oracle_fail({"op": "editor {}", "input": rp, "chunk_size": chunk, "file_size": size, "rpus_in": len(rpus),
                                 "observed": "exit 0, %s RPUs out, bytes differ" % nout,
                                 "expected": "byte-identical list or an error", "shape": "cli-identity"})
            elif rc not in (0, 1):
                ctx.oracle_fail({"op": "editor {}", "input": "list of %d RPUs" % len(rpus), "observed": "exit %s" % rc,
                                 "expected": "exit 0 or an error message", "shape": "crash"})
            elif rc == 0:
                ctx.nontriv("cli%d" % i)
    finally:
        clirun.cleanup(work)


def run(ctx):
    ctx.rule = ("structured RPUs from the independent syntax-table encoder (all profile classes, both coefficient types, "
                "2..9 pivots, poly/MMR pieces, NLQ, use_prev, compressed DM, v2.9/v4.0 blocks of every level and length, "
                "shuffled blocks, ext_mapping bits, data before the CRC, trailing zeros), the repository's sample RPUs, "
                "every accepted prefix, CRC-repaired 1..4 byte mutations; each case is parsed and written unmodified by "
                "the model and by the real code (raw and NAL entry points); non-trivial = accepted by the real parser; "
                "distinct by payload hash")
    ctx.assumptions = ["se(v) code numbers below 2^53 (bitvec_helpers get_se goes through f64) — named hypothesis of parse_write_exact",
                       "CLI level (mode 0 / empty editor config) is exercised by C05/C09's correspondence"]
    ctx.build_and_audit()
    rng = ctx.rng.fork("c01")
    n = 2500 if ctx.tier == "quick" else 60000
    cases = []   # (entry op, input bytes, trimmed bytes)
    for name, p in rpucases.asset_rpus():
        cases.append(("asset", p, p))
    gen = rpucases.gen_structured(rng.fork("gen"), n)
    specgen.BIG_SE = 0.02
    try:
        gen += rpucases.gen_structured(rng.fork("bigse"), n // 4)
    finally:
        specgen.BIG_SE = 0.0
    for b, j, tags in gen:
        for t in tags:
            ctx.count(t)
        cases.append(("gen", b, b))
    base = [c[1] for c in cases]
    for b in base[: n]:
        if rng.chance(1, 2):
            m = rpucases.mutate(rng, b)
            cases.append(("mut", m, m))
    lines = []
    meta = []
    for kind, inp, trimmed in cases:
        pfx = rng.choice(rpucases.PREFIXES) if rng.chance(1, 3) else b""
        if pfx == b"\x7c\x01":
            pfx = b""
        full = pfx + inp
        lines.append("rpu.write " + hx(full)); meta.append(("rpu.write", full, trimmed))
        lines.append("rpu.json " + hx(full)); meta.append(("rpu.json", full, trimmed))
        esc = specgen.escape(inp)
        npfx = rng.choice([b"\x7c\x01", b"\x00\x00\x00\x01", b"", b"\x00\x00\x01", b"\x00\x01"])
        nal = npfx + esc
        lines.append("nalu.write " + hx(nal)); meta.append(("nalu.write", nal, esc))
        ctx.count("kind=" + kind)
    def canon(line):
        return "panic" if line.startswith("panic:") else rpucases.canon_json_line(line)
    mo, io_ = ctx.correspond("rpu.write/nalu.write/rpu.json", lines, canon=canon)
    # model-only: which accepted inputs give a parse result inside the hypothesis (RpuWfB) of the write->parse
    # theorem C03.write_parse_sound (for those, the kernel-checked theorem says the unmodified write re-parses to
    # the same RPU); the first failing conjunct is counted otherwise
    wl = ["rpu.wf " + l.split(" ")[1] for l in lines if l.startswith("rpu.write ")]
    wo, _, _ = common.run_lines_sharded(common.MODEL_EXE, wl)
    for l, o in zip(wl, wo):
        if o.startswith("sesmall="):
            f = dict(x.split("=") for x in o.split(" "))
            ctx.count("parsed RPU inside theorem hypothesis" if f["wf"] == "1" else "parsed RPU outside theorem hypothesis (%s)" % f["why"])
            ctx.count("accepted input inside the hypothesis of parse_write_exact (|integer coefficient parts| < 2^52)" if f["sesmall"] == "1"
                      else "accepted input outside parse_write_exact (an integer coefficient part >= 2^52: f64 rounding of get_se; CRC guard only)")
            if f["wf"] == "1" and f["write"] == "ok" and f["reparse"] != "same":
                ctx.disagree("theorem instance (write_parse_sound) on the executable model", l[:3000], "reparse=same", o)
    for (op, inp, trimmed), o in zip(meta, io_):
        if op == "rpu.json":
            continue
        r = check_write_oracle(ctx, op, inp, trimmed, o)
        ctx.count("outcome=" + r)
    for l in lines[:2] + lines[len(lines) // 2: len(lines) // 2 + 2]:
        ctx.sample(l[:400])
    # files are built from RPUs the tool re-encodes unchanged (one failing entry fails the whole command)
    good = []
    for (op, inp, trimmed), o in zip(meta, io_):
        if op == "rpu.write" and o == "ok " + hx(trimmed) and len(trimmed) >= 25:
            good.append(trimmed)
    cli_level(ctx, rng, good)
