"""C01 — unmodified RPUs re-encode byte-exactly (or fail), never silently change."""
from . import common, rpucases, specgen


def hx(b):
    return bytes(b).hex() if len(b) else "-"


def check_write_oracle(ctx, op, inp, trimmed, out):
    """direct oracle on the real code's answer to `rpu.write` / `nalu.write`"""
    if out == "err" or out == "ok werr":
        return "rejected" if out == "err" else "write-error"
    if not out.startswith("ok "):
        ctx.oracle_fail({"op": op, "input": hx(inp), "observed": out, "expected": "ok <same bytes> | write error",
                         "shape": "panic-or-abort"})
        return "crash"
    got = bytes.fromhex(out[3:]) if out[3:] != "-" else b""
    if op == "rpu.write":
        if got != trimmed:
            ctx.oracle_fail({"op": op, "input": hx(inp), "observed": out[3:], "expected": hx(trimmed),
                             "shape": "silent-change"})
            return "changed"
    else:
        # escaped NAL form: 7C 01 ++ escaped payload; compare in emulation-prevention-free form, and
        # byte for byte when the input was canonically escaped
        un_in = rpucases.unescape(trimmed)
        if got[:2] != b"\x7c\x01" or rpucases.unescape(got[2:]) != un_in:
            ctx.oracle_fail({"op": op, "input": hx(inp), "observed": out[3:], "expected": "7c01 ++ escaped(" + hx(un_in) + ")",
                             "shape": "silent-change"})
            return "changed"
        if specgen.escape(un_in) == trimmed and got[2:] != trimmed:
            ctx.oracle_fail({"op": op, "input": hx(inp), "observed": out[3:], "expected": "7c01" + hx(trimmed),
                             "shape": "silent-change-escaped"})
            return "changed"
    ctx.nontriv(hx(trimmed))
    return "same"


def run(ctx):
    ctx.rule = ("structured RPUs from the independent syntax-table encoder (all profile classes, both coefficient types, "
                "2..9 pivots, poly/MMR pieces, NLQ, use_prev, compressed DM, v2.9/v4.0 blocks of every level and length, "
                "shuffled blocks, ext_mapping bits, data before the CRC, trailing zeros), the repository's sample RPUs, "
                "every accepted prefix, CRC-repaired 1..4 byte mutations; each case is parsed and written unmodified by "
                "the model and by the real code (raw and NAL entry points); non-trivial = accepted by the real parser; "
                "distinct by payload hash")
    ctx.assumptions = ["se(v) code numbers below 2^53 (bitvec_helpers get_se goes through f64) — named hypothesis of parse_write_exact",
                       "CLI level (mode 0 / empty editor config) is exercised by C05/C09's correspondence"]
    ctx.build_and_audit()
    rng = ctx.rng.fork("c01")
    n = 2500 if ctx.tier == "quick" else 60000
    cases = []   # (entry op, input bytes, trimmed bytes)
    for name, p in rpucases.asset_rpus():
        cases.append(("asset", p, p))
    gen = rpucases.gen_structured(rng.fork("gen"), n)
    for b, j, tags in gen:
        for t in tags:
            ctx.count(t)
        cases.append(("gen", b, b))
    base = [c[1] for c in cases]
    for b in base[: n]:
        if rng.chance(1, 2):
            m = rpucases.mutate(rng, b)
            cases.append(("mut", m, m))
    lines = []
    meta = []
    for kind, inp, trimmed in cases:
        pfx = rng.choice(rpucases.PREFIXES) if rng.chance(1, 3) else b""
        if pfx == b"\x7c\x01":
            pfx = b""
        full = pfx + inp
        lines.append("rpu.write " + hx(full)); meta.append(("rpu.write", full, trimmed))
        lines.append("rpu.json " + hx(full)); meta.append(("rpu.json", full, trimmed))
        esc = specgen.escape(inp)
        npfx = rng.choice([b"\x7c\x01", b"\x00\x00\x00\x01", b"", b"\x00\x00\x01", b"\x00\x01"])
        nal = npfx + esc
        lines.append("nalu.write " + hx(nal)); meta.append(("nalu.write", nal, esc))
        ctx.count("kind=" + kind)
    mo, io_ = ctx.correspond("rpu.write/nalu.write/rpu.json", lines, canon=rpucases.canon_json_line)
    for (op, inp, trimmed), o in zip(meta, io_):
        if op == "rpu.json":
            continue
        r = check_write_oracle(ctx, op, inp, trimmed, o)
        ctx.count("outcome=" + r)
    for l in lines[:2] + lines[len(lines) // 2: len(lines) // 2 + 2]:
        ctx.sample(l[:400])
