"""C07 — RPU k belongs to displayed frame k, for both extract-rpu and inject-rpu.

Direct oracle on the real binary.  The display order is computed by the generator from the POCs it
chose (sort by POC inside each random-access period); nothing the tool reports is used."""
import os

from . import common
from . import hevcgen as H
from . import hevcmodel as M
from . import hevcref as F
from . import hevcrun as R

HOOK = "DOVI_TOOL_VERIF_CHUNK_SIZE"
REAL_CHUNK = 100000


def _ename(c):
    p = ["extract-rpu"]
    if c.get("mode") is not None:
        p.append("m%d" % c["mode"])
    p.append("chunk=%s" % (c.get("chunk") or "real"))
    p.append("stdin" if c.get("stdin") else "file")
    return " ".join(p)


def _iname(c):
    p = ["inject-rpu", "list=%s" % c["list"]]
    if c.get("no_add_aud"):
        p.append("no_add_aud")
    if c.get("start_code"):
        p.append("sc=" + c["start_code"])
    p.append("chunk=%s" % (c.get("chunk") or "real"))
    if c.get("trailing"):
        p.append("trailing=" + c["trailing"])
    return " ".join(p)


def run_extract(job):
    c = job["cfg"]
    d = job["work"].sub("x")
    env = {HOOK: str(c["chunk"])} if c.get("chunk") else {}
    out_p = os.path.join(d, "RPU.bin")
    g = ["-m", str(c["mode"])] if c.get("mode") is not None else []
    src = "-" if c.get("stdin") else job["input"]
    a = g + ["extract-rpu"] + (["-i", src] if c.get("iflag") else [src]) + ["-o", out_p]
    if c.get("stdin"):
        res = R.run_tool(a, env=env, stdin_data=job["data"], pieces=c["pieces"], cwd=d)
    else:
        res = R.run_tool(a, env=env, cwd=d)
    out = {"job": job, "fail": None, "cmds": [res.cmdline()], "notes": {}}
    exp = job["expected"]
    if job.get("model_ans") is not None:
        m = M.parse_extract(job["model_ans"])
        out["model_steps"] = 1
        if m is None:
            if res.rc == 0 or res.crashed():
                out["model_fail"] = ("hevc.extract", "err (the command fails)", res.brief())
        elif res.rc != 0:
            out["model_fail"] = ("hevc.extract", "ok, %d RPUs" % len(m), res.brief())
        else:
            r = M.compare_list(m, out_p, check_sc=True)
            if r is not None:
                out["model_fail"] = ("hevc.extract", r[0], r[1])
    if job.get("model_only"):
        if res.crashed():
            out["fail"] = ("no crash", res.brief())
        out["class"] = "model-only"
        return out
    if exp is None:
        if res.rc == 0 or res.crashed():
            out["fail"] = ("error exit (library cannot convert an RPU)", res.brief())
        out["class"] = "expected-error"
        return out
    if res.rc != 0:
        out["fail"] = ("exit status 0", res.brief())
        return out
    got = F.read_split(out_p)
    ok, msg, notes = F.compare(got, exp, check_sc=True)
    out["notes"] = notes
    if not ok:
        # say which permutation came out, in terms of the generator's RPU indices
        idx = {e[1]: i for i, e in enumerate(job["decode_order_payloads"])}
        perm = [idx.get(p, -1) for _, p in got]
        out["fail"] = ("RPU file = RPUs of the frames in display order %s (4-byte start codes)" % job["order"][:80],
                       ("decode indices of the extracted RPUs: %s; " % perm[:80]) + msg)
    out["class"] = "ok"
    return out


def run_inject(job):
    c = job["cfg"]
    d = job["work"].sub("i")
    env = {HOOK: str(c["chunk"])} if c.get("chunk") else {}
    rpu_p = os.path.join(d, "in_rpu.bin")
    with open(rpu_p, "wb") as fh:
        fh.write(H.rpu_file_bytes(job["rpus"]))
    out_p = os.path.join(d, "injected.hevc")
    g = ["--start-code", c["start_code"]] if c.get("start_code") else []
    a = g + ["inject-rpu"] + (["-i", job["input"]] if c.get("iflag") else [job["input"]]) + ["--rpu-in", rpu_p, "-o", out_p]
    if c.get("no_add_aud"):
        a.append("--no-add-aud")
    res = R.run_tool(a, env=env, cwd=d)
    out = {"job": job, "fail": None, "cmds": [res.cmdline()], "notes": {}, "class": "ok"}
    if job.get("model_ans") is not None:
        m, merr = M.parse_list(job["model_ans"])
        out["model_steps"] = 1
        if m is None:
            if res.rc == 0 or res.crashed():
                out["model_fail"] = ("hevc.inject", "err (the command fails)", res.brief())
        elif res.rc != 0:
            out["model_fail"] = ("hevc.inject", "ok, %d NAL units" % len(m), res.brief())
        else:
            r = M.compare_list(m, out_p, check_sc=job["check_sc"])
            if r is not None:
                out["model_fail"] = ("hevc.inject", r[0], r[1])
    if res.crashed():
        out["fail"] = ("no crash", res.brief())
        return out
    if job.get("model_only"):
        # NALs behind the last slice: outside the access-unit template the reference oracle speaks about; the Lean
        # model says what the tool does with them (inject_drops_trailing_nals) and only that is compared
        out["class"] = "model-only(trailing NALs)"
        return out
    if res.rc != 0:
        if job["may_fail"]:
            out["class"] = "unspecified-error(no RPU precedes a frame beyond the list)"
            return out
        out["fail"] = ("exit status 0", res.brief())
        return out
    got = F.read_split(out_p)
    ok, msg, notes = F.compare(got, job["expected"], check_sc=False)
    out["notes"] = dict(notes)
    if not ok:
        out["fail"] = ("every frame: [regenerated AUD] original non-RPU NALs in order, rpus[display index] after the last NAL that is "
                       "not EOS/EOB", msg)
        return out
    if job["check_sc"]:
        ok, msg, _ = F.compare(got, job["expected"], check_sc=True)
        if not ok:
            out["fail"] = ("start codes as documented for --start-code %s" % (c.get("start_code") or "four"), msg)
            return out
    # extract(inject(rpus)) = rpus
    back = os.path.join(d, "back.bin")
    env2 = {HOOK: str(c["chunk2"])} if c.get("chunk2") else {}
    res2 = R.run_tool(["extract-rpu", out_p, "-o", back], env=env2, cwd=d)
    out["cmds"].append(res2.cmdline())
    if job.get("model_back") is not None and not out.get("model_fail"):
        m = M.parse_extract(job["model_back"])
        out["model_steps"] = out.get("model_steps", 0) + 1
        if m is None:
            if res2.rc == 0:
                out["model_fail"] = ("hevc.extract (injected)", "err (the command fails)", res2.brief())
        elif res2.rc != 0:
            out["model_fail"] = ("hevc.extract (injected)", "ok, %d RPUs" % len(m), res2.brief())
        else:
            r = M.compare_list(m, back, check_sc=True)
            if r is not None:
                out["model_fail"] = ("hevc.extract (injected)", r[0], r[1])
    if res2.rc != 0:
        out["fail"] = ("extract-rpu of the injected stream succeeds", res2.brief())
        return out
    ok, msg, _ = F.compare(F.read_split(back), job["expected_back"], check_sc=True)
    if not ok:
        out["fail"] = ("extract(inject(rpus)) = rpus (list cut / repeated to the frame count)", msg)
    return out


def run(ctx):
    ctx.rule = ("streams of 1..300 frames whose decode order is a GOP-consistent permutation of the display order (IDR_W_RADL / IDR_N_LP / "
                "CRA with leading RASL/RADL pictures / BLA periods, P/B/non-IRAP-I mini-GOPs of up to 48 pictures (display/decode displacement beyond 16) coded as pyramid, skewed tree, random "
                "permutation, increasing or decreasing, temporal ids 0..6, TSA/STSA/TRAIL_N/TRAIL_R types, POC LSB widths 4, 5, 8 (native) "
                "and 16 with wrap-around, 1..4 slices per frame, EL present or not, AUD/parameter-set/SEI/EOS variations), each frame "
                "tagged with a distinct valid RPU; extract-rpu (file / fragmented stdin, chunk sizes 64/257/4096/100000, -m 0..5) must "
                "return the RPUs sorted by (period, POC) as chosen by the generator; inject-rpu (list length =, <, > frame count, "
                "--no-add-aud, --start-code, existing RPUs present or not) must give every frame rpus[display index] after its last "
                "non-EOS/EOB NAL with all other NALs kept in order, and extract-rpu of the result must give the list back; "
                "non-trivial = passed run on a stream whose decode order differs from its display order; distinct by (stream, config); "
                "about 1 inject-rpu case in 12 carries NALs behind its last slice (an AUD / an AUD + prefix SEI / VPS SPS PPS, which "
                "hevc_parser labels with the frame count): compared with the Lean model only (the tool drops them)")
    ctx.assumptions = ["POC differences to the previous temporal-id-0 reference picture below half the LSB range (H.265 8.3.1 precondition)",
                       "all POCs non-negative; BLA LSBs not far above the previous POC (hevc_parser computes POCs in u64 and overflows "
                       "otherwise: third-party limit, see README-hevcgen.md)",
                       "RPU list shorter than the video: frames displayed beyond the list must carry exactly one RPU that is a member of "
                       "the list (README: 'metadata will be duplicated at the end'); which member is recorded as an observation",
                       "inject-rpu runs use hooked chunk sizes 1024..8192 that hold at least one whole RPU (the hook also sets the RPU "
                       "file reader's chunk) on streams below 100000 bytes"]
    ctx.build_and_audit(need_cli=True)
    rng = ctx.rng.fork("c07")
    quick = ctx.tier == "quick"
    ps = H.ParamSets()
    pool = H.rpu_pool(rng.fork("pool"), 420 if quick else 900, max_len=600)
    rpus_all = [r for r, _ in pool]
    small = sorted(rpus_all, key=len)[:320]
    conv = F.Conv()
    uni = F.universal_rpus(conv, rpus_all)
    uni_small = sorted(uni, key=len)[:320]
    ctx.count("rpu_pool", len(rpus_all))
    ctx.count("rpu_pool_convertible_in_every_mode", len(uni))
    ejobs, ijobs = [], []
    streams = []
    n_ext = 600 if quick else 5000
    n_inj = 450 if quick else 4000
    n_wrap = 4 if quick else 40

    def new_stream(r, nfr, pb, rp, **kw):
        specs = H.gen_structure(r, nfr, poc_bits=pb, max_minigop=r.choice([1, 3, 8, 8, 15, 33, 48]), period_len=(1, r.choice([6, 24, 60, 100])),
                                irap_weights=kw.pop("irap_weights", None), max_lead=r.choice([0, 2, 4, 7]),
                                intra=r.choice([0, 0, 2, 5]))
        base = dict(aud=r.choice(["canonical", "any", "none", "mixed"]), params=r.choice(["irap", "first", "every", "mixed"]),
                    el=r.choice(["none", "none", "free", "parse"]), eos=r.choice(["none", "end", "mid", "every"]),
                    sc=r.choice(["four", "three", "mixed"]), tz=0, pad=(0, r.choice([4, 30])), max_slices=4,
                    prefix_sei=(0, 1), suffix_sei=(0, 1), eos_pos=r.choice(["end", "end", "before_el"]))
        base.update(kw)
        st = H.build_stream(r, H.Codec(ps, pb), specs, rp, **base)
        return st, base

    def reordered(st):
        o = st.display_order()
        return o != list(range(len(o)))

    def stream_stats(st, pb):
        ctx.count("poc_bits=%d" % pb)
        mx = max(f.poc for f in st.specs)
        if mx >= (1 << pb):
            ctx.count("streams with POC LSB wrap-around")
        if any(f.lead for f in st.specs):
            ctx.count("streams with leading pictures")
        if any(f.ntype in (16, 17, 18) for f in st.specs):
            ctx.count("streams with BLA")
        depth = max(abs(k - d) for k, d in enumerate(st.display_order())) if st.specs else 0
        ctx.count("max display/decode displacement=%s" % ("0" if depth == 0 else "1-3" if depth <= 3 else "4-7" if depth <= 7 else "8-16" if depth <= 16 else ">=17"))
        if any(f.stype == H.SLICE_I and not (16 <= f.ntype <= 23) for f in st.specs):
            ctx.count("streams with intra pictures that are not IRAP")
        ctx.count("periods>1" if st.specs[-1].period > 0 else "periods=1")

    # ---------------- extract
    def add_extract(r, st, pb, sid, ncfg):
        data = st.render()
        assert H.nal_seq(data) == st.seq()
        streams.append((st, data))
        for k in range(ncfg):
            c = {"chunk": r.choice([64, 257, 4096, None]), "stdin": r.chance(1, 4), "iflag": r.chance(1, 3)}
            if r.chance(1, 4):
                c["mode"] = r.below(6)
            if not c["stdin"] and c["chunk"] and len(data) >= REAL_CHUNK:
                c["chunk"] = r.choice([1000, 3125, 20000, None])
            if c["stdin"]:
                c["frag"], c["pieces"] = R.fragmentation(r.fork("f%d" % k), len(data), c["chunk"])
            key = F.rpu_key(c.get("mode"))
            conv.ensure([(key, n.data) for n in st.nals() if n.type == H.UNSPEC62])
            exp = F.ref_extract(st, conv, key)
            ejobs.append({"cfg": c, "sid": sid, "expected": exp, "order": st.display_order(), "mline": M.extract_line(st, conv, key),
                          "decode_order_payloads": [(62, x[2:]) for x in st.rpus_in_decode_order()]})

    for i in range(n_ext):
        r = rng.fork("ext%d" % i)
        pb = r.choice([4, 4, 5, 8, 8, 16])
        nfr = r.choice([1, 2, 3, 5, 9, 17, 30, 48, 64])
        if r.chance(5, 6) and len(uni) >= nfr:
            rp = r.shuffle(uni_small if nfr > 30 and len(uni_small) >= nfr else uni)[:nfr]
        else:
            rp = r.shuffle(small if nfr > 30 else rpus_all)[:nfr]
        st, base = new_stream(r, nfr, pb, rp)
        if st.size() > REAL_CHUNK - 3000:
            continue
        stream_stats(st, pb)
        add_extract(r, st, pb, len(streams), 3 if quick else 4)
    # long CRA-chained streams: native 8-bit POC LSBs wrap at 256
    for i in range(n_wrap):
        r = rng.fork("wrap%d" % i)
        nfr = 300
        rp = r.shuffle(small)[:nfr]
        st, base = new_stream(r, nfr, 8, rp, irap_weights={"cra": 1}, el="none", prefix_sei=(0, 0), suffix_sei=(0, 0), max_slices=2,
                              params="irap", pad=(0, 3), eos="none")
        stream_stats(st, 8)
        add_extract(r, st, 8, len(streams), 3)

    # frames without an RPU (outside the property's quantifier; model correspondence only): the tool matches the k-th RPU with
    # the frame decoded k-th, the model says so
    for i in range(12 if quick else 100):
        r = rng.fork("gap%d" % i)
        nfr = r.choice([3, 6, 10])
        st, base = new_stream(r, nfr, 8, r.shuffle(uni_small if len(uni_small) >= nfr else small)[:nfr], el="none")
        for k in set(r.below(nfr) for _ in range(1 + r.below(2))):
            st.aus[k].nals = [n for n in st.aus[k].nals if n.role != "rpu"]
        if st.size() > REAL_CHUNK - 3000:
            continue
        data = st.render()
        streams.append((st, data))
        c = {"chunk": r.choice([257, 4096, None]), "stdin": False, "iflag": False}
        ejobs.append({"cfg": c, "sid": len(streams) - 1, "expected": [], "order": st.display_order(), "model_only": True,
                      "mline": M.extract_line(st, conv, None), "decode_order_payloads": []})

    # ---------------- inject
    for i in range(n_inj):
        r = rng.fork("inj%d" % i)
        pb = r.choice([4, 5, 8, 8, 16])
        nfr = r.choice([1, 2, 3, 5, 9, 17, 30, 45])
        has_rpu = r.chance(1, 3)
        old = r.shuffle(rpus_all)[:nfr]
        st, base = new_stream(r, nfr, pb, old if has_rpu else None, rpu=has_rpu)
        # NALs behind the last slice (own fork: the other choices of the case are those of a run without this family)
        rt = r.fork("trailing")
        trail_kind = rt.choice(M.TRAILING_KINDS) if rt.chance(1, 12) else None
        trail = M.gen_trailing(rt, st.codec, trail_kind, st.specs[-1].stype, {"four": 4, "three": 3}.get(base["sc"])) if trail_kind else []
        data = st.render() + H.render(trail)
        if len(data) > REAL_CHUNK - 3000:
            continue
        stream_stats(st, pb)
        lst = r.choice(["equal", "equal", "shorter", "longer"])
        if lst == "equal" or nfr == 1 and lst == "shorter":
            n_list = nfr
            lst = "equal"
        elif lst == "shorter":
            n_list = 1 + r.below(nfr - 1) if r.chance(3, 4) else nfr - 1
        else:
            n_list = nfr + 1 + r.below(5)
        fresh = [x for x in r.shuffle(rpus_all) if x not in old][:n_list]
        if len(fresh) < n_list:
            continue
        mx = max(len(x) for x in fresh) + 16
        cands = [c_ for c_ in (1024, 2048, 4096, 8192) if c_ >= mx] + [None]
        c = {"list": lst, "no_add_aud": r.chance(1, 3), "start_code": r.choice([None, None, "four", "annex-b"]),
             "chunk": r.choice(cands), "chunk2": r.choice([64, 257, 4096, None]), "iflag": r.chance(1, 2)}
        if trail_kind:
            c["trailing"] = trail_kind
        exp = None if trail_kind else F.ref_inject(st, fresh, no_add_aud=c["no_add_aud"], start_code=c["start_code"])
        pres = st.pres()
        # an error is tolerated only when a frame beyond the list is decoded before any frame inside it
        may_fail = False
        if n_list < nfr:
            seen_inside = False
            for d_ in range(nfr):
                if pres[d_] < n_list:
                    seen_inside = True
                elif not seen_inside:
                    may_fail = True
                    break
        back = []
        for k in range(nfr):
            if k < n_list:
                back.append((H.nal_type(fresh[k][2:]), fresh[k][2:], 4))
            else:
                back.append((H.nal_type(fresh[-1][2:]), F.AnyOf([x[2:] for x in fresh], fresh[-1][2:]), 4))
        sid = len(streams)
        streams.append((st, data))
        ijobs.append({"cfg": c, "sid": sid, "rpus": fresh, "expected": exp, "expected_back": back, "may_fail": may_fail,
                      "mline": M.inject_line(st, fresh, no_add_aud=c["no_add_aud"], start_code=c["start_code"], trailing=trail),
                      "pres": pres, "check_sc": True, "has_rpu": has_rpu, "nfr": nfr, "n_list": n_list, "model_only": bool(trail_kind)})

    with R.Work("C07") as work:
        for sid, (st, data) in enumerate(streams):
            with open(os.path.join(work.dir, "s%d.hevc" % sid), "wb") as fh:
                fh.write(data)
        for j in ejobs + ijobs:
            j["work"] = work
            j["input"] = os.path.join(work.dir, "s%d.hevc" % j["sid"])
            j["data"] = streams[j["sid"]][1]
        n_model = M.attach(ejobs) + M.attach(ijobs)
        for j in ijobs:
            # extract-rpu of what the model says inject-rpu writes; only the labels of the RPUs matter there
            # (k-th RPU = frame k, one RPU per frame)
            m, _ = M.parse_list(j["model_ans"])
            if m is not None and not j.get("model_only"):
                items, k = [], 0
                for t, d, _ in m:
                    items.append((t, d, k))
                    k += 1 if t == H.UNSPEC62 else 0
                j["mline_back"] = "hevc.extract - %d %s - %s" % (j["nfr"], ",".join(str(x) for x in j["pres"]) or "-", M.items_str(items))
        n_model += M.attach(ijobs, "mline_back", "model_back")
        ctx.count("cases through the Lean model (hevc.extract / hevc.inject)", n_model)
        res_e = R.pmap(run_extract, ejobs)
        res_i = R.pmap(run_inject, ijobs)
        for kind, results in (("extract", res_e), ("inject", res_i)):
            for k, o in enumerate(results):
                j = o["job"]
                c = j["cfg"]
                st, data = streams[j["sid"]]
                ctx.evaluations += len(o["cmds"])
                name = _ename(c) if kind == "extract" else _iname(c)
                ctx.count("cmd=" + kind)
                ctx.count("%s chunk=%s" % (kind, c.get("chunk") or "real-100000"))
                if kind == "extract":
                    ctx.count("extract input=%s" % ("stdin/" + c.get("frag", "") if c.get("stdin") else "file"))
                    ctx.count("extract mode=%s" % ("none" if c.get("mode") is None else c["mode"]))
                else:
                    ctx.count("inject list=%s" % c["list"])
                    ctx.count("inject existing_rpus=%d" % (1 if j["has_rpu"] else 0))
                    ctx.count("inject start_code=%s" % (c.get("start_code") or "default"))
                    if c.get("no_add_aud"):
                        ctx.count("inject opt=no_add_aud")
                    if c.get("trailing"):
                        ctx.count("inject NALs behind the last slice (model correspondence only)")
                        ctx.count("inject trailing=%s%s" % (c["trailing"], " no_add_aud" if c.get("no_add_aud") else ""))
                for kk, vv in o["notes"].items():
                    ctx.count("note:" + kk, vv)
                ctx.count("outcome=" + ("FAIL" if o["fail"] else o.get("class", "ok")))
                if not o["fail"] and o.get("class") == "ok" and reordered(st):
                    ctx.nontriv("%d/%s" % (j["sid"], name))
                if k % 131 == 0:
                    ctx.sample("stream#%d (%d frames, display order %s..): %s -> %s" % (
                        j["sid"], len(st.aus), st.display_order()[:12], " && ".join(x.replace(work.dir, "$W") for x in o["cmds"]), o.get("class")))
                ctx.count("model steps compared with the CLI", o.get("model_steps", 0))
                if o.get("model_fail"):
                    mop, mm, mi = o["model_fail"]
                    files = {"input.hevc": data}
                    if kind == "inject":
                        files["in_rpu.bin"] = H.rpu_file_bytes(j["rpus"])
                    d = R.save_replay(ctx, "model-%s-s%d" % (kind, j["sid"]), files,
                                      {"commands": [x.replace(work.dir, ".").replace("./s%d.hevc" % j["sid"], "input.hevc") for x in o["cmds"]],
                                       "config": {x: y for x, y in c.items() if x != "pieces"}, "model_op": mop, "model": mm,
                                       "implementation": mi, "display_order_by_generator": st.display_order(), "structure": H.describe(st, 80)})
                    ctx.disagree(mop + " " + name, "%s (seed %d, %d frames): %s" % (d or "stream#%d" % j["sid"], ctx.seed, len(st.aus),
                                 " && ".join(x.replace(work.dir, "$W") for x in o["cmds"])), mm, mi)
                if o["fail"]:
                    files = {"input.hevc": data}
                    if kind == "inject":
                        files["in_rpu.bin"] = H.rpu_file_bytes(j["rpus"])
                    d = R.save_replay(ctx, "%s-s%d" % (kind, j["sid"]), files,
                                      {"commands": [x.replace(work.dir, ".").replace("./s%d.hevc" % j["sid"], "input.hevc") for x in o["cmds"]],
                                       "config": {x: y for x, y in c.items() if x != "pieces"}, "expected": o["fail"][0],
                                       "observed": o["fail"][1], "display_order_by_generator": st.display_order(),
                                       "structure": H.describe(st, 80)})
                    ctx.oracle_fail({"op": "cli " + name,
                                     "input": "%s (seed %d, %d frames)" % (d or "stream#%d" % j["sid"], ctx.seed, len(st.aus)),
                                     "command": " && ".join(x.replace(work.dir, "$W") for x in o["cmds"]),
                                     "observed": o["fail"][1][:1500], "expected": o["fail"][0]})
    fb_last = ctx.hist.get("note:fallback=last", 0)
    fb_other = ctx.hist.get("note:fallback=other-member", 0)
    if fb_other:
        ctx.notes.append("RPU list shorter than the video: %d frames beyond the list received the last list entry, %d received an earlier "
                         "entry (the tool repeats the RPU written last in decode order, which is not always the last of the list)"
                         % (fb_last, fb_other))


def replay(ctx, path):
    """every case is a deterministic function of (seed, tier): a replay re-runs the check with the seed and
    tier recorded in the replay file (the offending input files are kept next to it for inspection)"""
    import json
    d = json.load(open(path))
    ctx.seed = int(d.get("seed", ctx.seed))
    ctx.tier = d.get("tier", ctx.tier)
    ctx.rng = common.Lcg(ctx.seed)
    run(ctx)
    return ctx.finish()
