"""Shared machinery of ./check: build steps, axiom audit, model/implementation execution, verdict,
evidence. See DESIGN.md section 2."""
import hashlib
import json
import os
import re
import subprocess
import sys
import time

VERIF = os.path.dirname(os.path.dirname(os.path.abspath(__file__)))
REPO = os.environ.get("VERIF_REPO", "/repo")
LEAN_DIR = os.path.join(VERIF, "lean")
HARNESS = os.path.join(VERIF, "harness")
BUILD = os.path.join(VERIF, "build")
TARGET = os.path.join(BUILD, "target")
CLI_TARGET = os.path.join(BUILD, "target-cli")
WORK = os.path.join(BUILD, "work")
MODEL_EXE = os.path.join(LEAN_DIR, ".lake", "build", "bin", "dovi_model")
LIBCASE = os.path.join(TARGET, "debug", "libcase")
DOVI_TOOL = os.path.join(CLI_TARGET, "debug", "dovi_tool")

ALLOWED_AXIOMS = {"propext", "Classical.choice", "Quot.sound"}
FORBIDDEN_TOKENS = r"sorry|admit|^axiom |native_decide|bv_decide|implemented_by|unsafe |maxHeartbeats 0"

TRUSTED_BASE = [
    "Lean 4.33.0 kernel; axioms allowed in property theorems: propext, Classical.choice, Quot.sound (audited by #print axioms on every run)",
    "the statements in lean/DoviModel/Props/*.lean; the hand-written model lean/DoviModel/Model/*.lean is modelled, not verified: it is tied to /repo on every run by (a) the correspondence check and (b), for the data-driven syntax tables and the decision rules (validate functions, profile/MEL classification, sort keys, conversion-mode table, L1 clamp, ST 2084 and T.35 constants), the translators tools/gen_source_layouts.py, tools/gen_source_rules.py and tools/gen_source_cstructs.py (repr(C) structs and From impls of the C API) and the source pins tools/check_source_pins.py (normalised text of the functions the translators read only in part or not at all) + the tie theorems of Props/SourceTie.lean and Props/C04,C10,C12,C15,C19,C20 (source_*)",
    "independent statements of the intended behaviour used as direct oracles: vlib/specgen.py (RPU syntax, DESIGN.md Appendix B), vlib/hevcref.py (stream commands), vlib/xmlspec.py (CM XML formulas, exact rationals), the 60-digit ST 2084 evaluation in vlib/c19.py",
    "the correspondence check: harness/libcase (thin Rust executor around the real functions), lean/Driver (printer), vlib/*.py (generation, diff)",
    "modelled, not verified: third-party crates as pinned by /repo/Cargo.lock (bitstream-io, bitvec_helpers, crc, hevc_parser, serde_json, roxmltree, clap, hdr10plus, madvr_parse), the OS, IEEE-754/libm",
    "build profile dev (overflow checks and debug assertions on)",
]


def supporting_only(prop, theorems):
    """theorems classed (lean/theorem_classes.json, from an independent audit) as restated definitions, unfoldings,
    helper lemmas or copies: kernel-checked, but carrying no weight for the property on their own"""
    try:
        cls = json.load(open(os.path.join(LEAN_DIR, "theorem_classes.json")))
    except (OSError, ValueError):
        return []
    names = set(cls.get(prop, []))
    return sorted(t for t in theorems if t.split(".")[-1] in names)


class CheckError(Exception):
    pass


def log(*a):
    print(*a, file=sys.stderr, flush=True)


def sh(cmd, cwd=None, env=None, timeout=None, check=True, input=None):
    e = dict(os.environ)
    e["CARGO_NET_OFFLINE"] = "true"
    if env:
        e.update(env)
    r = subprocess.run(cmd, cwd=cwd, env=e, capture_output=True, text=True, timeout=timeout, input=input)
    if check and r.returncode != 0:
        raise CheckError("command failed (%d): %s\n%s\n%s" % (r.returncode, " ".join(cmd), r.stdout[-4000:], r.stderr[-4000:]))
    return r


# ---------------------------------------------------------------------------------------------
# build steps
# ---------------------------------------------------------------------------------------------

def lake_build(targets):
    """returns (ok, output)"""
    r = sh(["lake", "build"] + targets, cwd=LEAN_DIR, check=False, timeout=3600)
    return r.returncode == 0, (r.stdout + r.stderr)


def strip_lean_comments(src):
    # block comments (nested not handled beyond one level; our files do not nest) and line comments
    out = []
    i = 0
    depth = 0
    n = len(src)
    while i < n:
        if src.startswith("/-", i):
            depth += 1
            i += 2
        elif depth > 0 and src.startswith("-/", i):
            depth -= 1
            i += 2
        elif depth > 0:
            i += 1
        elif src.startswith("--", i):
            j = src.find("\n", i)
            i = n if j < 0 else j
        else:
            out.append(src[i])
            i += 1
    return "".join(out)


def import_closure(module):
    """files of this project transitively imported by `module` (e.g. DoviModel.Props.C13)"""
    seen = {}
    todo = [module]
    while todo:
        m = todo.pop()
        if m in seen:
            continue
        p = os.path.join(LEAN_DIR, *m.split(".")) + ".lean"
        if not os.path.exists(p):
            continue
        seen[m] = p
        for line in open(p):
            mm = re.match(r"\s*import\s+((?:DoviModel|Driver)\.[\w.]+)", line)
            if mm:
                todo.append(mm.group(1))
    return seen


def forbidden_token_hits(module=None):
    """forbidden tokens (comments stripped) in the sources the property module depends on, and in the driver"""
    files = {}
    if module:
        files.update(import_closure(module))
    files.update(import_closure("Driver.Main"))
    hits = []
    for m, p in sorted(files.items()):
        src = strip_lean_comments(open(p).read())
        for ln, line in enumerate(src.split("\n"), 1):
            if re.search(FORBIDDEN_TOKENS, line):
                hits.append("%s:%d: %s" % (os.path.relpath(p, VERIF), ln, line.strip()))
    return hits


def theorem_names(prop_id):
    """theorems declared in Props/<id>.lean, fully qualified"""
    p = os.path.join(LEAN_DIR, "DoviModel", "Props", prop_id + ".lean")
    src = strip_lean_comments(open(p).read())
    ns = []
    names = []
    for line in src.split("\n"):
        m = re.match(r"\s*namespace\s+(\S+)", line)
        if m:
            ns.append(m.group(1))
            continue
        m = re.match(r"\s*end\s+(\S+)", line)
        if m and ns and ns[-1].endswith(m.group(1)):
            ns.pop()
            continue
        m = re.match(r"\s*(?:private\s+|protected\s+)?theorem\s+(\S+)", line)
        if m:
            names.append(".".join(ns + [m.group(1)]))
    return names


def axiom_audit(prop_id):
    """returns dict name -> list of axioms (or None if the theorem could not be printed)"""
    names = theorem_names(prop_id)
    os.makedirs(WORK, exist_ok=True)
    f = os.path.join(WORK, "Audit_%s.lean" % prop_id)
    with open(f, "w") as fh:
        fh.write("import DoviModel.Props.%s\n" % prop_id)
        for n in names:
            fh.write("#print axioms %s\n" % n)
    r = sh(["lake", "env", "lean", f], cwd=LEAN_DIR, check=False, timeout=1800)
    out = r.stdout + r.stderr
    res = {n: None for n in names}
    # messages may wrap over several lines: join then parse
    flat = re.sub(r"\s+", " ", out)
    for n in names:
        m = re.search(r"'%s' depends on axioms: \[([^\]]*)\]" % re.escape(n), flat)
        if m:
            res[n] = [a.strip() for a in m.group(1).split(",") if a.strip()]
        elif re.search(r"'%s' does not depend on any axioms" % re.escape(n), flat):
            res[n] = []
    return res, out


def cargo_build_harness():
    # the lock file of the repository pins every third-party crate
    lock_src = os.path.join(REPO, "Cargo.lock")
    lock_dst = os.path.join(HARNESS, "Cargo.lock")
    try:
        if not os.path.exists(lock_dst):
            open(lock_dst, "w").write(open(lock_src).read())
    except OSError:
        pass
    r = sh(["cargo", "build", "--offline"], cwd=HARNESS, check=False, timeout=3600,
           env={"CARGO_TARGET_DIR": TARGET})
    return r.returncode == 0, r.stdout + r.stderr


def cargo_build_cli():
    r = sh(["cargo", "build", "--offline", "--features", "verif_hooks", "--manifest-path",
            os.path.join(REPO, "Cargo.toml")], check=False, timeout=3600,
           env={"CARGO_TARGET_DIR": CLI_TARGET})
    return r.returncode == 0, r.stdout + r.stderr


# ---------------------------------------------------------------------------------------------
# line protocol
# ---------------------------------------------------------------------------------------------

def run_lines(exe, lines, timeout=3600, env=None, args=None):
    """feeds the lines to the executable, returns the list of output lines"""
    data = "\n".join(lines) + "\n"
    r = sh([exe] + (args or []), input=data, check=False, timeout=timeout, env=env)
    out = r.stdout.split("\n")
    if out and out[-1] == "":
        out.pop()
    return out, r.returncode, r.stderr


def run_lines_sharded(exe, lines, shards=16, timeout=3600, env=None):
    """run the executable on `shards` slices in parallel; output order preserved"""
    import concurrent.futures
    n = len(lines)
    if n == 0:
        return [], 0, ""
    shards = max(1, min(shards, n))
    step = (n + shards - 1) // shards
    parts = [lines[i:i + step] for i in range(0, n, step)]
    outs = [None] * len(parts)
    rc = 0
    errs = []
    with concurrent.futures.ThreadPoolExecutor(max_workers=len(parts)) as ex:
        futs = {ex.submit(run_lines, exe, p, timeout, env): i for i, p in enumerate(parts)}
        for fu in concurrent.futures.as_completed(futs):
            i = futs[fu]
            o, c, e = fu.result()
            if len(o) != len(parts[i]):
                # a crash (abort) inside a shard: pad so that the caller can locate it
                o = o + ["abort"] + ["not-run"] * (len(parts[i]) - len(o) - 1)
                rc = rc or c or 1
            outs[i] = o
            if e:
                errs.append(e[-2000:])
    flat = []
    for o in outs:
        flat.extend(o)
    return flat, rc, "\n".join(errs)


def run_lines_resilient(exe, lines, env=None, per_line_s=0.02, base_s=20.0):
    """like run_lines, but a process death (abort, stack overflow, OOM kill) or a hang is attributed to the
    line being processed (`abort` / `timeout`) and the remaining lines are run in a fresh process"""
    out = []
    i = 0
    n = len(lines)
    restarts = 0
    while i < n:
        chunk = lines[i:]
        data = "\n".join(chunk) + "\n"
        e = dict(os.environ)
        if env:
            e.update(env)
        try:
            r = subprocess.run([exe], input=data, capture_output=True, text=True, env=e,
                               timeout=base_s + per_line_s * len(chunk))
            got = r.stdout.split("\n")
            if got and got[-1] == "":
                got.pop()
            verdict = "abort"
        except subprocess.TimeoutExpired as ex:
            so = ex.stdout or ""
            if isinstance(so, bytes):
                so = so.decode(errors="replace")
            got = so.split("\n")
            # the last element may be a partial line
            if got:
                got.pop()
            verdict = "timeout"
        out.extend(got[: len(chunk)])
        i += min(len(got), len(chunk))
        if i < n and len(got) < len(chunk):
            out.append(verdict)
            i += 1
            restarts += 1
            if restarts > 3000:
                out.extend(["not-run"] * (n - i))
                break
    return out


def run_lines_resilient_sharded(exe, lines, shards=16, env=None):
    import concurrent.futures
    n = len(lines)
    if n == 0:
        return []
    shards = max(1, min(shards, n))
    # strided shards: process deaths cluster in the input families that provoke them, striding spreads the
    # restarts evenly
    parts = [lines[k::shards] for k in range(shards)]
    with concurrent.futures.ThreadPoolExecutor(max_workers=len(parts)) as ex:
        res = list(ex.map(lambda p: run_lines_resilient(exe, p, env), parts))
    flat = [None] * n
    for k, r in enumerate(res):
        if len(r) != len(parts[k]):
            r = (r + ["not-run"] * len(parts[k]))[: len(parts[k])]
        flat[k::shards] = r
    return flat


class Lcg:
    """the one PRNG state every random choice derives from"""

    def __init__(self, seed):
        self.s = (seed * 6364136223846793005 + 1442695040888963407) & (2**64 - 1)

    def next(self):
        self.s = (self.s * 6364136223846793005 + 1442695040888963407) & (2**64 - 1)
        return self.s >> 11

    def below(self, n):
        return self.next() % n if n > 0 else 0

    def choice(self, xs):
        return xs[self.below(len(xs))]

    def chance(self, num, den):
        return self.below(den) < num

    def bytes(self, n):
        return bytes(self.below(256) for _ in range(n))

    def shuffle(self, xs):
        xs = list(xs)
        for i in range(len(xs) - 1, 0, -1):
            j = self.below(i + 1)
            xs[i], xs[j] = xs[j], xs[i]
        return xs

    def fork(self, tag):
        h = hashlib.sha256(("%d/%s" % (self.s, tag)).encode()).digest()
        return Lcg(int.from_bytes(h[:8], "big"))


# ---------------------------------------------------------------------------------------------
# known findings
# ---------------------------------------------------------------------------------------------

def load_known_findings(prop_id):
    p = os.path.join(VERIF, "known_findings.json")
    if not os.path.exists(p):
        return []
    d = json.load(open(p))
    return [f for f in d.get("findings", []) if f.get("property") == prop_id and f.get("status") == "known"]


def match_known(finding_list, failure):
    """failure: dict with keys such as op, input, site, shape; a known entry matches when every key of
    its `match` object equals (or, for `input_prefix`, prefixes) the failure's value"""
    for f in finding_list:
        m = f.get("match", {})
        ok = True
        for k, v in m.items():
            fv = failure.get(k)
            if isinstance(v, dict) and "any_of" in v:
                if fv not in v["any_of"]:
                    ok = False
            elif k.endswith("_contains"):
                key = k[: -len("_contains")]
                if v not in str(failure.get(key, "")):
                    ok = False
            elif fv != v:
                ok = False
            if not ok:
                break
        if ok and m:
            return f
    return None


# ---------------------------------------------------------------------------------------------
# run context: collects everything a check observed and renders verdict + evidence
# ---------------------------------------------------------------------------------------------

class Ctx:
    def __init__(self, prop_id, tier, seed):
        self.prop = prop_id
        self.tier = tier
        self.seed = seed
        self.t0 = time.time()
        self.evaluations = 0
        self.nontrivial = set()
        self.samples = []
        self.hist = {}
        self.disagreements = []      # model vs implementation
        self.oracle_failures = []    # implementation vs property (direct oracle)
        self.proof_failures = []     # broken proof obligations / audit
        self.known_hit = []
        self.notes = []
        self.obligations = 0
        self.discharged = 0
        self.theorems = {}
        self.exhaustive = False
        self.rule = ""
        self.assumptions = []
        self.extra = {}
        self.known = load_known_findings(prop_id)
        self.rng = Lcg(seed)

    # -- bookkeeping -----------------------------------------------------------------------
    def count(self, key, n=1):
        self.hist[key] = self.hist.get(key, 0) + n

    def nontriv(self, case):
        self.nontrivial.add(hashlib.blake2b(case.encode() if isinstance(case, str) else case, digest_size=8).digest())

    def sample(self, s, cap=12):
        if len(self.samples) < cap:
            self.samples.append(s)

    def disagree(self, op, case, model, impl):
        self.disagreements.append({"op": op, "case": case[:4000], "model": model[:2000], "impl": impl[:2000]})

    def oracle_fail(self, failure):
        """failure: dict(op, input, observed, expected, ...); sorted into known findings or violations"""
        k = match_known(self.known, failure)
        if k is not None:
            if k["id"] not in [x["id"] for x in self.known_hit]:
                self.known_hit.append({"id": k["id"], "what": k["what"], "example": failure})
        else:
            self.oracle_failures.append(failure)

    # -- steps -----------------------------------------------------------------------------
    def build_and_audit(self, extra_targets=None, need_cli=False, need_harness=True):
        prop_mod = "DoviModel.Props.%s" % self.prop
        # translator part of the tie: regenerate the data-driven syntax tables from /repo's sources; the
        # theorems of Props/SourceTie.lean (imported by Props/C01-C03) prove them identical to the model's tables;
        # gen_source_rules.py does the same for the decision rules (Gen/SourceRules.lean)
        # gen_source_cstructs.py does the same for the repr(C) structs and From impls of the C API (Gen/SourceCStructs.lean)
        for tool in ("gen_source_layouts.py", "gen_source_rules.py", "gen_source_cstructs.py", "check_source_pins.py"):
            g = sh([sys.executable, os.path.join(VERIF, "tools", tool), "/repo"], cwd=VERIF, check=False, timeout=120)
            if g.returncode != 0:
                self.proof_failures.append({"what": "source translator %s: a Rust source file no longer has the shape the extraction expects "
                                                    "(the tie theorems are no longer re-checked against the current source)" % tool,
                                            "output": (g.stdout + g.stderr)[-1500:]})
        ok, out = lake_build([prop_mod, "dovi_model"] + (extra_targets or []))
        if not ok:
            self.proof_failures.append({"what": "lake build failed", "module": prop_mod, "output": out[-3000:]})
        else:
            ax, out = axiom_audit(self.prop)
            self.obligations = len(ax)
            for n, a in ax.items():
                self.theorems[n] = a
                if a is None:
                    self.proof_failures.append({"what": "theorem not found by #print axioms", "theorem": n})
                elif not set(a) <= ALLOWED_AXIOMS:
                    self.proof_failures.append({"what": "axioms outside the allowed set", "theorem": n, "axioms": a})
                else:
                    self.discharged += 1
            hits = forbidden_token_hits(prop_mod)
            if hits:
                self.proof_failures.append({"what": "forbidden tokens in lean sources", "hits": hits[:20]})
        if self.tier == "thorough" and ok:
            r = sh(["lake", "env", "leanchecker", prop_mod], cwd=LEAN_DIR, check=False, timeout=3600)
            self.extra["leanchecker_rc"] = r.returncode
            if r.returncode != 0:
                self.proof_failures.append({"what": "leanchecker rejected the module", "output": (r.stdout + r.stderr)[-2000:]})
        if need_harness:
            ok2, out2 = cargo_build_harness()
            if not ok2:
                raise CheckError("harness does not build against /repo:\n" + out2[-4000:])
        if need_cli:
            ok3, out3 = cargo_build_cli()
            if not ok3:
                raise CheckError("dovi_tool does not build:\n" + out3[-4000:])
        return ok

    def correspond(self, op_name, lines, shards=16, canon=None, timeout=3600):
        """runs the same lines through model and implementation, records disagreements; returns
        (model_out, impl_out)"""
        if not lines:
            return [], []
        if os.path.exists(MODEL_EXE):
            mo, _, merr = run_lines_sharded(MODEL_EXE, lines, shards, timeout)
        else:
            mo = ["model-missing"] * len(lines)
        io_, _, ierr = run_lines_sharded(LIBCASE, lines, shards, timeout)
        self.evaluations += len(lines)
        for i, l in enumerate(lines):
            m = mo[i] if i < len(mo) else "missing"
            r = io_[i] if i < len(io_) else "missing"
            cm, cr = (canon(m), canon(r)) if canon else (m, r)
            # the executor reports a panic with its source location, the model only the class
            if cr.startswith("panic:"):
                cr = "panic"
            if cm != cr:
                self.disagree(op_name, l, m, r)
        return mo, io_

    # -- verdict ---------------------------------------------------------------------------
    def finish(self):
        wall = time.time() - self.t0
        violations = 0
        out_lines = []
        os.makedirs(os.path.join(VERIF, "replays"), exist_ok=True)
        # replays of an earlier run with this property and seed are stale now
        import glob
        for old in glob.glob(os.path.join(VERIF, "replays", "%s-%d-*.json" % (self.prop, self.seed))):
            os.unlink(old)
        if self.disagreements:
            json.dump(self.disagreements[:20], open(os.path.join(VERIF, "replays", "%s-%d-disagreements.json" % (self.prop, self.seed)), "w"), indent=1)
        for k in self.known_hit:
            out_lines.append("KNOWN-FINDING: property=%s %s" % (self.prop, k["what"]))
        # 1. direct oracle failures on the real code: violation with the failing input as replay
        for n, f in enumerate(self.oracle_failures[:5]):
            p = os.path.join(VERIF, "replays", "%s-%d-%d.json" % (self.prop, self.seed, n))
            json.dump({"property": self.prop, "kind": "implementation-vs-property (direct oracle on the real code)",
                       "seed": self.seed, "tier": self.tier, "failure": f,
                       "how_to_replay": "./check %s --replay %s" % (self.prop, p)}, open(p, "w"), indent=1)
            out_lines.append("VIOLATION property=%s replay=%s" % (self.prop, p))
            violations += 1
        # 2. broken proof or correspondence without a failing input
        if not self.oracle_failures and (self.proof_failures or self.disagreements):
            p = os.path.join(VERIF, "replays", "%s-%d-unproved.json" % (self.prop, self.seed))
            json.dump({"property": self.prop,
                       "kind": "proof obligation or model/implementation correspondence no longer checks; the widened search found no input on which the property fails",
                       "seed": self.seed, "tier": self.tier,
                       "broken_proof_obligations": self.proof_failures[:10],
                       "correspondence_disagreements": self.disagreements[:10],
                       "n_disagreements": len(self.disagreements)}, open(p, "w"), indent=1)
            out_lines.append("VIOLATION property=%s replay=%s no-failing-input-found" % (self.prop, p))
            violations += 1
        ev = {
            "property_id": self.prop,
            "tier": self.tier,
            "seed": self.seed,
            "level": "proof",
            "coverage": {
                "obligations": self.obligations,
                "discharged": self.discharged,
                "checker_cmd": "cd lean && lake build DoviModel.Props.%s && lake env lean <#print axioms of every theorem>%s" % (
                    self.prop, " && lake env leanchecker DoviModel.Props.%s" % self.prop if self.tier == "thorough" else ""),
                "trusted_base": TRUSTED_BASE,
                "theorems": {k: v for k, v in self.theorems.items()},
                "theorems_supporting_only": supporting_only(self.prop, self.theorems),
                "evaluations": self.evaluations,
                "distinct_nontrivial": len(self.nontrivial),
                "rule": self.rule,
                "samples": self.samples,
                "exhaustive": self.exhaustive,
                "input_distribution": dict(sorted(self.hist.items())),
                "model_vs_implementation_disagreements": len(self.disagreements),
                "implementation_vs_property_failures": len(self.oracle_failures),
                "broken_proof_obligations": len(self.proof_failures),
                "known_findings_hit": [k["id"] for k in self.known_hit],
                "notes": self.notes,
            },
            "assumptions": self.assumptions,
            "wall_s": round(wall, 2),
            "violations": violations,
        }
        ev["coverage"].update(self.extra)
        if self.obligations < 1 or self.discharged < 1:
            # the Lean build or the audit did not go through (reported above as a broken obligation): no proof
            # counts can be claimed for this run; the schema's exploration-style counts carry the evidence instead
            declared = 0
            try:
                declared = len(re.findall(r"^theorem\s", open(os.path.join(LEAN_DIR, "DoviModel", "Props", self.prop + ".lean")).read(), flags=re.M))
            except OSError:
                pass
            cov = ev["coverage"]
            cov["proof_build"] = {"theorems_declared": declared, "checked": self.discharged,
                                  "state": "lake build / axiom audit failed on this tree: see broken_proof_obligations and the replay file"}
            del cov["obligations"], cov["discharged"]
        os.makedirs(os.path.join(VERIF, "evidence"), exist_ok=True)
        json.dump(ev, open(os.path.join(VERIF, "evidence", self.prop + ".json"), "w"), indent=1)
        for l in out_lines:
            print(l)
        print("%s tier=%s seed=%d: theorems %d/%d, evaluations %d (distinct non-trivial %d), disagreements %d, oracle failures %d, known findings %d, %.1fs"
              % (self.prop, self.tier, self.seed, self.discharged, self.obligations, self.evaluations,
                 len(self.nontrivial), len(self.disagreements), len(self.oracle_failures), len(self.known_hit), wall))
        sys.stdout.flush()
        return 1 if violations else 0


def generic_replay(mod, prop, path):
    """Replay for the checks without a dedicated one: the generators are deterministic in (seed, tier), so the
    check is run again with the seed and tier recorded in the replay file — without touching evidence or replay
    files — and the recorded failure is looked up among the failures of this run (same operation, same input).
    Exit 1: reproduced on the current tree; exit 0: the recorded input now passes."""
    d = json.load(open(path))
    ctx = Ctx(prop, d.get("tier", "quick"), int(d.get("seed", 1)))
    mod.run(ctx)
    f = d.get("failure")

    def key(x):
        return (x.get("op"), str(x.get("input"))[:4000])
    if f:
        hits = [x for x in ctx.oracle_failures if key(x) == key(f)]
        if not hits and "input" not in f:
            hits = [x for x in ctx.oracle_failures if x.get("op") == f.get("op") and x.get("shape") == f.get("shape")]
        print("recorded : op=%s shape=%s input=%s" % (f.get("op"), f.get("shape"), str(f.get("input"))[:300]))
        print("recorded : observed=%s expected=%s" % (str(f.get("observed"))[:300], str(f.get("expected"))[:300]))
        if hits:
            print("now      : observed=%s" % str(hits[0].get("observed"))[:600])
            print("REPRODUCED property=%s (direct oracle on the real code, seed %s tier %s)" % (prop, ctx.seed, ctx.tier))
            return 1
        print("NOT REPRODUCED: the recorded input passes on the current tree (%d other oracle failures, %d disagreements, "
              "%d broken obligations in this run)" % (len(ctx.oracle_failures), len(ctx.disagreements), len(ctx.proof_failures)))
        return 0
    # a replay of kind "proof obligation or correspondence no longer checks"
    for pf in ctx.proof_failures[:5]:
        print("broken obligation: %s" % str({k: str(v)[:400] for k, v in pf.items()}))
    for dg in ctx.disagreements[:5]:
        print("disagreement: %s" % str(dg)[:800])
    if ctx.proof_failures or ctx.disagreements or ctx.oracle_failures:
        print("REPRODUCED property=%s (%d broken obligations, %d model/implementation disagreements, %d oracle failures)"
              % (prop, len(ctx.proof_failures), len(ctx.disagreements), len(ctx.oracle_failures)))
        return 1
    print("NOT REPRODUCED: every obligation checks and model and implementation agree on the current tree")
    return 0

