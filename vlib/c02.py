"""C02 — reported RPU values are exactly the values encoded in the bitstream."""
import json

from . import common, rpucases, specgen


def hx(b):
    return bytes(b).hex() if len(b) else "-"


def run(ctx):
    ctx.rule = ("RPUs produced by the independent syntax-table encoder (vlib/specgen.py, written from DESIGN.md Appendix B, "
                "never from the implementation) from boundary-biased syntax values (0, max, sign boundary, random) over all "
                "dimensions of C01; the JSON the real parser reports (serde, = info -f / export) must equal, field for field, "
                "the JSON derived from the chosen syntax values, and the model's JSON; non-trivial = accepted by the real "
                "parser; distinct by payload hash")
    ctx.assumptions = ["the syntax table (Appendix B / specgen.py) is the trusted statement of the RPU syntax",
                       "docs/profiles.md line 'Profile 5: bl_video_full_range_flag = 0' contradicts code and real streams; the spec follows the code"]
    ctx.build_and_audit()
    rng = ctx.rng.fork("c02")
    n = 3000 if ctx.tier == "quick" else 80000
    gen = rpucases.gen_structured(rng.fork("gen"), n)
    lines = []
    for b, j, tags in gen:
        for t in tags:
            ctx.count(t)
        lines.append("rpu.json " + hx(b))
    # NAL entry point and info-style path on a subset
    nal_lines = ["nalu.json " + hx(b"\x7c\x01" + specgen.escape(b)) for b, _, _ in gen[: n // 4]]
    mo, io_ = ctx.correspond("rpu.json", lines + nal_lines, canon=rpucases.canon_json_line)
    exp_all = [j for _, j, _ in gen] + [j for _, j, _ in gen[: n // 4]]
    inputs = [b for b, _, _ in gen] + [b for b, _, _ in gen[: n // 4]]
    for l, o, exp, b in zip(lines + nal_lines, io_, exp_all, inputs):
        if o.startswith("ok {"):
            got = json.loads(o[3:])
            d = rpucases.diff(exp, got)
            ctx.nontriv(hx(b))
            ctx.count("accepted")
            if d:
                ctx.oracle_fail({"op": l.split(" ")[0], "input": l.split(" ")[1],
                                 "observed": [(p, str(g)) for p, e, g in d[:4]],
                                 "expected": [(p, str(e)) for p, e, g in d[:4]],
                                 "field": d[0][0]})
        elif o == "err":
            ctx.count("rejected")
            # the encoder only emits syntax the parser must accept, except buffers below the 25-byte minimum
            if len(b) >= 25:
                ctx.oracle_fail({"op": l.split(" ")[0], "input": l.split(" ")[1], "observed": "err",
                                 "expected": "accepted (valid syntax)", "field": "<rejected>"})
        else:
            ctx.oracle_fail({"op": l.split(" ")[0], "input": l.split(" ")[1], "observed": o[:100],
                             "expected": "ok <json>", "field": "<crash>"})
    for l in lines[:2]:
        ctx.sample(l[:300])
    ctx.sample({"expected_json_of_first_case": gen[0][1]})
