"""RPU case sets shared by C01, C02, C03, C04, C08, C12, C15, C20."""
import glob
import json
import os

from . import common, specgen


def unescape(d):
    out = bytearray()
    for i, b in enumerate(d):
        if i >= 2 and d[i - 2] == 0 and d[i - 1] == 0 and b == 3:
            continue
        out.append(b)
    return bytes(out)


def asset_rpus(limit_per_file=3):
    """prefix-less, unescaped RPU payloads (0x19 …) from the repository's own sample files"""
    out = []
    for f in sorted(glob.glob(os.path.join(common.REPO, "assets", "tests", "*.bin"))):
        d = open(f, "rb").read()
        parts = d.split(b"\x00\x00\x00\x01")
        n = 0
        for p in parts:
            if len(p) > 10 and p[0] == 0x19:
                out.append((os.path.basename(f), unescape(p)))
                n += 1
                if n >= limit_per_file:
                    break
    return out


def gen_structured(rng, n):
    """n structured RPUs from the independent encoder: (bytes, expected JSON, tags)"""
    specgen.seed(rng)
    out = []
    for _ in range(n):
        b, j = specgen.gen_rpu()
        out.append((b, j, specgen.tags(j)))
    return out


PREFIXES = [b"", b"\x01", b"\x00\x01", b"\x7c\x01", b"\x00\x00\x01", b"\x00\x00\x00\x01"]


def mutate(rng, data, max_bytes=4, repair=True):
    """1..max_bytes byte (or bit) mutations of a prefix-less RPU, CRC repaired"""
    d = bytearray(data)
    k = 1 + rng.below(max_bytes)
    tz = len(d) - len(bytes(d).rstrip(b"\x00"))
    end = max(2, len(d) - tz - 5)
    for _ in range(k):
        pos = 1 + rng.below(max(1, end - 1))
        if rng.chance(1, 2):
            d[pos] ^= 1 << rng.below(8)
        else:
            d[pos] = rng.choice([0, 0xFF, 0x80, 1, rng.below(256)])
    d = bytes(d)
    return specgen.repair_crc(d) if repair else d


def json_eq(a, b):
    return a == b


def diff(a, b, path=""):
    """first few structural differences between two JSON values"""
    if type(a) != type(b) and not (isinstance(a, (int, bool)) and isinstance(b, (int, bool)) and type(a) == type(b)):
        return [(path, a, b)]
    if isinstance(a, dict):
        out = []
        for k in sorted(set(a) | set(b)):
            if k not in a or k not in b:
                out.append((path + "/" + k, a.get(k, "<absent>"), b.get(k, "<absent>")))
            else:
                out += diff(a[k], b[k], path + "/" + k)
        return out
    if isinstance(a, list):
        if len(a) != len(b):
            return [(path + "#len", len(a), len(b))]
        out = []
        for i, (x, y) in enumerate(zip(a, b)):
            out += diff(x, y, path + "[%d]" % i)
        return out
    return [] if a == b else [(path, a, b)]


def canon_json_line(line):
    """canonical form of an `ok <json>` protocol line (structural comparison)"""
    if line.startswith("ok {"):
        try:
            return "ok " + json.dumps(json.loads(line[3:]), sort_keys=True, separators=(",", ":"))
        except ValueError:
            return line
    return line
