"""C20 — the C API presents the same data as the Rust API and reports failures as errors.

Four observations per run (DESIGN.md section 7, C20):
 (a) model vs real C API: `capi.view` (everything a C caller reads through the executor's own repr(C) mirror
     structs) against `cview` of the Lean model, canonical JSON compare;
 (b) direct oracle on the real code: the C view against the serde JSON of the same RPU parsed through the
     Rust entry point (`rpu.json` / `nalu.json` / `av1.json`), field by field with the mapping written down
     in `compare_view` below; error string set <=> the Rust parse failed;
 (c) `capi.seq` (convert / set offsets / remove mapping / the four writers through the C API) against
     `rpu.ops3` (the same calls through the Rust API): same return codes (0 <=> Ok), same bytes, null <=> Err,
     error logged <=> something failed; and against the model;
 (d) heap safety is observed: every case runs to completion in a process built with debug assertions
     (`Box::from_raw(null)`, misaligned or dangling `from_raw_parts` abort there); an abort is attributed to
     its case. A sample (small in the quick tier, larger in the thorough tier) additionally runs under
     valgrind when valgrind works on the binary (invalid free / invalid read / definite leak).
"""
import json
import os
import subprocess

from . import common, rpucases, specgen

ENV = {"VERIF_RLIMIT_AS_MB": "4096", "VERIF_WORK": common.WORK}

HEADER_FIELDS = ["rpu_nal_prefix", "rpu_type", "rpu_format", "vdr_rpu_profile", "vdr_rpu_level",
                 "vdr_seq_info_present_flag", "chroma_resampling_explicit_filter_flag", "coefficient_data_type",
                 "coefficient_log2_denom", "vdr_rpu_normalized_idc", "bl_video_full_range_flag",
                 "bl_bit_depth_minus8", "el_bit_depth_minus8", "vdr_bit_depth_minus8",
                 "spatial_resampling_filter_flag", "reserved_zero_3bits", "el_spatial_resampling_filter_flag",
                 "disable_residual_flag", "vdr_dm_metadata_present_flag", "use_prev_vdr_rpu_flag", "prev_vdr_rpu_id"]
# Rust header fields the C struct does not carry
HEADER_NOT_IN_C = {"coefficient_log2_denom_length", "ext_mapping_idc_0_4", "ext_mapping_idc_5_7"}
MAPPING_SCALARS = ["vdr_rpu_id", "mapping_color_space", "mapping_chroma_format_idc", "num_x_partitions_minus1",
                   "num_y_partitions_minus1"]
POLY_FIELDS = ["poly_order_minus1", "linear_interp_flag", "poly_coef_int", "poly_coef"]
MMR_FIELDS = ["mmr_order_minus1", "mmr_constant_int", "mmr_constant", "mmr_coef_int", "mmr_coef"]
NLQ_FIELDS = ["nlq_offset", "vdr_in_max_int", "vdr_in_max", "linear_deadzone_slope_int", "linear_deadzone_slope",
              "linear_deadzone_threshold_int", "linear_deadzone_threshold"]
MAPPING_IDC = {"Polynomial": 0, "MMR": 1, "Invalid": 255}
SINGLE_LEVELS = [1, 3, 4, 5, 6, 9, 11, 254, 255]
LIST_LEVELS = {2: "cmv29_metadata", 8: "cmv40_metadata", 10: "cmv40_metadata"}
# struct defaults of the fields a short variable-length block does not carry (`..Default::default()` in the
# level's parse; transcribed from the `Default` impls of level8.rs / level9.rs / level10.rs)
BLOCK_DEFAULTS = {
    8: dict(target_mid_contrast=2048, clip_trim=2048, saturation_vector_field0=128, saturation_vector_field1=128,
            saturation_vector_field2=128, saturation_vector_field3=128, saturation_vector_field4=128,
            saturation_vector_field5=128, hue_vector_field0=128, hue_vector_field1=128, hue_vector_field2=128,
            hue_vector_field3=128, hue_vector_field4=128, hue_vector_field5=128),
    9: dict(source_primary_red_x=0, source_primary_red_y=0, source_primary_green_x=0, source_primary_green_y=0,
            source_primary_blue_x=0, source_primary_blue_y=0, source_primary_white_x=0, source_primary_white_y=0),
    10: dict(target_primary_red_x=0, target_primary_red_y=0, target_primary_green_x=0, target_primary_green_y=0,
             target_primary_blue_x=0, target_primary_blue_y=0, target_primary_white_x=0, target_primary_white_y=0),
}
# number of fields of each C block struct (a missing field in the executor's view is a finding of its own)
BLOCK_FIELD_COUNT = {1: 3, 2: 7, 3: 3, 4: 2, 5: 4, 6: 4, 8: 22, 9: 10, 10: 13, 11: 5, 254: 2, 255: 6}


def hx(b):
    return bytes(b).hex() if len(b) else "-"


def b2i(v):
    """serde prints Vec<bool> as booleans, the C API hands out bytes"""
    if isinstance(v, bool):
        return 1 if v else 0
    if isinstance(v, list):
        return [b2i(x) for x in v]
    return v


def same(a, b):
    """strict equality: JSON booleans and integers are different things"""
    if isinstance(a, bool) != isinstance(b, bool):
        return False
    if isinstance(a, list) and isinstance(b, list):
        return len(a) == len(b) and all(same(x, y) for x, y in zip(a, b))
    if isinstance(a, dict) and isinstance(b, dict):
        return set(a) == set(b) and all(same(a[k], b[k]) for k in a)
    return a == b


def rust_blocks(dm, key):
    c = dm.get(key)
    if c is None:
        return None, []
    out = []
    for blk in c["ext_metadata_blocks"]:
        name = list(blk)[0]
        lvl = int(name[5:]) if name.startswith("Level") else -1
        out.append((lvl, blk[name]))
    return c["num_ext_blocks"], out


def compare_block(level, cb, rb, path, fails):
    """C block struct vs serde block object: every serialised field equal; fields serde omits (short L8/L9/L10)
    hold the struct default; the C struct has exactly its declared fields"""
    if cb is None:
        fails.append(path + ": null pointer inside a block list")
        return
    if len(cb) != BLOCK_FIELD_COUNT[level]:
        fails.append("%s: %d fields, expected %d" % (path, len(cb), BLOCK_FIELD_COUNT[level]))
    for k, v in rb.items():
        if k not in cb:
            fails.append("%s/%s missing in the C struct" % (path, k))
        elif not same(cb[k], v):
            fails.append("%s/%s: C %r != Rust %r" % (path, k, cb[k], v))
    for k, v in cb.items():
        if k not in rb:
            d = BLOCK_DEFAULTS.get(level, {})
            if k not in d:
                fails.append("%s/%s not a field of the Rust block" % (path, k))
            elif v != d[k]:
                fails.append("%s/%s: C %r != struct default %r (field beyond the block's length)" % (path, k, v, d[k]))


def compare_view(cv, rj):
    """the explicit field mapping C view <-> serde JSON of `DoviRpu`; returns the list of differences"""
    f = []
    # --- header ---------------------------------------------------------------------------------
    ch, rh = cv.get("header"), rj["header"]
    if not isinstance(ch, dict):
        return ["header: not an object"]
    if set(ch) != set(HEADER_FIELDS) | {"guessed_profile", "el_type"}:
        f.append("header field set differs: %s" % sorted(set(ch) ^ (set(HEADER_FIELDS) | {"guessed_profile", "el_type"})))
    if set(rh) - set(HEADER_FIELDS) - HEADER_NOT_IN_C:
        f.append("Rust header has fields unknown to the mapping: %s" % sorted(set(rh) - set(HEADER_FIELDS) - HEADER_NOT_IN_C))
    for k in HEADER_FIELDS:
        if not same(ch.get(k), rh.get(k)):
            f.append("header/%s: C %r != Rust %r" % (k, ch.get(k), rh.get(k)))
    if not same(ch.get("guessed_profile"), rj["dovi_profile"]):
        f.append("header/guessed_profile: C %r != dovi_profile %r" % (ch.get("guessed_profile"), rj["dovi_profile"]))
    if ch.get("el_type") != rj.get("el_type"):
        f.append("header/el_type: C %r != Rust %r" % (ch.get("el_type"), rj.get("el_type")))
    # --- mapping --------------------------------------------------------------------------------
    cm, rm = cv.get("mapping"), rj.get("rpu_data_mapping")
    if (cm is None) != (rm is None):
        f.append("mapping pointer %s but Rust rpu_data_mapping %s" % ("null" if cm is None else "set", "absent" if rm is None else "present"))
    elif cm is not None:
        for k in MAPPING_SCALARS:
            if not same(cm.get(k), rm.get(k)):
                f.append("mapping/%s: C %r != Rust %r" % (k, cm.get(k), rm.get(k)))
        cc, rc = cm.get("curves", []), rm["curves"]
        if len(cc) != 3 or len(rc) != 3:
            f.append("mapping/curves: %d in C, %d in Rust" % (len(cc), len(rc)))
        for i, (c, r) in enumerate(zip(cc, rc)):
            p = "mapping/curves[%d]" % i
            if not same(c.get("num_pivots_minus2"), r["num_pivots_minus2"]):
                f.append(p + "/num_pivots_minus2")
            if not same(c.get("pivots"), r["pivots"]):
                f.append("%s/pivots: C %r != Rust %r" % (p, c.get("pivots"), r["pivots"]))
            if c.get("mapping_idc") != MAPPING_IDC.get(r["mapping_idc"]):
                f.append("%s/mapping_idc: C %r != Rust %r" % (p, c.get("mapping_idc"), r["mapping_idc"]))
            for name, fields in (("polynomial", POLY_FIELDS), ("mmr", MMR_FIELDS)):
                present = fields[0] in r
                cp = c.get(name)
                if (cp is None) == present:
                    f.append("%s/%s pointer %s but Rust curve %s" % (p, name, "null" if cp is None else "set", "present" if present else "absent"))
                elif present:
                    if set(cp) != set(fields):
                        f.append("%s/%s field set differs" % (p, name))
                    for k in fields:
                        if not same(cp.get(k), b2i(r.get(k))):
                            f.append("%s/%s/%s: C %r != Rust %r" % (p, name, k, cp.get(k), r.get(k)))
        want = -1 if "nlq_method_idc" not in rm else {"LinearDeadzone": 0}.get(rm["nlq_method_idc"], "?")
        if cm.get("nlq_method_idc") != want:
            f.append("mapping/nlq_method_idc: C %r, Rust %r" % (cm.get("nlq_method_idc"), rm.get("nlq_method_idc", "<absent>")))
        want = rm.get("nlq_num_pivots_minus2", -1)
        if not same(cm.get("nlq_num_pivots_minus2"), want):
            f.append("mapping/nlq_num_pivots_minus2: C %r, Rust %r" % (cm.get("nlq_num_pivots_minus2"), rm.get("nlq_num_pivots_minus2", "<absent>")))
        if not same(cm.get("nlq_pred_pivot_value"), rm.get("nlq_pred_pivot_value", [])):
            f.append("mapping/nlq_pred_pivot_value: C %r, Rust %r" % (cm.get("nlq_pred_pivot_value"), rm.get("nlq_pred_pivot_value", "<absent>")))
        cn, rn = cm.get("nlq"), rm.get("nlq")
        if (cn is None) != (rn is None):
            f.append("mapping/nlq pointer %s but Rust nlq %s" % ("null" if cn is None else "set", "absent" if rn is None else "present"))
        elif cn is not None:
            if set(cn) != set(NLQ_FIELDS) or set(rn) != set(NLQ_FIELDS):
                f.append("mapping/nlq field set differs")
            for k in NLQ_FIELDS:
                if not same(cn.get(k), rn.get(k)):
                    f.append("mapping/nlq/%s: C %r != Rust %r" % (k, cn.get(k), rn.get(k)))
    # --- DM data --------------------------------------------------------------------------------
    cd, rd = cv.get("dm"), rj.get("vdr_dm_data")
    if (cd is None) != (rd is None):
        f.append("dm pointer %s but Rust vdr_dm_data %s" % ("null" if cd is None else "set", "absent" if rd is None else "present"))
    elif cd is not None:
        scalars = [k for k in rd if k not in ("cmv29_metadata", "cmv40_metadata")]
        if set(cd) != set(scalars) | {"dm_data"}:
            f.append("dm field set differs: %s" % sorted(set(cd) ^ (set(scalars) | {"dm_data"})))
        if len(scalars) != 36:
            f.append("Rust vdr_dm_data has %d scalar fields, the mapping knows 36" % len(scalars))
        for k in scalars:
            if not same(cd.get(k), rd[k]):
                f.append("dm/%s: C %r != Rust %r" % (k, cd.get(k), rd[k]))
        x = cd.get("dm_data", {})
        n29, b29 = rust_blocks(rd, "cmv29_metadata")
        n40, b40 = rust_blocks(rd, "cmv40_metadata")
        if x.get("num_ext_blocks") != (n29 or 0) + (n40 or 0):
            f.append("dm_data/num_ext_blocks: C %r != %r + %r" % (x.get("num_ext_blocks"), n29, n40))
        both = b29 + b40
        for lvl, key in LIST_LEVELS.items():
            src = b29 if key == "cmv29_metadata" else b40
            want = [fields for l, fields in src if l == lvl]
            lst = x.get("level%d" % lvl)
            if not isinstance(lst, dict) or not isinstance(lst.get("list"), list):
                f.append("dm_data/level%d: not a list struct (%r)" % (lvl, lst))
                continue
            if lst.get("len") != len(want) or len(lst["list"]) != len(want):
                f.append("dm_data/level%d: len %r, %d elements, Rust container has %d" % (lvl, lst.get("len"), len(lst["list"]), len(want)))
            for i, (cb, rb) in enumerate(zip(lst["list"], want)):
                compare_block(lvl, cb, rb, "dm_data/level%d[%d]" % (lvl, i), f)
        for lvl in SINGLE_LEVELS:
            have = [fields for l, fields in both if l == lvl]
            cb = x.get("level%d" % lvl, "<missing>")
            if not have:
                if cb is not None:
                    f.append("dm_data/level%d: pointer set (%r) but no such block in the Rust containers" % (lvl, cb))
            elif cb is None or cb == "<missing>":
                f.append("dm_data/level%d: null pointer but the Rust containers hold the block" % lvl)
            else:
                compare_block(lvl, cb, have[-1], "dm_data/level%d" % lvl, f)
        known = set(SINGLE_LEVELS) | set(LIST_LEVELS)
        for l, _ in both:
            if l not in known:
                f.append("Rust container holds a block of level %d the C struct cannot show" % l)
        if set(x) != {"num_ext_blocks"} | {"level%d" % l for l in known}:
            f.append("dm_data field set differs")
    return f


def zero_run(rng, data):
    bits = []
    for b in data:
        bits += [(b >> (7 - i)) & 1 for i in range(8)]
    pos = 8 + rng.below(max(1, len(bits) - 48))
    z = rng.choice([31, 32, 33, 62, 63, 65, 80])
    bits = bits[:pos] + [0] * z + [1] + bits[pos:]
    while len(bits) % 8:
        bits.append(0)
    return bytes(int("".join(map(str, bits[i:i + 8])), 2) for i in range(0, len(bits), 8))


def gen_ops(rng):
    k = rng.choice([0, 1, 1, 2, 2, 3, 4, 6])
    ops = []
    for _ in range(k):
        c = rng.below(10)
        if c < 6:
            ops.append("mode:%d" % rng.choice([0, 1, 2, 3, 4, 5, 0, 1, 2, 3, 4, 5, 6, 7, 100, 255]))
        elif c < 8:
            ops.append("offs:%s" % ",".join(str(rng.choice([0, 1, 276, 4095, 8191, 8192, 65535, rng.below(8192)])) for _ in range(4)))
        else:
            ops.append("rmmap")
    return ";".join(ops) if ops else "-"


def valgrind_usable():
    try:
        r = subprocess.run(["valgrind", "-q", "--error-exitcode=9", common.LIBCASE], input="capi.layout\n",
                           capture_output=True, text=True, timeout=120)
        return r.returncode == 0 and r.stdout.startswith("ok ")
    except (OSError, subprocess.TimeoutExpired):
        return False


def run(ctx):
    ctx.rule = ("inputs: structured RPUs from the independent syntax-table encoder (all profile classes, both coefficient "
                "types, poly/MMR pieces, NLQ present/absent, use_prev, compressed DM, no DM, CM v2.9 only / both containers with "
                "0..8 L2, 0..5 L8, 0..4 L10 blocks of every length, shuffled), the repository's sample RPUs, CRC-repaired and "
                "unrepaired mutations, zero runs, truncations, degenerate and random buffers; each through the three C parse "
                "functions (raw with every accepted prefix, escaped NAL, AV1 T.35 OBU built from the RPU and mutated). Inputs on "
                "which the wrapped Rust entry point itself panics (C08's third-party findings) are filtered out beforehand. "
                "Per case: getters in one of the 6 orders and frees in one of the 6 orders (derived from the input length), "
                "handle freed before or after the structs are read; call sequences of 0..6 operations from "
                "{convert mode 0..5 and invalid modes, set offsets, remove mapping} followed by the four writers. "
                "non-trivial = the parse succeeded and the getters' structs were compared (view) or the sequence ran to the "
                "writers (seq); distinct by case-line hash")
    ctx.assumptions = [
        "heap safety is observed, not proved: every case must run to completion in the dev-profile process (debug assertions abort on Box::from_raw(null) and invalid from_raw_parts); a sample (450 cases quick, 3600 thorough) additionally runs under valgrind (invalid free/read, definite leaks) when valgrind works on the binary",
        "the executor reads the returned pointers through its own repr(C) mirror declarations (field order and types of the unchanged tree's dovi.h); `capi.layout` compares the mirror sizes with the crate's struct sizes",
        "free_once assumes no component carries both a polynomial and an MMR curve (the parser rejects mixed components since 324e2a5); the model driver evaluates this hypothesis on every parsed case and flags a violation",
        "capi.seq: the model answers `operr i` from the first failing operation on; the state a failed operation leaves behind is modelled (Model/Ops.lean afterFailedConvert / afterFailedOffsets) and compared, with the getters' views after the whole sequence, by capi.seqview / rpu.ops3json",
        "inputs on which the Rust entry point panics inside third-party code are C08's known findings and are not fed to the extern \"C\" wrappers here",
    ]
    ctx.build_and_audit()
    os.makedirs(common.WORK, exist_ok=True)
    rng = ctx.rng.fork("c20")
    quick = ctx.tier == "quick"
    n = 3000 if quick else 25000

    # ---------------------------------------------------------------------------------------------
    # layout of the mirrors
    # ---------------------------------------------------------------------------------------------
    lo, _, _ = common.run_lines(common.LIBCASE, ["capi.layout"])
    ctx.extra["mirror_layout"] = lo[0] if lo else "missing"
    if not lo or not lo[0].startswith("ok "):
        ctx.oracle_fail({"op": "capi.layout", "input": "-", "observed": lo[0] if lo else "no output", "expected": "ok …", "shape": "layout"})
    else:
        for item in lo[0][3:].split(" "):
            name, sizes = item.split("=")
            a, b = sizes.split("/")
            if a != b:
                ctx.oracle_fail({"op": "capi.layout", "input": name, "observed": "mirror %s bytes, crate struct %s bytes" % (a, b),
                                 "expected": "equal sizes (the C header of the unchanged tree)", "shape": "layout"})

    # ---------------------------------------------------------------------------------------------
    # inputs
    # ---------------------------------------------------------------------------------------------
    gen = rpucases.gen_structured(rng.fork("gen"), n)
    assets = [p for _, p in rpucases.asset_rpus()]
    valid = assets + [b for b, _, _ in gen]
    for _, _, tags in gen:
        for t in tags:
            ctx.count(t)
    raw = []   # (kind, prefix-less rpu bytes)
    for b in valid:
        raw.append(("valid", b))
    for b in valid[: n // 2]:
        k = rng.below(5)
        if k <= 1:
            raw.append(("mut-crc", rpucases.mutate(rng, b, 4, True)))
        elif k == 2:
            raw.append(("mut-nocrc", rpucases.mutate(rng, b, 8, False)))
        elif k == 3:
            raw.append(("zero-run", specgen.repair_crc(zero_run(rng, b))))
        else:
            raw.append(("trunc", b[: rng.below(len(b))]))
    for b in valid[: 3 if quick else 30]:
        for cut in range(0, len(b), 1 if len(b) < 80 else 3):
            raw.append(("trunc", b[:cut]))
    for tail in [b"", b"\x80", b"\x00" * 30, b"\x80" + b"\x00" * 30, b"\xff" * 30, b"\x00" * 22 + b"\x80"]:
        raw.append(("degenerate", b"\x19\x08\x09" + tail))
    for _ in range(150 if quick else 3000):
        raw.append(("random", b"\x19\x08\x09" + rng.bytes(rng.below(120))))
    raw.append(("degenerate", b""))
    cases = []   # (kind, entry, bytes)
    for kind, b in raw:
        pfx = rng.choice(rpucases.PREFIXES)
        cases.append((kind, "rpu", pfx + b))
        if rng.chance(1, 2) or kind == "valid" and rng.chance(1, 2):
            cases.append((kind, "nalu", rng.choice([b"\x7c\x01", b"\x00\x00\x00\x01", b"", b"\x00\x00\x01"]) + specgen.escape(b)))
    # AV1 OBUs of valid RPUs (built by the Rust writer), intact and damaged
    obl = ["av1.obu " + hx(b) for b in valid[: n // 2]]
    obo, _, _ = common.run_lines_sharded(common.LIBCASE, obl)
    for o in obo:
        if o.startswith("ok ") and o != "ok werr":
            obu = bytes.fromhex(o[3:])
            cases.append(("valid", "av1", obu if rng.chance(1, 2) else obu[1:]))
            k = rng.below(6)
            if k == 0:
                cases.append(("av1-mut", "av1", rpucases.mutate(rng, obu, 6, False)))
            elif k == 1:
                cases.append(("av1-trunc", "av1", obu[: rng.below(len(obu))]))
    hdr = bytes([0xB5, 0x00, 0x3B, 0x00, 0x00, 0x08, 0x00, 0x37, 0xCD, 0x08])
    for _ in range(60 if quick else 1500):
        body = bytes([0x3F | (rng.below(4) << 6)]) + bytes(rng.choice([0xFF, 0xFE, 0x7F, rng.below(256)]) for _ in range(rng.below(40)))
        cases.append(("av1-random", "av1", hdr + body + rng.bytes(rng.below(40))))

    # ---------------------------------------------------------------------------------------------
    # pre-filter: the Rust entry point must return (a panic there is C08's finding, and would abort in extern "C")
    # ---------------------------------------------------------------------------------------------
    pre = ["c08.%s %s" % (e, hx(b)) for _, e, b in cases]
    pre_out = common.run_lines_resilient_sharded(common.LIBCASE, pre, env=ENV)
    kept = []
    for c, o in zip(cases, pre_out):
        if o in ("ok", "err"):
            kept.append(c)
        else:
            ctx.count("filtered: Rust entry point does not return (%s)" % o.split(":")[0])
    cases = kept

    # ---------------------------------------------------------------------------------------------
    # (a) + (b): views
    # ---------------------------------------------------------------------------------------------
    view_lines = ["capi.view %s %s" % (e, hx(b)) for _, e, b in cases]
    json_lines = ["%s.json %s" % (e, hx(b)) for _, e, b in cases]
    mo, _, _ = common.run_lines_sharded(common.MODEL_EXE, view_lines) if os.path.exists(common.MODEL_EXE) else (["model-missing"] * len(view_lines), 0, "")
    vo = common.run_lines_resilient_sharded(common.LIBCASE, view_lines, env=ENV)
    jo = common.run_lines_resilient_sharded(common.LIBCASE, json_lines, env=ENV)
    ctx.evaluations += len(view_lines)
    for (kind, entry, b), l, m, v, j in zip(cases, view_lines, mo, vo, jo):
        ctx.count("kind=" + kind)
        ctx.count("entry=" + entry)
        ctx.count("getter order %d" % (len(b) % 6))
        ctx.count("free order %d" % ((len(b) // 6) % 6))
        ctx.count("handle freed %s" % ("before reading the structs" if (len(b) // 36) % 2 else "last"))
        ctx.count("view=" + v.split(" ")[0].split(":")[0])
        if v == "not-run":
            ctx.count("not run (more than 200 process deaths in the shard)")
            continue
        if v in ("abort", "timeout") or v.startswith("panic"):
            ctx.oracle_fail({"op": "capi.view " + entry, "input": hx(b)[:6000], "observed": v,
                             "expected": "the call sequence parse -> getters -> frees returns", "shape": "abort" if v == "abort" else v.split(":")[0]})
            continue
        # (a) model
        if rpucases.canon_json_line(m) != rpucases.canon_json_line(v):
            ctx.disagree("capi.view", l[:3000], m, v)
        # (b) direct oracle against the Rust API
        if v.startswith("inconsistent"):
            ctx.oracle_fail({"op": "capi.view " + entry, "input": hx(b)[:6000], "observed": v,
                             "expected": "error string set iff parsing failed", "shape": "error-iff-failed"})
            continue
        if (v == "err") != (j == "err") or not (v == "err" or v.startswith("ok {")) or not (j == "err" or j.startswith("ok {")):
            ctx.oracle_fail({"op": "capi.view " + entry, "input": hx(b)[:6000], "observed": "C: %s / Rust: %s" % (v[:200], j[:200]),
                             "expected": "error string set iff the Rust parse failed", "shape": "error-iff-failed"})
            continue
        if v == "err":
            continue
        try:
            cv, rj = json.loads(v[3:]), json.loads(j[3:])
        except ValueError:
            ctx.oracle_fail({"op": "capi.view " + entry, "input": hx(b)[:6000], "observed": v[:300], "expected": "JSON", "shape": "executor-output"})
            continue
        diffs = compare_view(cv, rj)
        if diffs:
            ctx.oracle_fail({"op": "capi.view " + entry, "input": hx(b)[:6000], "observed": diffs[:6],
                             "expected": "every C field equals the Rust field (mapping in vlib/c20.py compare_view)", "shape": "field-mismatch"})
        ctx.nontriv(l)
        dmx = (cv.get("dm") or {}).get("dm_data")
        if dmx:
            ctx.count("C view: L2 x%d" % dmx["level2"]["len"])
            ctx.count("C view: L8 x%d" % dmx["level8"]["len"])
            ctx.count("C view: L10 x%d" % dmx["level10"]["len"])
            ctx.count("C view: single-level pointers set x%d" % sum(1 for l_ in SINGLE_LEVELS if dmx["level%d" % l_] is not None))
        ctx.count("C view: mapping %s, nlq %s, dm %s" % ("set" if cv["mapping"] else "null",
                                                         "set" if (cv["mapping"] or {}).get("nlq") else "null",
                                                         "set" if cv["dm"] else "null"))

    # ---------------------------------------------------------------------------------------------
    # (c): call sequences
    # ---------------------------------------------------------------------------------------------
    parsed = [b for (kind, entry, b), v in zip(cases, vo) if entry == "rpu" and v.startswith("ok {")]
    nseq = 5000 if quick else 40000
    seq_args = []
    for i in range(nseq):
        b = parsed[i % len(parsed)] if i < len(parsed) else rng.choice(parsed)
        seq_args.append("%s %s" % (hx(b), gen_ops(rng)))
    # every mode on a few RPUs of every profile class
    for b in assets:
        for mode in range(0, 7):
            seq_args.append("%s mode:%d" % (hx(b), mode))
    r3 = common.run_lines_resilient_sharded(common.LIBCASE, ["rpu.ops3 " + a for a in seq_args], env=ENV)
    runnable = []
    for a, o in zip(seq_args, r3):
        if o.startswith("ok ") and "wpanic" not in o:
            runnable.append((a, o))
        else:
            # a panic of the Rust call itself (not a matter of the C layer) or a parse error
            ctx.count("seq filtered: Rust side says %s" % o.split(" ")[0])
    seq_lines = ["capi.seq " + a for a, _ in runnable]
    so = common.run_lines_resilient_sharded(common.LIBCASE, seq_lines, env=ENV)
    sm, _, _ = common.run_lines_sharded(common.MODEL_EXE, seq_lines) if os.path.exists(common.MODEL_EXE) else (["model-missing"] * len(seq_lines), 0, "")
    ctx.evaluations += len(seq_lines)
    for (a, rust), l, c, m in zip(runnable, seq_lines, so, sm):
        ops = a.split(" ")[1]
        for op in (ops.split(";") if ops != "-" else []):
            ctx.count("op=" + (op if op.startswith("mode") else op.split(":")[0]))
        if c == "not-run":
            ctx.count("not run (more than 200 process deaths in the shard)")
            continue
        if c in ("abort", "timeout") or c.startswith("panic"):
            ctx.oracle_fail({"op": "capi.seq", "input": a[:6000], "observed": c, "expected": rust[:300],
                             "shape": "abort" if c == "abort" else c.split(":")[0]})
            continue
        if c != rust:
            ctx.oracle_fail({"op": "capi.seq", "input": a[:6000], "observed": c[:1500], "expected": "the Rust API's results: " + rust[:1500],
                             "shape": "seq-differs-from-rust"})
            continue
        parts = c.split(" ")
        rcs = [] if parts[1] == "-" else parts[1].split(",")
        ctx.count("seq: %s" % ("all ops ok" if all(x == "0" for x in rcs) else "an op failed"))
        ctx.count("seq: write %s" % ("ok" if parts[2] != "null" else "null (error logged)"))
        ctx.nontriv(l)
        # model: exact line when every op succeeds, index of the first failing op otherwise
        if m.startswith("operr "):
            i = int(m.split(" ")[1])
            if not (i < len(rcs) and all(x == "0" for x in rcs[:i]) and rcs[i] == "-1"):
                ctx.disagree("capi.seq", l[:3000], m, c[:300])
        elif m != c:
            ctx.disagree("capi.seq", l[:3000], m[:1500], c[:1500])

    # ---------------------------------------------------------------------------------------------
    # (c2): the getters' view AFTER a call sequence, failed operations included (the handle keeps its RPU and
    # records the error; the getters must still present exactly the Rust value), with writer calls in between
    # ---------------------------------------------------------------------------------------------
    nsv = 1500 if quick else 12000
    sv_args = []
    for i in range(nsv):
        b = parsed[(7 * i) % len(parsed)]
        ops = gen_ops(rng)
        if rng.chance(1, 3) and ops != "-":
            lst = ops.split(";")
            lst.insert(rng.below(len(lst) + 1), "write")
            ops = ";".join(lst)
        sv_args.append("%s %s" % (hx(b), ops))
    for b in assets:
        # every mode alone (most fail on some profile), the partial state of a failed MEL conversion, a rejected
        # offset followed by a failing writer
        for mode in range(0, 7):
            sv_args.append("%s mode:%d" % (hx(b), mode))
        sv_args.append("%s rmmap;mode:1" % hx(b))
        sv_args.append("%s rmmap;mode:1;mode:2" % hx(b))
        sv_args.append("%s offs:9000,0,0,0;write" % hx(b))
        sv_args.append("%s offs:9000,0,0,0;write;mode:2;write" % hx(b))
    cl = ["capi.seqview " + a for a in sv_args]
    rl = ["rpu.ops3json " + a for a in sv_args]
    ro = common.run_lines_resilient_sharded(common.LIBCASE, rl, env=ENV)
    keep = [i for i, o in enumerate(ro) if o.startswith("ok ")]
    for i, o in enumerate(ro):
        if not o.startswith("ok "):
            ctx.count("seqview filtered: Rust side says %s" % o.split(" ")[0].split(":")[0])
    cl, rl, ro, sv_args = [cl[i] for i in keep], [rl[i] for i in keep], [ro[i] for i in keep], [sv_args[i] for i in keep]
    co = common.run_lines_resilient_sharded(common.LIBCASE, cl, env=ENV)
    have_model = os.path.exists(common.MODEL_EXE)
    mc, _, _ = common.run_lines_sharded(common.MODEL_EXE, cl) if have_model else (["model-missing"] * len(cl), 0, "")
    mr, _, _ = common.run_lines_sharded(common.MODEL_EXE, rl) if have_model else (["model-missing"] * len(rl), 0, "")
    ctx.evaluations += len(cl)
    for a, lc, lr, c, r, m1, m2 in zip(sv_args, cl, rl, co, ro, mc, mr):
        if c == "not-run":
            continue
        if c in ("abort", "timeout") or c.startswith("panic"):
            ctx.oracle_fail({"op": "capi.seqview", "input": a[:6000], "observed": c, "expected": r[:300],
                             "shape": "abort" if c == "abort" else c.split(":")[0]})
            continue
        # (a) model, both sides (post-failure state: Model/Ops.lean afterFailedConvert / afterFailedOffsets)
        if rpucases.canon_json_line(m1) != rpucases.canon_json_line(c):
            ctx.disagree("capi.seqview", lc[:3000], m1[:1500], c[:1500])
        if rpucases.canon_json_line(m2) != rpucases.canon_json_line(r):
            ctx.disagree("rpu.ops3json", lr[:3000], m2[:1500], r[:1500])
        # (b) direct oracle: same return codes, error recorded iff an operation failed, same data
        pc, pr = c.split(" ", 3), r.split(" ", 3)
        failed = "-1" in pr[1].split(",")
        ctx.count("seqview: %s" % ("an op failed" if failed else "all ops ok"))
        if len(pc) < 4 or pc[:3] != pr[:3]:
            ctx.oracle_fail({"op": "capi.seqview", "input": a[:6000], "observed": " ".join(pc[:3]) + " " + (pc[3][:80] if len(pc) > 3 else ""),
                             "expected": "return codes and error flag of the Rust API: " + " ".join(pr[:3]), "shape": "seqview-rcs"})
            continue
        try:
            cv, rj = json.loads(pc[3]), json.loads(pr[3])
        except ValueError:
            ctx.oracle_fail({"op": "capi.seqview", "input": a[:6000], "observed": pc[3][:300],
                             "expected": "the three getters return the RPU's data after the sequence", "shape": "getters-after-sequence"})
            continue
        diffs = compare_view(cv, rj)
        if diffs:
            ctx.oracle_fail({"op": "capi.seqview", "input": a[:6000], "observed": diffs[:6],
                             "expected": "every C field equals the Rust field after the same call sequence", "shape": "field-mismatch-after-sequence"})
        ctx.nontriv(lc)

    # ---------------------------------------------------------------------------------------------
    # (c3): the list API (dovi_parse_rpu_bin_file -> handles -> dovi_write_rpu -> dovi_rpu_list_free) against
    # parse_rpu_file + write_rpu and the model; every function called with a null pointer
    # ---------------------------------------------------------------------------------------------
    good = [b for b in valid if len(b) >= 25]
    files = []
    for i in range(160 if quick else 2500):
        k = rng.choice([1, 1, 2, 3, 7, 20])
        rp = [rng.choice(good) for _ in range(k)]
        blob = b"".join(b"\x00\x00\x00\x01" + specgen.escape(x) for x in rp)
        c = rng.below(8)
        if c == 0:
            blob = blob[: rng.below(len(blob) + 1)]                 # cut anywhere
        elif c == 1:
            blob = rpucases.mutate(rng, blob, 3, False)             # damaged entry: the whole file is an error
        elif c == 2:
            blob = b""
        elif c == 3:
            blob = blob + b"\x00" * rng.below(5)
        files.append(blob)
    ll = ["capi.list " + hx(b) for b in files]
    rl2 = ["rpu.filelist " + hx(b) for b in files]
    lo2 = common.run_lines_resilient_sharded(common.LIBCASE, ll, env=ENV)
    ro2 = common.run_lines_resilient_sharded(common.LIBCASE, rl2, env=ENV)
    mo2, _, _ = common.run_lines_sharded(common.MODEL_EXE, ll) if have_model else (["model-missing"] * len(ll), 0, "")
    ctx.evaluations += len(ll) + 1
    for b, l, c, r, m in zip(files, ll, lo2, ro2, mo2):
        ctx.count("list: %s" % c.split(" ")[0].split(":")[0])
        if r.startswith("panic") or r in ("abort", "timeout", "not-run"):
            ctx.count("list filtered: Rust side says %s" % r.split(":")[0])
            continue
        if c != r:
            ctx.oracle_fail({"op": "capi.list", "input": hx(b)[:6000], "observed": c[:600], "expected": "parse_rpu_file + write_rpu: " + r[:600],
                             "shape": "abort" if c == "abort" else "list-differs-from-rust"})
        if m != c:
            ctx.disagree("capi.list", l[:3000], m[:600], c[:600])
        if c.startswith("ok "):
            ctx.nontriv(l)
    nl = common.run_lines_resilient(common.LIBCASE, ["capi.nulls"], env=ENV)
    if not nl or nl[0] != "ok file=1 err=1 hdr=1 map=1 dm=1 write=1 convert=-1":
        ctx.oracle_fail({"op": "capi.nulls", "input": "-", "observed": (nl[0] if nl else "no output")[:300],
                         "expected": "every entry point returns (null / -1) when handed a null pointer", "shape": "null-argument"})

    # ---------------------------------------------------------------------------------------------
    # (d) a sample under valgrind (small in the quick tier)
    # ---------------------------------------------------------------------------------------------
    if valgrind_usable():
        ok_views = [l for l, v in zip(view_lines, vo) if v.startswith("ok {")]
        err_views = [l for l, v in zip(view_lines, vo) if v == "err"]
        seq_done = [l for l, c in zip(seq_lines, so) if c.startswith("ok ")]
        k = 1 if quick else 8
        sample = ok_views[:: max(1, len(ok_views) // (250 * k))][: 250 * k] + err_views[: 50 * k] + \
            seq_done[:: max(1, len(seq_done) // (150 * k))][: 150 * k] + \
            [l for l, c in zip(cl, co) if c.startswith("ok ")][: 60 * k] + ll[: 40 * k] + ["capi.nulls"]
        try:
            r = subprocess.run(["valgrind", "-q", "--error-exitcode=9", "--leak-check=full",
                                "--errors-for-leak-kinds=definite,indirect", common.LIBCASE],
                               input="\n".join(sample) + "\n", capture_output=True, text=True, timeout=3000,
                               env=dict(os.environ, VERIF_WORK=common.WORK))
            rc, err = r.returncode, r.stderr
        except subprocess.TimeoutExpired:
            rc, err = -1, "valgrind run timed out"
        ctx.extra["valgrind"] = {"cases": len(sample), "rc": rc}
        ctx.evaluations += len(sample)
        ctx.count("valgrind sample", len(sample))
        if rc != 0:
            ctx.oracle_fail({"op": "valgrind", "input": "%d sampled capi.view / capi.seq / capi.seqview / capi.list lines" % len(sample),
                             "observed": err[-3000:], "expected": "no invalid free/read, no definite leak", "shape": "valgrind"})
    else:
        ctx.notes.append("valgrind is not usable on the executor binary here: the heap check is process survival only")
        ctx.extra["valgrind"] = "unavailable"
    for l in view_lines[:2] + seq_lines[:3]:
        ctx.sample(l[:500])


def replay(ctx, path):
    d = json.load(open(path))
    f = d.get("failure") or {}
    ctx.build_and_audit()
    op = f.get("op", "")
    inp = f.get("input", "-")
    if op.startswith("capi.view"):
        entry = op.split(" ")[1]
        lines = ["capi.view %s %s" % (entry, inp), "%s.json %s" % (entry, inp)]
    elif op == "capi.seq":
        lines = ["capi.seq " + inp, "rpu.ops3 " + inp]
    elif op in ("capi.seqview", "rpu.ops3json"):
        lines = ["capi.seqview " + inp, "rpu.ops3json " + inp]
    elif op == "capi.list":
        lines = ["capi.list " + inp, "rpu.filelist " + inp]
    elif op == "capi.nulls":
        lines = ["capi.nulls", "capi.nulls"]
    else:
        print("nothing to replay for op %r" % op)
        return 2
    out = common.run_lines_resilient(common.LIBCASE, lines, env=ENV)
    for l, o in zip(lines, out):
        print(l[:200])
        print("  -> " + o[:2000])
    if op in ("capi.seq", "capi.list"):
        return 0 if len(out) == 2 and out[0] == out[1] else 1
    if op == "capi.nulls":
        return 0 if out and out[0] == "ok file=1 err=1 hdr=1 map=1 dm=1 write=1 convert=-1" else 1
    if op in ("capi.seqview", "rpu.ops3json"):
        pc, pr = out[0].split(" ", 3), out[1].split(" ", 3)
        if len(pc) < 4 or len(pr) < 4 or pc[:3] != pr[:3]:
            return 1
        try:
            diffs = compare_view(json.loads(pc[3]), json.loads(pr[3]))
        except ValueError:
            return 1
        for x in diffs:
            print("  DIFF " + str(x))
        return 1 if diffs else 0
    if len(out) == 2 and out[0].startswith("ok {") and out[1].startswith("ok {"):
        diffs = compare_view(json.loads(out[0][3:]), json.loads(out[1][3:]))
        for x in diffs:
            print("  DIFF " + str(x))
        return 1 if diffs else 0
    return 0 if len(out) == 2 and out[0] == out[1] == "err" else 1
