"""C19 — PQ <-> nits conversions are exact inverses on code values and match ST 2084.

Model side: the certified integer tables of lean/DoviModel/Model/PqTable.lean (theorems in Props/C19.lean say
they are the correctly rounded values of the real ST 2084 functions with a margin of 1e-6 code units).
Implementation side: the f64 functions dolby_vision::utils::{nits_to_pq, pq_to_nits} and their users.
Direct oracle (no reference to the model): a 60-digit decimal evaluation of ST 2084 written here, plus the
structural clauses of the property (code -> nits -> code identity, monotone, end points, anchors)."""
import math
import struct
from decimal import ROUND_FLOOR, Decimal, getcontext
from fractions import Fraction

from . import common

getcontext().prec = 60
D = Decimal
M1 = D(2610) / D(16384)
M2 = D(2523) / D(4096) * 128
C1 = D(3424) / D(4096)
C2 = D(2413) / D(4096) * 32
C3 = D(2392) / D(4096) * 32
HALF = D(1) / 2

ANCHORS = {100: 2081, 600: 2851, 1000: 3079, 4000: 3696}
L6_MIN_DOC = (1, 50)                     # 0.0001 and 0.005 nits
L6_MAX_DOC = (1000, 2000, 4000, 10000)


def pq_dec(v):
    """ST 2084 inverse EOTF of v nits (Decimal), as a PQ value in [0, 1]"""
    y = v / 10000
    t = D(0) if y == 0 else (M1 * y.ln()).exp()
    g = (C1 + C2 * t) / (1 + C3 * t)
    return (M2 * g.ln()).exp()


def code_dec(v):
    """(correctly rounded 12-bit code of v nits, distance of the exact code value to the nearest tie)"""
    e = 4095 * pq_dec(v)
    c = int((e + HALF).to_integral_value(rounding=ROUND_FLOOR))
    return c, float(HALF - abs(e - c))


def nits_dec(c):
    """exact luminance of the 12-bit code c (pq_to_nits over the reals)"""
    if c == 0:
        return D(0)
    x = D(c) / 4095
    xp = (x.ln() / M2).exp()
    num = max(xp - C1, D(0))
    if num == 0:
        return D(0)
    return ((num / (C2 - C3 * xp)).ln() / M1).exp() * 10000


def f64_of_bits(b):
    return struct.unpack("<d", struct.pack("<Q", b))[0]


def bits_of_f64(f):
    return struct.unpack("<Q", struct.pack("<d", f))[0]


def round_half_away(x):
    """f64::round for x >= 0"""
    r = math.floor(x)
    return r + 1 if x - r >= 0.5 else r


def ints(line):
    p = line.split(" ")
    if not p or p[0] != "ok":
        return None
    try:
        return [int(x) for x in p[1:]]
    except ValueError:
        return None


def cli_summary(ctx, rng, minstr, maxstr, r100_t):
    """RPU files whose source_min_pq / source_max_pq / L2 target_max_pq run over the 12-bit codes (all 4096 in the
    thorough tier), summarised by the real `dovi_tool info -s`; the printed nits must be the values derived from the
    stored codes (tables validated above against the exact ST 2084 luminance)."""
    import os, re
    from . import rpucases, clirun
    if len(minstr) != 4096 or len(maxstr) != 4096 or len(r100_t) != 4096:
        return
    ok, out = common.cargo_build_cli()
    if not ok:
        raise common.CheckError("dovi_tool does not build:\n" + out[-3000:])
    base = [p for n, p in rpucases.asset_rpus() if "profile8" in n][0]
    l2 = '{"Level2":{"target_max_pq":%d,"trim_slope":2048,"trim_offset":2048,"trim_power":2048,"trim_chroma_weight":2048,"trim_saturation_gain":2048,"ms_weight":2048}}'
    codes = list(range(4096)) if ctx.tier != "quick" else sorted(set([0, 1, 7, 62, 1803, 2081, 2614, 2851, 3079, 3260, 3388, 3696, 4095] + [rng.below(4096) for _ in range(500)]))
    per_file = 16
    files = []
    lines = []
    for i in range(0, len(codes), per_file):
        grp = codes[i:i + per_file]
        files.append(grp)
        for c in grp:
            lines.append("rpu.ops %s minmax:%d:%d;rmlevel:2;add:x|%s" % (base.hex(), c, (c * 2654435761) % 4096, l2 % ((c * 40503 + 17) % 4096)))
    outs, _, _ = common.run_lines_sharded(common.LIBCASE, lines)
    work = clirun.workdir("c19")
    try:
        k = 0
        for grp in files:
            rpus = []
            exp_pairs = set()
            exp_l2 = []
            for c in grp:
                o = outs[k]; k += 1
                if not o.startswith("ok ") or o.split(" ")[1] in ("werr", "wpanic"):
                    continue
                rpus.append(bytes.fromhex(o.split(" ")[1]))
                mx = (c * 2654435761) % 4096
                exp_pairs.add((c, mx))
                t = (c * 40503 + 17) % 4096
                if t not in exp_l2:
                    exp_l2.append(t)
            if not rpus:
                continue
            fp = os.path.join(work, "s.bin")
            clirun.write_rpu_file(fp, rpus)
            rc, so, se = clirun.run(["info", "-i", fp, "-s"])
            txt = so.decode(errors="replace")
            ctx.evaluations += 1
            m = re.search(r"RPU mastering display: (.*)", txt)
            m2 = re.search(r"L2 trims: (.*)", txt)
            want_md = ", ".join("%s/%s nits" % (minstr[a], maxstr[b]) for a, b in sorted(exp_pairs))
            # the summary converts each distinct target_max_pq and lists the results in order of first appearance
            want_l2 = ", ".join("%d nits" % (r100_t[t] * 100) for t in exp_l2)
            ctx.count("cli-summary files")
            ctx.nontriv("cli-summary %d" % grp[0])
            if rc != 0 or not m or m.group(1).strip() != want_md:
                rp = os.path.join(common.VERIF, "replays", "C19-summary-%d.bin" % grp[0])
                clirun.write_rpu_file(rp, rpus)
                ctx.oracle_fail({"op": "info -s (mastering display nits)", "input": rp, "codes": sorted(exp_pairs)[:4],
                                 "observed": (m.group(1)[:200] if m else "exit %s" % rc), "expected": want_md[:200], "shape": "summary-nits"})
            elif not m2 or m2.group(1).strip() != want_l2:
                rp = os.path.join(common.VERIF, "replays", "C19-summary-%d.bin" % grp[0])
                clirun.write_rpu_file(rp, rpus)
                ctx.oracle_fail({"op": "info -s (L2 trims nits)", "input": rp, "codes": exp_l2[:6],
                                 "observed": (m2.group(1)[:200] if m2 else "-"), "expected": want_l2[:200], "shape": "summary-l2-nits"})
    finally:
        clirun.cleanup(work)


def run(ctx):
    quick = ctx.tier == "quick"
    ctx.exhaustive = True
    ctx.rule = ("exhaustive over the domain of the property: all 4096 12-bit codes, all integer nits 0..10000, all "
                "min-luminance values k/10000 (k = 0..10000): (a) model (certified integer tables) vs the real f64 functions, "
                "element by element, for round(nits_to_pq(n)*4095), round(nits_to_pq(k/10000)*4095), "
                "ExtMetadataBlockLevel2::from_nits(n), code -> pq_to_nits -> nits_to_pq -> code, the summary roundings to "
                "100 and 1000 nits, source_meta_from_l6; (b) the f64 luminance pq_to_nits(c/4095) of every code must lie in "
                "the certified bracket of c (model decodes the f64 bit pattern exactly); (c) for every code the two f64 "
                "values just inside the ends of its certified bracket (3e-6 code units from the tie points) and random f64 "
                "luminances (log-uniform 1e-4..1e4, uniform, decimal grid): implementation code = certified code; "
                "(d) direct oracle without the model: every implementation code equals the code computed here with 60-digit "
                "decimal arithmetic, codes are non-decreasing, f64 values strictly increasing, end points, the anchors "
                "100/600/1000/4000 nits, code -> nits -> code = identity, documented L6 values, CM XML mastering/target "
                "display PQ through the real XML parser, summary strings re-derived from the f64 luminance; "
                "non-trivial = every distinct input of a conversion")
    ctx.assumptions = [
        "f64 / libm pow error of nits_to_pq and pq_to_nits stays below the certified margin (1e-6 code units at the bracket "
        "ends, i.e. about 1e-10 relative in the PQ value): CHECKED on the whole domain and at the bracket ends on every run, "
        "not proved",
        "`den.max(f64::NEG_INFINITY)` in pq_to_nits is the identity on numbers (dropped in the real-number model)",
        "rpu_info.rs summary expressions are replicated in the executor (they are inline in a bin-only crate), applied to the "
        "real pq_to_nits",
    ]
    ctx.build_and_audit()
    rng = ctx.rng.fork("c19")

    # ---------------------------------------------------------------------------------------------
    # (a) the tables, model vs implementation, element by element
    # ---------------------------------------------------------------------------------------------
    table_ops = ["pq.nits", "pq.minlum", "pq.l2", "pq.codes", "pq.round100", "pq.round1000", "pq.mono"]
    mo, io_ = ctx.correspond("pq.table", table_ops, shards=len(table_ops))
    impl = {}
    model = {}
    for op, m, o in zip(table_ops, mo, io_):
        mi, ii = ints(m), ints(o)
        model[op], impl[op] = mi, ii
        if ii is None:
            ctx.oracle_fail({"op": op, "input": "-", "observed": o[:200], "expected": "ok <integers>"})
            continue
        ctx.evaluations += len(ii) - 1
        ctx.count("elements:" + op, len(ii))
        if mi is not None and len(mi) == len(ii):
            nd = 0
            for i, (a, b) in enumerate(zip(mi, ii)):
                if a != b:
                    nd += 1
                    if nd <= 20:
                        ctx.disagree(op, "%s element %d" % (op, i), str(a), str(b))
            ctx.count("element_disagreements:" + op, nd)
    ctx.sample("pq.nits -> " + (io_[0][:80] if io_ else ""))

    nits_t = impl.get("pq.nits") or []
    min_t = impl.get("pq.minlum") or []
    l2_t = impl.get("pq.l2") or []
    back_t = impl.get("pq.codes") or []
    r100_t = impl.get("pq.round100") or []
    r1000_t = impl.get("pq.round1000") or []
    mono = impl.get("pq.mono") or []

    # ---------------------------------------------------------------------------------------------
    # (d) direct oracles on the implementation output (no model)
    # ---------------------------------------------------------------------------------------------
    min_tie = [1.0, None]

    def check_code(op, desc, v_dec, got):
        exp, dist = code_dec(v_dec)
        if dist < min_tie[0]:
            min_tie[0], min_tie[1] = dist, desc
        if dist < 1e-9:
            ctx.count("oracle_ambiguous_tie")
            return
        if got != exp:
            ctx.oracle_fail({"op": op, "input": desc, "observed": got, "expected": exp,
                             "exact_code_value": str(4095 * pq_dec(v_dec))[:30]})

    if len(nits_t) == 10001:
        for n, c in enumerate(nits_t):
            check_code("round(nits_to_pq(n)*4095)", "nits=%d" % n, D(n), c)
            ctx.nontriv("nits:%d" % n)
        for a, b in zip(range(10001), zip(nits_t, nits_t[1:])):
            if b[0] > b[1]:
                ctx.oracle_fail({"op": "monotone nits->code", "input": "nits=%d,%d" % (a, a + 1), "observed": list(b),
                                 "expected": "non-decreasing"})
        if nits_t[0] != 0 or nits_t[10000] != 4095:
            ctx.oracle_fail({"op": "end points", "input": "nits 0 / 10000", "observed": [nits_t[0], nits_t[10000]],
                             "expected": [0, 4095]})
        for n, c in ANCHORS.items():
            if nits_t[n] != c:
                ctx.oracle_fail({"op": "anchor", "input": "nits=%d" % n, "observed": nits_t[n], "expected": c})
        if l2_t != nits_t:
            bad = [i for i in range(min(len(l2_t), 10001)) if l2_t[i] != nits_t[i]][:1]
            ctx.oracle_fail({"op": "ExtMetadataBlockLevel2::from_nits", "input": "nits=%s" % (bad[0] if bad else "?"),
                             "observed": l2_t[bad[0]] if bad else "length", "expected": nits_t[bad[0]] if bad else 10001})
    else:
        ctx.oracle_fail({"op": "pq.nits", "input": "-", "observed": "length %d" % len(nits_t), "expected": 10001})
    if len(min_t) == 10001:
        for k, c in enumerate(min_t):
            check_code("round(nits_to_pq(k/10000)*4095)", "min_lum=%d/10000" % k, D(k) / 10000, c)
            ctx.nontriv("minlum:%d" % k)
        for k in range(10000):
            if min_t[k] > min_t[k + 1]:
                ctx.oracle_fail({"op": "monotone minlum->code", "input": "k=%d,%d" % (k, k + 1),
                                 "observed": [min_t[k], min_t[k + 1]], "expected": "non-decreasing"})
    else:
        ctx.oracle_fail({"op": "pq.minlum", "input": "-", "observed": "length %d" % len(min_t), "expected": 10001})
    if len(back_t) == 4096:
        for c, b in enumerate(back_t):
            ctx.nontriv("code:%d" % c)
            if b != c:
                ctx.oracle_fail({"op": "code->nits->code", "input": "code=%d" % c, "observed": b, "expected": c})
    else:
        ctx.oracle_fail({"op": "pq.codes", "input": "-", "observed": "length %d" % len(back_t), "expected": 4096})
    if mono[:3] != [0, 0, 0]:
        ctx.oracle_fail({"op": "strictly increasing f64 values (nits grid, min-lum grid, codes)", "input": "first index " + str(mono[3:]),
                         "observed": "non-increasing steps " + str(mono[:3]), "expected": [0, 0, 0]})

    # end points, exactly
    ends, _, _ = common.run_lines(common.LIBCASE, ["pq.ends", "pq.codebits", "pq.minstr", "pq.maxstr"])
    ctx.evaluations += 4
    e = ints(ends[0]) if ends else None
    if not e or len(e) != 4:
        ctx.oracle_fail({"op": "pq.ends", "input": "-", "observed": str(ends[:1])[:200], "expected": "ok <4 bit patterns>"})
    else:
        top, v1, v0, p0 = [f64_of_bits(x) for x in e]
        if abs(top - 1.0) > 1e-12 or abs(v1 - 10000.0) > 1e-6 or v0 != 0.0 or not (0.0 <= p0 * 4095 < 0.5):
            ctx.oracle_fail({"op": "end points", "input": "nits_to_pq(10000), pq_to_nits(1), pq_to_nits(0), nits_to_pq(0)",
                             "observed": [top, v1, v0, p0], "expected": [1.0, 10000.0, 0.0, "PQ value rounding to code 0"]})
    codebits = ints(ends[1]) if len(ends) > 1 else None
    nits_f = [f64_of_bits(b) for b in codebits] if codebits and len(codebits) == 4096 else None
    if nits_f is None:
        ctx.oracle_fail({"op": "pq.codebits", "input": "-", "observed": str(ends[1:2])[:200], "expected": "ok <4096 bit patterns>"})
    else:
        if nits_f[0] != 0.0 or abs(nits_f[4095] - 10000.0) > 1e-6:
            ctx.oracle_fail({"op": "end points", "input": "code 0 / code 4095", "observed": [nits_f[0], nits_f[4095]],
                             "expected": [0.0, 10000.0]})
        # accuracy of pq_to_nits against the decimal evaluation (relative 1e-9 is far inside half a code step)
        worst = 0.0
        for c in range(1, 4096):
            ex = nits_dec(c)
            rel = abs((D(nits_f[c]) - ex) / ex)
            worst = max(worst, float(rel))
            if rel > D("1e-9"):
                ctx.oracle_fail({"op": "pq_to_nits(c/4095)", "input": "code=%d" % c, "observed": repr(nits_f[c]),
                                 "expected": str(ex)[:25]})
        ctx.extra["pq_to_nits_max_relative_error_vs_decimal"] = worst
        # summary strings (rpu_info.rs:216-219, 331) re-derived from the f64 luminance
        minstr = ends[2].split(" ")[1:] if len(ends) > 2 else []
        maxstr = ends[3].split(" ")[1:] if len(ends) > 3 else []
        if len(minstr) != 4096 or len(maxstr) != 4096 or len(r100_t) != 4096 or len(r1000_t) != 4096:
            ctx.oracle_fail({"op": "summary strings", "input": "-", "observed": [len(minstr), len(maxstr), len(r100_t), len(r1000_t)],
                             "expected": 4096})
        else:
            for c in range(4096):
                v = nits_f[c]
                exp_min = "%.4f" % (round_half_away(v * 1e6) / 1e6)
                exp_max = "%d" % (round_half_away(v / 1000.0) * 1000)
                if minstr[c] != exp_min or maxstr[c] != exp_max:
                    ctx.oracle_fail({"op": "summary mastering display string", "input": "code=%d" % c,
                                     "observed": "%s/%s nits" % (minstr[c], maxstr[c]), "expected": "%s/%s nits" % (exp_min, exp_max)})
                # consistent with the exact luminance of the code
                ex = nits_dec(c)
                if abs(D(minstr[c]) - ex) > D("0.0000505") or abs(D(maxstr[c]) - ex) > 500 or abs(r100_t[c] * 100 - ex) > 50 \
                        or r1000_t[c] * 1000 != int(maxstr[c]):
                    ctx.oracle_fail({"op": "summary nits vs exact luminance of the code", "input": "code=%d" % c,
                                     "observed": [minstr[c], maxstr[c], r100_t[c] * 100], "expected": str(ex)[:20]})
            for c, n in ((2081, 100), (2851, 600), (3079, 1000), (3696, 4000), (4095, 10000)):
                if r100_t[c] * 100 != n:
                    ctx.oracle_fail({"op": "L2 trim target nits of the summary", "input": "target_max_pq=%d" % c,
                                     "observed": r100_t[c] * 100, "expected": n})
            ctx.sample("summary code 3079 -> %s/%s nits, L2 trim %d nits" % (minstr[3079], maxstr[3079], r100_t[3079] * 100))
            ctx.sample("summary code 62 -> %s/%s nits" % (minstr[62], maxstr[62]))

    # ---------------------------------------------------------------------------------------------
    # the summary of the real CLI (`info -s`): mastering-display and L2 trim nits of stored codes
    # ---------------------------------------------------------------------------------------------
    cli_summary(ctx, rng, minstr if 'minstr' in dir() else [], maxstr if 'maxstr' in dir() else [], r100_t)

    # ---------------------------------------------------------------------------------------------
    # L6-derived source PQ
    # ---------------------------------------------------------------------------------------------
    l6_lines = ["pq.l6 %d %d" % (a, b) for a in L6_MIN_DOC for b in L6_MAX_DOC]
    other_min = [0, 5, 10, 11, 49, 51, 100, 1000]
    other_max = [0, 100, 600, 999, 1001, 3000, 9999]
    l6_lines += ["pq.l6 %d %d" % (a, b) for a in other_min for b in (1000, 4000)]
    l6_lines += ["pq.l6 %d %d" % (a, b) for a in (1, 50) for b in other_max]
    mo, io_ = ctx.correspond("pq.l6", l6_lines, shards=1)
    for l, o in zip(l6_lines, io_):
        a, b = [int(x) for x in l.split(" ")[1:]]
        r = ints(o)
        if r is None or len(r) != 2:
            ctx.oracle_fail({"op": "pq.l6", "input": l, "observed": o, "expected": "ok <min_pq> <max_pq>"})
            continue
        if len(min_t) == 10001 and len(nits_t) == 10001:
            if a in L6_MIN_DOC and r[0] != min_t[a]:
                ctx.oracle_fail({"op": "source_meta_from_l6 (documented minimum)", "input": l, "observed": r[0], "expected": min_t[a]})
            if b in L6_MAX_DOC and r[1] != nits_t[b]:
                ctx.oracle_fail({"op": "source_meta_from_l6 (documented maximum)", "input": l, "observed": r[1], "expected": nits_t[b]})
            if a not in L6_MIN_DOC and r[0] != min_t[a]:
                ctx.count("l6_min_fallback_not_the_conversion")
            if b not in L6_MAX_DOC and r[1] != nits_t[b]:
                ctx.count("l6_max_fallback_not_the_conversion")
        ctx.nontriv(l)
    ctx.sample(l6_lines[0] + " -> " + (io_[0] if io_ else ""))

    # ---------------------------------------------------------------------------------------------
    # (b) + (c) arbitrary f64 luminances: implementation code vs certified code of the exact value
    # ---------------------------------------------------------------------------------------------
    cases = []     # (tag, bits)
    if nits_f is not None:
        for c in range(4096):
            cases.append(("nits_of_code=%d" % c, codebits[c], c))
    # bracket ends
    blines = ["pq.bracket %d" % c for c in range(4096)]
    bout, _, _ = common.run_lines_sharded(common.MODEL_EXE, blines, shards=8)
    n_edge = 0
    for c, o in enumerate(bout):
        r = ints(o)
        if r is None or len(r) != 2:
            ctx.proof_failures.append({"what": "model op pq.bracket failed", "case": blines[c], "model": o[:100]})
            continue
        lo, hi = Fraction(10000 * r[0], 2 ** 64), Fraction(10000 * r[1], 2 ** 64)
        if not lo < hi:
            ctx.proof_failures.append({"what": "empty certified bracket", "case": blines[c], "model": o[:100]})
            continue
        f = float(lo)
        while Fraction(f) < lo:
            f = math.nextafter(f, math.inf)
        g = float(hi)
        while Fraction(g) > hi:
            g = math.nextafter(g, -math.inf)
        if Fraction(f) <= hi:
            cases.append(("bracket_lo_of=%d" % c, bits_of_f64(f), c))
            n_edge += 1
        if Fraction(g) >= lo:
            cases.append(("bracket_hi_of=%d" % c, bits_of_f64(g), c))
            n_edge += 1
    ctx.count("bracket_end_inputs", n_edge)
    # random luminances
    n_rand = 20000 if quick else 400000
    rnd = []
    for i in range(n_rand):
        k = i % 4
        if k == 0:
            v = 10.0 ** (rng.below(8000001) / 1e6 - 4.0)
        elif k == 1:
            v = rng.below(10 ** 9) / 1e5
        elif k == 2:
            v = float("%.4f" % (rng.below(10 ** 7) / 1e4))       # decimal text as an XML MinimumBrightness would carry
        else:
            v = rng.below(100001) / 10.0                          # generator: average_rgb / 10
        if 0.0 <= v <= 10000.0:
            rnd.append(("f64=%r" % v, bits_of_f64(v), None))
    # ask the model first: values inside one of the 6e-6-wide gaps around the tie points have no certified code
    pre, _, _ = common.run_lines_sharded(common.MODEL_EXE, ["pq.f64code %d" % b for _, b, _ in rnd], shards=16)
    kept = []
    for cs, o in zip(rnd, pre):
        if o == "ok gap":
            ctx.count("random_inputs_inside_a_tie_gap_skipped")
        else:
            kept.append(cs)
    cases += kept
    flines = ["pq.f64code %d" % b for _, b, _ in cases]
    mo, io_ = ctx.correspond("pq.f64code", flines, shards=16)
    for (tag, b, want), l, m, o in zip(cases, flines, mo, io_):
        r = ints(o)
        ctx.nontriv("f64:%d" % b)
        if r is None or len(r) != 1:
            ctx.oracle_fail({"op": "pq.f64code", "input": l + " (" + tag + ")", "observed": o, "expected": "ok <code>"})
            continue
        v = f64_of_bits(b)
        # direct oracle: decimal evaluation at the exact f64 value
        check_code("round(nits_to_pq(x)*4095)", "%s bits=%d value=%r" % (tag, b, v), D(v), r[0])
        if want is not None and tag.startswith("nits_of_code") and m != "ok %d" % want:
            # the f64 luminance computed by pq_to_nits left the certified bracket of its code
            ctx.oracle_fail({"op": "pq_to_nits(c/4095) inside the certified bracket of c", "input": tag,
                             "observed": "value %r has certified code %s" % (v, m), "expected": want})
    ctx.count("f64_inputs", len(cases))
    if cases:
        ctx.sample(flines[0] + " -> " + io_[0])
        ctx.sample(flines[-1] + " (" + cases[-1][0] + ") -> " + io_[-1])

    # ---------------------------------------------------------------------------------------------
    # CM XML: mastering display and target display PQ through the real parser
    # ---------------------------------------------------------------------------------------------
    tmins = ["0", "0.0001", "0.001", "0.005", "0.01", "0.05", "0.1", "0.5", "1", "0.0005", "0.02", "2.5"]
    ks = list(range(10001))
    xl = []
    for k in ks:
        mx = (k * 7919 + 1000) % 10001
        tp = (k * 3 + 100) % 10001
        tm = tmins[k % len(tmins)] if k % 3 else "%.4f" % (((k * 37) % 10001) / 10000.0)
        xl.append("pq.xml %.4f %d %d %s" % (k / 10000.0, mx, tp, tm))
    xo, _, _ = common.run_lines_sharded(common.LIBCASE, xl, shards=16)
    ctx.evaluations += len(xl)
    nk = 0
    for l, o in zip(xl, xo):
        p = l.split(" ")
        r = ints(o)
        if r is None or len(r) != 6:
            ctx.oracle_fail({"op": "pq.xml", "input": l, "observed": o[:200], "expected": "ok <6 integers>"})
            continue
        k2, mx2, smin, smax, tmax, tmin = r
        if k2 != round(float(p[1]) * 10000):
            nk += 1           # f32 parse of MinimumBrightness (C11 territory); the PQ value must follow what was parsed
        ctx.nontriv(l)
        if len(min_t) == 10001 and len(nits_t) == 10001:
            exp = [min_t[k2] if k2 <= 10000 else None, nits_t[mx2] if mx2 <= 10000 else None,
                   min(4095, nits_t[int(p[3])]), min(4095, code_dec(D(float(p[4])))[0])]
            got = [smin, smax, tmax, tmin]
            for name, g, e_ in zip(("source_min_pq", "source_max_pq", "L10 target_max_pq", "L10 target_min_pq"), got, exp):
                if e_ is not None and g != e_:
                    ctx.oracle_fail({"op": "CM XML " + name, "input": l, "observed": g, "expected": e_})
    ctx.count("xml_cases", len(xl))
    ctx.count("xml_min_luminance_text_parsed_to_a_different_k", nk)
    if xl:
        ctx.sample(xl[1] + " -> " + xo[1])

    ctx.extra["smallest_distance_to_a_rounding_tie_seen_by_the_decimal_oracle"] = {"code_units": min_tie[0], "input": min_tie[1]}
    ctx.notes.append("source_meta_from_l6 is a fixed lookup: only its documented entries (min 1, 50; max 1000, 2000, 4000, 10000) "
                     "are required to equal the conversion; other inputs fall back to 7/0 and 3079 by design (counted in input_distribution)")
    ctx.notes.append("generator.rs:215-216 (nits_to_pq(x.round())) and xml/parser.rs:549 take integer nits: covered by the integer "
                     "nits table; plotter.rs tick labels are not part of the property")


def replay(ctx, path):
    """every case is a deterministic function of (seed, tier): a replay re-runs the check with the recorded seed and tier"""
    import json
    d = json.load(open(path))
    ctx.seed = int(d.get("seed", ctx.seed))
    ctx.tier = d.get("tier", ctx.tier)
    ctx.rng = common.Lcg(ctx.seed)
    run(ctx)
    return ctx.finish()
