"""C03 — every emitted RPU is well-formed and decodes to exactly what was written."""
import json

from . import common, editgen, rpucases, specgen, c12

MAIN_FIELDS = (["ycc_to_rgb_coef%d" % i for i in range(9)] + ["ycc_to_rgb_offset%d" % i for i in range(3)] +
               ["rgb_to_lms_coef%d" % i for i in range(9)] +
               ["signal_eotf", "signal_eotf_param0", "signal_eotf_param1", "signal_eotf_param2", "signal_bit_depth",
                "signal_color_space", "signal_chroma_format", "signal_full_range_flag", "source_min_pq", "source_max_pq",
                "source_diagonal"])


def hx(b):
    return bytes(b).hex() if len(b) else "-"


def normalize(j):
    """what a re-parse cannot be expected to reproduce literally: the stale CRC value and the
    all-false `linear_interp_flag` vector the static profile 8.4 mapping leaves empty"""
    j = json.loads(json.dumps(j))
    j.pop("rpu_data_crc32", None)
    m = j.get("rpu_data_mapping")
    if m:
        for c in m.get("curves", []):
            if "linear_interp_flag" in c and not any(c["linear_interp_flag"]):
                c["linear_interp_flag"] = []
    return j


def classify(mem, back, out_len):
    """shape of a difference, used to match the known findings"""
    if back is None:
        if out_len < 25:
            return "output-shorter-than-25-bytes"
        dm = mem.get("vdr_dm_data")
        if dm is not None and "remaining" in mem and "cmv40_metadata" not in dm:
            return "data-before-crc-without-cmv40-is-read-as-cmv40"
        return "emitted-rpu-does-not-reparse"
    d = rpucases.diff(normalize(mem), normalize(back))
    paths = [p for p, _, _ in d]
    cdt = mem["header"]["coefficient_data_type"]
    comp = mem.get("vdr_dm_data", {}).get("compressed")
    f14 = [p for p in paths if cdt == 1 and ("_int" in p or p.startswith("/el_type"))]
    f15 = [p for p in paths if comp and p.startswith("/vdr_dm_data/") and p.split("/")[2] in MAIN_FIELDS]
    rest = [p for p in paths if p not in f14 and p not in f15]
    if rest:
        return "field-mismatch:" + rest[0]
    shapes = []
    if f14:
        shapes.append("coefficient_data_type-1-integer-parts-not-written")
    if f15:
        shapes.append("compressed-dm-main-fields-not-written")
    return "+".join(shapes) if shapes else "field-mismatch:?"


def count_violations(mem):
    """the representability rules of the property, evaluated on the in-memory JSON (independent of model and tool):
    per-level block counts, level in the right DM container, exactly one L254 in CM v4.0"""
    out = []
    d = mem.get("vdr_dm_data")
    if not d:
        return out
    limits29 = {1: 1, 2: 8, 4: 1, 5: 1, 6: 1, 255: 1}
    limits40 = {3: 1, 8: 5, 9: 1, 10: 4, 11: 1, 254: 1}
    for key, lim in (("cmv29_metadata", limits29), ("cmv40_metadata", limits40)):
        c = d.get(key)
        if c is None:
            continue
        cnt = {}
        for b in c["ext_metadata_blocks"]:
            lv = int(list(b)[0][5:])
            cnt[lv] = cnt.get(lv, 0) + 1
        for lv, k in cnt.items():
            if lv not in lim:
                out.append("%s holds a level %d block" % (key, lv))
            elif k > lim[lv]:
                out.append("%s holds %d L%d blocks (max %d)" % (key, k, lv, lim[lv]))
        if key == "cmv40_metadata" and cnt.get(254, 0) != 1:
            out.append("cmv40 without exactly one L254 block")
    return out


def run(ctx):
    ctx.rule = ("structured RPUs (all shapes of C01) and the repository's samples, each followed by a random sequence of 0..12 "
                "public operations (conversions with every mode, crop, active-area offsets, source PQ, scene cut, remove "
                "mapping / CM v4.0, block add/replace/remove with field values over the full Rust integer types, level copy "
                "from another RPU); the result is written by the real code, re-parsed by the real parser and by the Lean model "
                "parser (independent decoder) and compared field for field with the JSON of the in-memory structure; CRC-32, "
                "0x80 terminator are recomputed independently; non-trivial = the write succeeded after >= 1 operation; "
                "distinct by (input, op sequence) hash")
    ctx.assumptions = ["a write error is accepted whenever it is reported (the property forbids silent truncation, not errors)",
                       "generator outputs are exercised through the CLI in C10"]
    ctx.build_and_audit()
    rng = ctx.rng.fork("c03")
    n = 1500 if ctx.tier == "quick" else 40000
    gen = rpucases.gen_structured(rng.fork("gen"), n)
    pool = [b for b, j, t in gen if len(b) >= 25]
    pool += [p for _, p in rpucases.asset_rpus()]
    pool_hex = [hx(b) for b in pool][:200]
    lines = []
    for i in range(n):
        b = rng.choice(pool)
        k = rng.choice([0, 1, 1, 2, 3, 5, 8, 12])
        ops = [editgen.gen_op(rng, pool_hex) for _ in range(k)]
        if rng.chance(1, 12):
            # a container emptied completely (count 0 followed by the other container / the alignment bits):
            # CM v2.9 with no block left while CM v4.0 follows, or the other way round
            lv = rng.choice([[1, 2, 4, 5, 6, 255], [1, 2, 4, 5, 6, 255], [3, 8, 9, 10, 11]])
            ops = ["rmlevel:%d" % x for x in lv] + ops[:2] + (["scene:%d" % rng.below(2)] if rng.chance(1, 2) else [])
        lines.append("rpu.ops %s %s" % (hx(b), ";".join(ops) if ops else "-"))
    mo, io_ = ctx.correspond("rpu.ops", lines, canon=c12.canon)
    # re-parse everything that was written
    rep = []
    idx = []
    for i, o in enumerate(io_):
        p = o.split(" ", 2)
        if p[0] == "ok" and p[1] not in ("werr", "wpanic"):
            rep.append("rpu.json " + p[1])
            idx.append(i)
        if p[0] == "ok":
            ctx.count("write=" + ("ok" if p[1] not in ("werr", "wpanic") else p[1]))
        else:
            ctx.count("ops=" + p[0])
        if p[0] == "ok" and p[1] == "wpanic" or o.startswith("panic"):
            ctx.oracle_fail({"op": "rpu.ops", "input": lines[i][:4000], "observed": o[:100],
                             "expected": "written bytes or a write error", "shape": "panic"})
    rm, ri = ctx.correspond("rpu.json (re-parse of written RPU)", rep, canon=rpucases.canon_json_line)
    for k, i in enumerate(idx):
        p = io_[i].split(" ", 2)
        out = bytes.fromhex(p[1])
        arr = json.loads(p[2])
        ops = lines[i].split(" ")[2]
        if not arr:
            # no operation: unmodified write (C01's territory) — still must re-parse
            mem = None
        else:
            mem = arr[-1]
        # independent well-formedness: terminator and CRC
        body = out.rstrip(b"\x00")
        if len(body) < 7 or body[-1] != 0x80 or specgen.crc32_mpeg2(body[1:-5]) != int.from_bytes(body[-5:-1], "big"):
            ctx.oracle_fail({"op": "rpu.ops", "input": lines[i][:4000], "observed": "bad CRC-32 or terminator in " + p[1][:80],
                             "expected": "crc32(body) stored before a final 0x80", "shape": "crc-or-terminator"})
        back = json.loads(ri[k][3:]) if ri[k].startswith("ok {") else None
        if mem is None:
            if back is None and len(out) >= 25:
                ctx.oracle_fail({"op": "rpu.ops", "input": lines[i][:4000], "observed": "unmodified write does not re-parse",
                                 "expected": "re-parses", "shape": "emitted-rpu-does-not-reparse"})
            continue
        ctx.nontriv(lines[i])
        cv = count_violations(mem)
        if cv:
            ctx.oracle_fail({"op": "rpu.ops", "input": lines[i][:6000], "written": p[1][:2000],
                             "observed": "write succeeded although: " + "; ".join(cv[:3]),
                             "expected": "a write error (metadata not representable)", "shape": "unrepresentable-written"})
            continue
        if back is None or normalize(mem) != normalize(back):
            shape = classify(mem, back, len(out))
            d = rpucases.diff(normalize(mem), normalize(back)) if back is not None else []
            for sh in (shape.split("+") if not shape.startswith("field-mismatch") else [shape]):
                ctx.oracle_fail({"op": "rpu.ops", "input": lines[i][:6000], "written": p[1][:2000],
                                 "observed": [(a, str(c)) for a, b_, c in d[:4]] if back is not None else ri[k],
                                 "expected": [(a, str(b_)) for a, b_, c in d[:4]] if back is not None else "the written RPU parses",
                                 "shape": sh})
                ctx.count("mismatch=" + sh.split(":")[0])
    # --- how much of the explored space the theorem covers ---------------------------------------
    # model-only: evaluate the decidable hypothesis RpuWfB of C03.write_parse_sound on every structure reached
    # (after the edit sequence) and the theorem's conclusion on the executable model. wf=1 & write=ok must give
    # reparse=same (an instance of the theorem: anything else means the compiled model and the kernel-checked
    # one differ); wf=0 cases are counted by the first failing conjunct: those are outside the theorem and are
    # decided by the differential / direct oracles above only.
    wl = ["rpu.opswf " + l.split(" ", 1)[1] for l in lines]
    wo, _, _ = common.run_lines_sharded(common.MODEL_EXE, wl)
    for l, o in zip(wl, wo):
        if not o.startswith("sesmall="):
            continue
        f = dict(x.split("=") for x in o.split(" "))
        ctx.count("theorem-hypothesis wf=%s%s" % (f["wf"], "" if f["wf"] == "1" else " (" + f["why"] + ")"))
        if f["write"] == "ok":
            ctx.count("theorem-covered written RPU" if f["wf"] == "1" else "outside-theorem written RPU (%s, reparse=%s)" % (f["why"], f["reparse"]))
        if f["wf"] == "1" and f["write"] == "ok" and f["reparse"] != "same":
            ctx.disagree("theorem instance (write_parse_sound) on the executable model", l[:3000], "reparse=same", o)
    ctx.sample(lines[3][:500])
    ctx.sample(lines[4][:500])
