"""C14 — reading an RPU file returns exactly the RPUs written, or an error."""
from . import common, rpucases, specgen

SC = b"\x00\x00\x00\x01"
ENV = {"VERIF_WORK": common.WORK}


def hx(b):
    return bytes(b).hex() if len(b) else "-"


def crc_of(b):
    t = b.rstrip(b"\x00")
    return int.from_bytes(t[-5:-1], "big")


def build(rpus):
    out = bytearray()
    starts = []
    for b in rpus:
        starts.append(len(out))
        out += SC + specgen.escape(b)
    return bytes(out), starts


def run(ctx):
    ctx.rule = ("files of 0..N structured RPUs (sizes 25..~1500 bytes, 0..3 trailing zero bytes before the next start code) read "
                "by the library file reader with read chunk sizes chosen so that a chunk boundary falls at every offset -4..+4 "
                "around a start code, at exact multiples of the file size, and at the real 100000 bytes (thorough: files of "
                "several chunks); one corrupted RPU first/middle/last/in a later chunk; empty file; file without start code; "
                "expected result computed from the written list (ids = stored CRC-32 values in order); model vs real reader on "
                "every case; non-trivial = file with >= 2 RPUs crossing at least one chunk boundary; distinct by (file, chunk) hash")
    ctx.assumptions = ["reads of a regular file return full buffers until EOF; hook chunk sizes are kept >= 8192 (BufReader capacity) so that this also holds with the hook",
                       "a read error in the middle of the file ends the loop silently (fault sequence, outside C14's quantifier)",
                       "every RPU plus 8 bytes fits in one chunk (true for any RPU at the real chunk size); the model shows the bail otherwise"]
    ctx.build_and_audit()
    import os
    os.makedirs(common.WORK, exist_ok=True)
    rng = ctx.rng.fork("c14")
    npool = 400 if ctx.tier == "quick" else 3000
    pool = [b for b, j, t in rpucases.gen_structured(rng.fork("gen"), npool) if len(b) >= 25]
    lines = []
    expect = []

    def add(rpus, c, corrupt=None, note="", kind="crc"):
        rp = list(rpus)
        exp_ok = len(rp) > 0
        post = None
        if corrupt is not None and rp:
            i = corrupt
            d = bytearray(rp[i])
            if kind == "crc":
                d[len(d) // 2] ^= 0x55      # CRC no longer matches
            elif kind == "prefix":
                d[0] = rng.choice([0x18, 0x1A, 0x7C, 0x99])   # the 0x19 RPU prefix byte
            elif kind == "header":
                d[1] ^= 0x40                 # rpu_type / format bits
            elif kind == "terminator":
                t = len(bytes(d).rstrip(b"\x00")) - 1
                d[t] = 0x81
            elif kind == "truncate":
                d = d[: max(6, len(d) - 9)]
            elif kind == "startcode":
                post = i                     # break the start code of entry i (it merges with its predecessor)
            rp[i] = bytes(d)
            exp_ok = False
        data, starts = build(rp)
        if post is not None:
            dd = bytearray(data)
            dd[starts[post] + 3] = 2
            data = bytes(dd)
            if post == 0 and len(rp) > 1:
                pass
        lines.append("file.parse %d %s" % (c, hx(data)))
        expect.append(("ok %d %s" % (len(rp), ",".join(str(crc_of(b)) for b in rp))) if exp_ok else "err")
        ctx.count("case=" + note)
        if len(rp) >= 2 and len(data) > c:
            ctx.nontriv(lines[-1][:200] + str(len(data)))

    nfiles = 25 if ctx.tier == "quick" else 200
    for f in range(nfiles):
        k = rng.choice([1, 2, 3, 30, 60, 90]) if ctx.tier == "quick" else rng.choice([1, 2, 5, 100, 400, 1200])
        rpus = [rng.choice(pool) + b"\x00" * rng.choice([0, 0, 0, 1, 2, 3]) for _ in range(k)]
        data, starts = build(rpus)
        # chunk sizes: boundary at -4..+4 around start codes beyond the BufReader capacity
        cands = [s for s in starts if s >= 8192 + 4]
        cs = [8192, 10000, 16384]
        for s in rng.shuffle(cands)[:3]:
            for d in range(-4, 5):
                cs.append(s + d)
        if len(data) >= 2 * 8192:
            for div in (2, 3):
                if len(data) % div == 0 and len(data) // div >= 8192:
                    cs.append(len(data) // div)
        if len(data) >= 8192:
            cs.append(len(data))          # file size equals the chunk size exactly
        if ctx.tier == "thorough":
            cs.append(100000)
        for c in cs:
            add(rpus, c, None, "valid")
        if k >= 2:
            for pos, note in ((0, "corrupt-first"), (k // 2, "corrupt-middle"), (k - 1, "corrupt-last")):
                for kind in ("crc", "prefix", "header", "terminator", "truncate", "startcode"):
                    if kind == "startcode" and pos == 0:
                        continue    # bytes before the first start code belong to no entry
                    add(rpus, rng.choice(cs), pos, note + "/" + kind, kind)
    # runs of identical RPUs with one corrupted copy, and same-length neighbours that differ (with 3 trailing zeros,
    # so that their last bytes coincide): a reader must parse every entry on its own
    for f in range(6 if ctx.tier == "quick" else 60):
        base = rng.choice(pool)
        k = rng.choice([3, 12, 40])
        c = rng.choice([8192, 10000, 16384])
        add([base] * k, c, None, "copies/valid")
        for pos in (1, k // 2, k - 1):
            add([base] * k, c, pos, "copies/corrupt-crc", "crc")
        sib = []
        for j in range(k):
            d = bytearray(base.rstrip(b"\x00"))
            d[len(d) // 2] = (d[len(d) // 2] + j) & 0xFF
            sib.append(specgen.repair_crc(bytes(d)) + b"\x00\x00\x00")
        # siblings that do not parse (the changed byte broke the syntax) are fine: the expectation below is computed
        # per entry by the model and the real parser alike; keep only the readable ones
        chk, _, _ = common.run_lines(common.LIBCASE, ["rpu.json " + hx(x) for x in sib])
        sib = [x for x, o in zip(sib, chk) if o.startswith("ok {")]
        if len(sib) >= 2:
            add(sib, c, None, "same-length-siblings/3-trailing-zeros")
    # exact multiple of the chunk size by trailing padding
    for _ in range(4):
        rpus = [rng.choice(pool) for _ in range(40)]
        data, _ = build(rpus)
        c = 8192
        pad = (-len(data)) % c
        rpus[-1] = rpus[-1] + b"\x00" * pad
        add(rpus, c, None, "exact-multiple")
    lines.append("file.parse 8192 -"); expect.append("err"); ctx.count("case=empty")
    lines.append("file.parse 8192 " + hx(rng.bytes(300).replace(b"\x00\x00\x00\x01", b"\x01\x01\x01\x01"))); expect.append("err"); ctx.count("case=no-start-code")
    lines.append("file.parse 8192 " + hx(specgen.escape(pool[0]))); expect.append("err"); ctx.count("case=no-start-code")
    ctx.evaluations += len(lines)
    mo, _, _ = common.run_lines_sharded(common.MODEL_EXE, lines)
    io_, _, _ = common.run_lines_sharded(common.LIBCASE, lines, env=ENV)
    for l, m, o, e in zip(lines, mo, io_, expect):
        oc = "panic" if o.startswith("panic:") else o        # the model carries no panic site
        if m != oc:
            ctx.disagree("file.parse", l[:3000], m[:300], o[:300])
        if o.startswith("panic:") and "bitstream_io_reader.rs" in o and e == "err":
            # a damaged entry that happens to contain an exp-Golomb code with 64 leading zeros: the third-party
            # reader's panic (C08's known finding KF-C08-ue64) seen through the file reader; the model says the same
            # (`panic`, compared above). Not a statement about the file reader: counted, not judged here.
            ctx.count("damaged entry hits the third-party exp-Golomb panic (C08 known finding; model agrees)")
            continue
        if o != e:
            ctx.oracle_fail({"op": "file.parse", "chunk": int(l.split(" ")[1]), "input": l.split(" ")[2],
                             "observed": o[:300], "expected": e[:300]})
    ctx.sample(lines[0][:200] + "…")
    ctx.sample({"chunk_sizes_of_first_file": sorted(set(int(l.split(" ")[1]) for l in lines[:40]))})
