"""Abstract editor configs rendered twice: the JSON file dovi_tool reads and the compact line the model reads."""
import json

L9_NAMES = ["DCIP3D65", "BT709", "BT2020", "SMPTEC", "BT601", "DCIP3", "ACES", "SGamut", "SGamut3Cine"]
L9_ALIASES = {0: "DCI-P3 D65", 1: "BT.709", 2: "BT.2020", 3: "SMPTE-C", 4: "BT.601", 5: "DCI-P3", 7: "S-Gamut", 8: "S-Gamut-3.Cine"}


def gen_range(rng, n, allow_bad=True):
    """a range string around the list bounds: start=end, end=N-1, end=N, start>end, unparsable halves"""
    k = rng.below(100)
    if n == 0:
        n = 1
    if k < 72 or not allow_bad:
        a = rng.below(n)
        b = a + rng.below(n - a)
        return "%d-%d" % (a, b)
    if k < 76:
        a = rng.below(n)
        return "%d-%d" % (a, a)
    if k < 80:
        return "%d-%d" % (rng.below(n), n - 1)
    if k < 84:
        return "%d-%d" % (rng.below(n), n)            # end == N: must be an error
    if k < 88:
        b = rng.below(n)
        return "%d-%d" % (b + 1 + rng.below(3), b)    # start > end
    if k < 91:
        return "0-%d" % (n + rng.below(5))
    if k < 94:
        return rng.choice(["-%d" % rng.below(n), "%d-" % rng.below(n), "a-b", "1-2-3", "+1-2", "x1-2", "0-00"])
    if k < 97:
        return "%d-%d" % (0, n - 1)
    return "%d-%d" % (rng.below(n + 2), rng.below(n + 2))


def gen_config(rng, n, with_source=False):
    """returns (json_obj, compact_string, facts) for a list of n frames"""
    j = {}
    c = []
    facts = {"per_frame": False, "ranges": []}
    pf = lambda: facts.__setitem__("per_frame", True)
    # mostly-valid configs: in clean mode every range, index, preset id and value is legal, so that the run reaches
    # the list-wide passes and their interactions (remove x ranges x duplicate) instead of an early error
    clean = rng.chance(3, 5)
    facts["clean"] = clean
    _gr = gen_range
    gr = (lambda r, k: _gr(r, k, allow_bad=False)) if clean else _gr
    if rng.chance(1, 6):
        m = rng.choice([0, 1, 2, 3, 4, 5, 6, 255]) if not clean else rng.choice([0, 0, 2, 3])
        j["mode"] = m; c.append("mode=%d" % m)
        if m:
            pf()
    if rng.chance(1, 8):
        j["remove_cmv4"] = True; c.append("rmcmv4=1"); pf()
    if rng.chance(1, 10):
        j["remove_mapping"] = True; c.append("rmmap=1"); pf()
    if rng.chance(1, 8):
        v = rng.choice([0, 7, 62, 4095, 4096, 5000] if not clean else [0, 7, 62, 4095]); j["min_pq"] = v; c.append("min=%d" % v); pf()
    if rng.chance(1, 8):
        v = rng.choice([3079, 3696, 4095, 4096, 65535] if not clean else [3079, 3696, 4095]); j["max_pq"] = v; c.append("max=%d" % v); pf()
    if rng.chance(1, 8):
        v = [rng.choice([1000, 4000, 10000, 10001] if not clean else [1000, 4000, 10000]), rng.choice([1, 50, 10, 11, 49, 10001] if not clean else [1, 50, 10, 11, 49]), rng.below(10001), rng.below(10001)]
        j["level6"] = dict(zip(["max_display_mastering_luminance", "min_display_mastering_luminance",
                                "max_content_light_level", "max_frame_average_light_level"], v))
        c.append("l6=" + ":".join(map(str, v))); pf()
    if rng.chance(1, 10):
        i = rng.below(9)
        j["level9"] = L9_ALIASES.get(i, L9_NAMES[i]) if rng.chance(1, 2) else L9_NAMES[i]
        c.append("l9=%d" % i); pf()
    if rng.chance(1, 10):
        ct, wp, ref = rng.choice([0, 1, 15, 16] if not clean else [0, 1, 15]), rng.choice([0, 15, 16] if not clean else [0, 15]), rng.below(2)
        j["level11"] = {"content_type": ct, "whitepoint": wp, "reference_mode_flag": bool(ref)}
        c.append("l11=%d:%d:%d:0:0" % (ct, wp, ref)); pf()
    if rng.chance(1, 12):
        v = [rng.below(256) for _ in range(6)]
        j["level255"] = dict(zip(["dm_run_mode", "dm_run_version", "dm_debug0", "dm_debug1", "dm_debug2", "dm_debug3"], v))
        c.append("l255=" + ":".join(map(str, v))); pf()
    if rng.chance(1, 3):
        cuts = {}
        order = []
        for _ in range(1 + rng.below(4)):
            k = rng.choice(["all", "ALL", "All"]) if rng.chance(1, 8) else gr(rng, n)
            v = rng.chance(1, 2)
            if k not in cuts:
                order.append(k)
            cuts[k] = v
            if k.lower() == "all":
                pf()
            else:
                facts["ranges"].append(k)
        j["scene_cuts"] = {k: cuts[k] for k in order}
        c.append("cuts=" + "|".join("%s:%d" % (k, cuts[k]) for k in order))
    if rng.chance(1, 2):
        aa = {}
        c.append("aa=1")
        if rng.chance(1, 6):
            aa["crop"] = True; c.append("crop=1"); pf()
        if rng.chance(1, 8):
            v = rng.choice(["all", "zeroes", "ALL", "Zeroes", "none"]); aa["drop_l5"] = v; c.append("dropl5=" + v); pf()
        if rng.chance(4, 5):
            ids = [0, 1, 2, 3][: 1 + rng.below(4)]
            ps = []
            for i in ids:
                m = rng.choice([300, 8191, 8192] if not clean else [300, 8191])
                ps.append({"id": i, "left": rng.below(m + 1), "right": rng.below(m + 1), "top": rng.below(300), "bottom": rng.below(300)})
            aa["presets"] = ps
            c.append("presets=" + "|".join("%d:%d:%d:%d:%d" % (p["id"], p["left"], p["right"], p["top"], p["bottom"]) for p in ps))
        if rng.chance(4, 5):
            ed = {}
            order = []
            for _ in range(1 + rng.below(5)):
                k = rng.choice(["all", "ALL"]) if rng.chance(1, 10) else gr(rng, n)
                v = rng.choice([0, 1, 2, 3, 4, 9]) if not (clean and "presets" in aa) else rng.choice([p["id"] for p in aa["presets"]])
                if k not in ed:
                    order.append(k)
                ed[k] = v
                if k.lower() == "all":
                    pf()
                else:
                    facts["ranges"].append(k)
            aa["edits"] = {k: ed[k] for k in order}
            c.append("aaedits=" + "|".join("%s:%d" % (k, ed[k]) for k in order))
        j["active_area"] = aa
    if rng.chance(1, 4):
        rm = []
        for _ in range(1 + rng.below(3)):
            rm.append(gr(rng, n) if rng.chance(2, 3) else (rng.choice([str(rng.below(n + 1)), str(n - 1), "x", "+0"]) if not clean else str(rng.below(n))))
        j["remove"] = rm; c.append("remove=" + "|".join(rm))
        facts["remove"] = rm
    if rng.chance(1, 4):
        dups = []
        for _ in range(1 + rng.below(3)):
            dups.append({"source": rng.below(n + 1) if not clean else rng.below(max(1, n)), "offset": rng.choice([0, n, n + 1, rng.below(n + 1)]) if not clean else rng.below(n + 1), "length": rng.below(4)})
        j["duplicate"] = dups; c.append("dup=" + "|".join("%d:%d:%d" % (d["source"], d["offset"], d["length"]) for d in dups))
        facts["dups"] = dups
    if with_source:
        lv = [rng.choice([1, 2, 3, 5, 6, 8, 9, 10, 11, 254, 255]) for _ in range(rng.below(4))]
        if rng.chance(9, 10):
            j["rpu_levels"] = lv; c.append("levels=" + "|".join(map(str, lv)))
        pf()
    return j, ("&".join(c) if c else "-"), facts
