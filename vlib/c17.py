"""C17 — same inputs, same outputs: every command is deterministic."""
import concurrent.futures
import hashlib
import json
import os
import shutil

from . import common, rpucases, specgen, editorgen, clirun

ASSETS = os.path.join(common.REPO, "assets")


def hx(b):
    return bytes(b).hex() if len(b) else "-"


def digest_dir(d, names):
    h = []
    for n in names:
        p = os.path.join(d, n)
        h.append((n, hashlib.sha256(open(p, "rb").read()).hexdigest() if os.path.exists(p) else None))
    return h


def variants(work, k):
    """k process environments: HOME, LANG, cwd, RUST_BACKTRACE, font configuration"""
    out = []
    for i in range(k):
        home = os.path.join(work, "home%d" % i)
        cwd = os.path.join(work, "cwd%d" % i)
        os.makedirs(home, exist_ok=True)
        os.makedirs(cwd, exist_ok=True)
        env = {"HOME": home, "LANG": ["C", "en_US.UTF-8", "de_DE.UTF-8", "tr_TR.UTF-8"][i % 4],
               "LC_ALL": ["C", "", "C.UTF-8", ""][i % 4], "RUST_BACKTRACE": ["0", "1", "full", "0"][i % 4],
               "FONTCONFIG_PATH": os.path.join(work, "nofonts") if i % 2 else "", "TZ": ["UTC", "Asia/Tokyo"][i % 2]}
        out.append((env, cwd))
    return out


def run(ctx):
    ctx.rule = ("each command (editor with 2..5 overlapping scene-cut / active-area ranges, generate from JSON / CM XML incl. "
                "several target displays, export all/scenes/level5, info -s, extract-rpu, convert, demux, mux, inject-rpu, remove "
                "on the repository's sample streams and on generated RPU lists; convert/demux/remove/extract-rpu --start-code annex-b on a "
                "stream whose first access unit exceeds the read chunk, piped in with a different write size / pacing per process) is executed in 8 (quick) / 16 (thorough) fresh "
                "processes with varied HOME, LANG/LC_ALL, working directory, RUST_BACKTRACE, font configuration and time zone, and "
                "(every third process) output paths that already hold longer files; generated CM XML with >= 3 custom target displays sharing peak/min/primaries; "
                "output file hashes, exit status (and stdout where it is the product) must coincide; the Lean theorem states that "
                "the editor model depends only on the set of map entries; non-trivial = command produced output; distinct by command line")
    ctx.assumptions = ["repeated execution is exploration, not proof: it samples process-level nondeterminism (hash seeds, environment)",
                       "plot only contributes its exit status (image bytes depend on fonts)"]
    ctx.build_and_audit(need_cli=True)
    rng = ctx.rng.fork("c17")
    reps = 8 if ctx.tier == "quick" else 16
    work = clirun.workdir("c17")
    jobs = []      # (name, argv builder(outdir) -> (args, outputs), stdout_is_product)
    try:
        pool = [b for b, j, t in rpucases.gen_structured(rng.fork("gen"), 300) if len(b) >= 25 and "remaining=0" in t and "dm=1" in t]
        chk, _, _ = common.run_lines_sharded(common.LIBCASE, ["rpu.write " + hx(b) for b in pool])
        pool = [b for b, o in zip(pool, chk) if o.startswith("ok ") and o != "ok werr"]
        shared = os.path.join(work, "shared")
        os.makedirs(shared, exist_ok=True)
        # editor configs with overlapping ranges
        ncfg = 6 if ctx.tier == "quick" else 60
        for c in range(ncfg):
            n = 12
            rp = os.path.join(shared, "list%d.bin" % c)
            clirun.write_rpu_file(rp, [rng.choice(pool) for _ in range(n)])
            k = 2 + rng.below(4)
            cuts = {}
            edits = {}
            for _ in range(k):
                a = rng.below(n); b = a + rng.below(n - a)
                cuts["%d-%d" % (a, b)] = rng.chance(1, 2)
                a = rng.below(n); b = a + rng.below(n - a)
                edits["%d-%d" % (a, b)] = rng.below(3)
            cfg = {"scene_cuts": cuts, "active_area": {"presets": [{"id": i, "left": 10 * i, "right": 20 * i, "top": 30 * i, "bottom": 5 * i} for i in range(3)], "edits": edits}}
            cp = os.path.join(shared, "cfg%d.json" % c)
            json.dump(cfg, open(cp, "w"))
            jobs.append(("editor-overlap-%d" % c, (lambda o, rp=rp, cp=cp: (["editor", "-i", rp, "-j", cp, "-o", os.path.join(o, "out.bin")], ["out.bin"])), False))
        rp0 = os.path.join(shared, "list0.bin")
        jobs.append(("export", lambda o: (["export", "-i", rp0, "-d", "all=%s/a.json,scenes=%s/s.txt,level5=%s/l.json" % (o, o, o)], ["a.json", "s.txt", "l.json"]), False))
        jobs.append(("info-summary", lambda o: (["info", "-i", rp0, "-s"], []), True))
        jobs.append(("info-frame", lambda o: (["info", "-i", rp0, "-f", "3"], []), True))
        for x in sorted(os.listdir(os.path.join(ASSETS, "tests"))):
            if x.endswith(".xml"):
                xp = os.path.join(ASSETS, "tests", x)
                jobs.append(("generate-xml-" + x, (lambda o, xp=xp: (["generate", "--xml", xp, "-o", os.path.join(o, "g.bin")], ["g.bin"])), False))
        # generated CM XML with several custom target displays that share their values (ties in any ordering key)
        from . import xmlgen
        xr = rng.fork("xml")
        nx = 0
        tries = 0
        while nx < (6 if ctx.tier == "quick" else 40) and tries < 2000:
            tries += 1
            doc = xmlgen.gen_doc(xr, max_shots=2, max_dur=2, beyond=False)
            if doc["version"] == "2.0.5":
                continue
            custom = [t for t in doc["targets"] if t["id"] not in xmlgen.PRESET_TARGETS]
            while len(custom) < 3:
                i = 50 + xr.below(200)
                if i in [t["id"] for t in doc["targets"]] or i in xmlgen.PRESET_TARGETS:
                    continue
                t = {"id": i, "peak": 1000, "min": 0.0001, "prim": xmlgen.gen_primaries(xr), "app": "HOME"}
                doc["targets"].append(t); custom.append(t)
            share = xr.choice(["peak", "peak+min", "all"])
            for t in custom[1:]:
                t["peak"] = custom[0]["peak"]
                if share != "peak":
                    t["min"] = custom[0]["min"]
                if share == "all":
                    t["prim"] = list(custom[0]["prim"])
            xp = os.path.join(shared, "gen%d.xml" % nx)
            open(xp, "w").write(xmlgen.render(doc))
            jobs.append(("generate-xml-shared-targets-%d" % nx, (lambda o, xp=xp: (["generate", "--xml", xp, "-o", os.path.join(o, "g.bin")], ["g.bin"])), False))
            nx += 1
        for x in sorted(os.listdir(os.path.join(ASSETS, "generator_examples"))):
            jp = os.path.join(ASSETS, "generator_examples", x)
            jobs.append(("generate-json-" + x, (lambda o, jp=jp: (["generate", "-j", jp, "-o", os.path.join(o, "g.bin")], ["g.bin"])), False))
        hv = os.path.join(ASSETS, "hevc_tests", "regular.hevc")
        bl = os.path.join(ASSETS, "hevc_tests", "regular_bl_start_code_4.hevc")
        rpu = os.path.join(ASSETS, "hevc_tests", "regular_rpu.bin")
        jobs.append(("extract-rpu", lambda o: (["extract-rpu", hv, "-o", os.path.join(o, "r.bin")], ["r.bin"]), False))
        jobs.append(("extract-rpu-m2", lambda o: (["-m", "2", "extract-rpu", hv, "-o", os.path.join(o, "r.bin")], ["r.bin"]), False))
        jobs.append(("convert", lambda o: (["-m", "2", "convert", hv, "-o", os.path.join(o, "c.hevc")], ["c.hevc"]), False))
        jobs.append(("demux", lambda o: (["demux", hv, "--bl-out", os.path.join(o, "bl.hevc"), "--el-out", os.path.join(o, "el.hevc")], ["bl.hevc", "el.hevc"]), False))
        jobs.append(("remove", lambda o: (["remove", hv, "-o", os.path.join(o, "b.hevc")], ["b.hevc"]), False))
        jobs.append(("inject", lambda o: (["inject-rpu", "-i", bl, "--rpu-in", rpu, "-o", os.path.join(o, "i.hevc")], ["i.hevc"]), False))
        jobs.append(("plot", lambda o: (["plot", rpu, "-o", os.path.join(o, "p.png")], []), False))
        # piped input: the same bytes delivered in different write sizes and paces must give the same files. The
        # stream's first access unit is larger than the 100 kB read chunk and made of many NALs, so chunk boundaries
        # (which follow the pipe's delivery) fall inside it
        from . import hevcgen as H, hevcrun as R
        nals = H.split_nals(open(hv, "rb").read())
        first_vcl = next(i for i, (_, nl) in enumerate(nals) if H.nal_type(nl) < 32)
        sr = rng.fork("bigau")
        extra = []
        for _ in range(40):
            payload = bytes(range(16)) + bytes(1 + sr.below(255) for _ in range(5200 + sr.below(900)))
            extra.append((4, H.sei_nal([(5, payload)], H.SEI_PREFIX, 0)))
        big = b"".join((b"\x00\x00\x00\x01" if sc == 4 else b"\x00\x00\x01") + nl for sc, nl in nals[:first_vcl] + extra + nals[first_vcl:])
        stdin_jobs = {}
        for nm, tail, outs in (("convert-stdin-annexb", lambda o: ["convert", "-", "-o", os.path.join(o, "c.hevc")], ["c.hevc"]),
                               ("demux-stdin-annexb", lambda o: ["demux", "-", "--bl-out", os.path.join(o, "bl.hevc"), "--el-out", os.path.join(o, "el.hevc")], ["bl.hevc", "el.hevc"]),
                               ("remove-stdin-annexb", lambda o: ["remove", "-", "-o", os.path.join(o, "b.hevc")], ["b.hevc"]),
                               ("extract-rpu-stdin", lambda o: ["extract-rpu", "-", "-o", os.path.join(o, "r.bin")], ["r.bin"])):
            jobs.append((nm, (lambda o, tail=tail, outs=outs: (["--start-code", "annex-b"] + tail(o), outs)), False))
            stdin_jobs[nm] = True
        deliveries = [[(len(big), 0)]]
        fr = rng.fork("frag")
        for r_ in range(1, reps):
            prof = ["small", "chunkish", "large", "tiny-head", "paced"][(r_ - 1) % 5]
            pieces, left = [], len(big)
            while left > 0:
                if prof == "small":
                    n_ = 1 + fr.below(4096)
                elif prof == "chunkish":
                    n_ = 100000 - 7 + fr.below(15) if fr.chance(1, 2) else 1 + fr.below(200000)
                elif prof == "large":
                    n_ = 1 + fr.below(70000)
                elif prof == "tiny-head":
                    n_ = 1 + fr.below(9) if len(pieces) < 300 else 50000
                else:
                    n_ = 65536
                n_ = min(n_, left)
                pieces.append((n_, (1 + fr.below(4)) if (prof == "paced" or fr.chance(1, 50)) else 0))
                left -= n_
            deliveries.append(pieces)
        envs = variants(work, reps)

        def one(job_rep):
            (name, build, stdout_prod), r = job_rep
            env, cwd = envs[r]
            o = os.path.join(work, "out-%s-%d" % (name.replace("/", "_"), r))
            os.makedirs(o, exist_ok=True)
            args, outs = build(o)
            if r % 3 == 1:
                # filesystem state must not leak in either: the output paths already hold (longer) files
                for n in outs:
                    with open(os.path.join(o, n), "wb") as fh:
                        fh.write((b"\x00\x00\x00\x01" + b"\x19" + bytes(range(256))) * 12000)
            if name in stdin_jobs:
                res_ = R.run_tool(args, env=env, stdin_data=big, pieces=deliveries[r], cwd=o, timeout=300)
                rc, so, se = res_.rc, res_.out, res_.err
            else:
                rc, so, se = clirun.run(args, cwd=cwd, env=env, timeout=300)
            dg = digest_dir(o, outs)
            shutil.rmtree(o, ignore_errors=True)
            so_h = hashlib.sha256(so.replace(o.encode(), b"<out>")).hexdigest() if stdout_prod else None
            return name, r, (rc, dg, so_h), " ".join(args)
        todo = [(j, r) for j in jobs for r in range(reps)]
        with concurrent.futures.ThreadPoolExecutor(max_workers=14) as ex:
            res = list(ex.map(one, todo))
    finally:
        clirun.cleanup(work)
    by = {}
    for name, r, obs, cmd in res:
        by.setdefault(name, []).append((r, obs, cmd))
    for name, runs in sorted(by.items()):
        ctx.evaluations += len(runs)
        first = runs[0][1]
        ctx.count("command=" + name.split("-")[0])
        if any(d is not None for _, d in first[1]) or first[2] is not None:
            ctx.nontriv(name)
        for r, obs, cmd in runs[1:]:
            if obs != first:
                ctx.oracle_fail({"op": name, "input": cmd.replace(common.WORK, "<work>")[:500], "run": r,
                                 "observed": str(obs)[:300], "expected": str(first)[:300], "shape": "nondeterministic"})
                break
    ctx.sample({"commands": sorted(by)[:40], "processes_per_command": reps})
