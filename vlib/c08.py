"""C08 — parsing untrusted bytes always returns: no panic, abort, hang or huge allocation."""
import os

from . import common, rpucases, specgen

ENV = {"VERIF_RLIMIT_AS_MB": "2048", "VERIF_WORK": common.WORK}


def hx(b):
    return bytes(b).hex() if len(b) else "-"


def canon(line):
    # panic location is reported by the executor only; the model prints the class
    return "panic" if line.startswith("panic") else line


def zero_run(rng, data):
    """insert a long run of zero bits (a huge exp-Golomb code) at a random bit position"""
    bits = []
    for b in data:
        bits += [(b >> (7 - i)) & 1 for i in range(8)]
    pos = 8 + rng.below(max(1, len(bits) - 48))
    z = rng.choice([31, 32, 33, 62, 63, 64, 65, 80])
    bits = bits[:pos] + [0] * z + [1] + bits[pos:]
    while len(bits) % 8:
        bits.append(0)
    out = bytes(int("".join(map(str, bits[i:i + 8])), 2) for i in range(0, len(bits), 8))
    return out


def run(ctx):
    ctx.rule = ("every parsing entry point (raw RPU, UNSPEC62 NAL, AV1 T.35 OBU, ST 2094-10 SEI, RPU .bin file, C API wrappers) "
                "on: random bytes behind each accepted prefix; structured RPUs with 1..8 bit/byte mutations, CRC repaired or "
                "not; the encoder's EXTREME mode (exp-Golomb codes up to and beyond 2^64, block/pivot counts, method ids, "
                "L8/L9/L10 lengths outside the known set); inserted zero runs of 31..80 bits at every field position; "
                "truncation at every byte; executed under RLIMIT_AS 2 GiB with per-batch time limits; outcome class "
                "(ok | err | panic | abort | timeout) compared with the model's class for the modelled entry points; "
                "non-trivial = input passes the prefix/length gate (reaches the bit-level parser); distinct by input hash")
    ctx.assumptions = ["time and memory are observed under limits (2 GiB address space, 20 s + 20 ms/case per batch), not proved",
                       "third-party exp-Golomb readers (bitvec_helpers get_ue with 64 leading zeros, get_se at i64::MIN) panic in the dev profile: recorded as known findings by panic site"]
    ctx.build_and_audit()
    os.makedirs(common.WORK, exist_ok=True)
    rng = ctx.rng.fork("c08")
    n = 1200 if ctx.tier == "quick" else 40000
    valid = [b for b, _, _ in rpucases.gen_structured(rng.fork("valid"), n)]
    specgen.EXTREME = 0.04
    try:
        extreme = [b for b, _, _ in rpucases.gen_structured(rng.fork("extreme"), n)]
    finally:
        specgen.EXTREME = 0.0
    # containers carrying a block of a level that does not exist (0, 7, 12, 13, 100, 253): the parser must reject
    specgen.UNKNOWN_LEVEL = 0.5
    try:
        extreme += [b for b, _, _ in rpucases.gen_structured(rng.fork("unknown-level"), n // 4)]
    finally:
        specgen.UNKNOWN_LEVEL = 0.0
    inputs = []   # (kind, prefix-less rpu bytes)
    for b in valid:
        inputs.append(("valid", b))
        k = rng.below(4)
        if k == 0:
            inputs.append(("mut-crc", rpucases.mutate(rng, b, 8, True)))
        elif k == 1:
            inputs.append(("mut-nocrc", rpucases.mutate(rng, b, 8, False)))
        elif k == 2:
            inputs.append(("zero-run", specgen.repair_crc(zero_run(rng, b))))
        else:
            inputs.append(("zero-run-nocrc", zero_run(rng, b)))
    for b in extreme:
        inputs.append(("extreme", b))
        if rng.chance(1, 2):
            inputs.append(("extreme-mut", rpucases.mutate(rng, b, 3, True)))
    # truncation at every byte of a few RPUs, with and without repaired CRC
    for b in valid[:6 if ctx.tier == "quick" else 60]:
        for cut in range(0, len(b)):
            t = b[:cut]
            inputs.append(("trunc", t))
            if cut > 8:
                inputs.append(("trunc-crc", specgen.repair_crc(t + b"\x00\x00\x00\x00\x80")))
    # short / degenerate buffers behind the accepted prefixes
    for tail in [b"", b"\x80", b"\x00" * 30, b"\x80" + b"\x00" * 30, b"\xff" * 30, b"\x00" * 22 + b"\x80", b"\x08\x09" + b"\x00" * 40]:
        inputs.append(("degenerate", b"\x19\x08\x09" + tail))
    for _ in range(300 if ctx.tier == "quick" else 5000):
        inputs.append(("random", b"\x19\x08\x09" + rng.bytes(rng.below(120))))
    lines = []
    kinds = []
    for kind, b in inputs:
        pfx = rng.choice(rpucases.PREFIXES)
        lines.append("c08.rpu " + hx(pfx + b)); kinds.append(kind)
        lines.append("c08.nalu " + hx(rng.choice([b"\x7c\x01", b"\x00\x00\x00\x01", b""]) + specgen.escape(b))); kinds.append(kind)
        if rng.chance(1, 4):
            lines.append("c08.capi rpu " + hx(b)); kinds.append(kind)
            lines.append("c08.capi nalu " + hx(b"\x7c\x01" + specgen.escape(b))); kinds.append(kind)
    # non-canonical escaping at the NAL entry: emulation-prevention bytes at the very end, doubled, before
    # bytes > 3, and escaped NALs cut right after `00 00` / `00 00 03`
    EPB_TAILS = [b"\x00\x00\x03", b"\x00\x00\x03\x00\x00\x03", b"\x00\x03", b"\x00\x00\x03\x03", b"\x00\x00\x03\x00",
                 b"\x03", b"\x00\x00", b"\x00\x00\x03\x80"]
    for b in valid[: 40 if ctx.tier == "quick" else 1500]:
        e = specgen.escape(b)
        for tail in (EPB_TAILS if ctx.tier != "quick" else [rng.choice(EPB_TAILS), EPB_TAILS[0]]):
            lines.append("c08.nalu " + hx(rng.choice([b"\x7c\x01", b"\x00\x00\x00\x01", b""]) + e + tail)); kinds.append("epb-tail")
        pos = rng.below(len(e))
        ins = e[:pos] + b"\x00\x00\x03" + e[pos:]
        lines.append("c08.nalu " + hx(b"\x7c\x01" + ins)); kinds.append("epb-insert")
        lines.append("c08.nalu " + hx(b"\x7c\x01" + ins[: pos + 3])); kinds.append("epb-cut")
        lines.append("c08.nalu " + hx(b"\x7c\x01" + ins[: pos + 2])); kinds.append("epb-cut")
        lines.append("c08.capi nalu " + hx(b"\x7c\x01" + e + b"\x00\x00\x03")); kinds.append("epb-tail")
    # AV1: OBUs of valid RPUs, mutated; crafted variable_bits runs
    obl = ["av1.obu " + hx(b) for b in valid[: n // 3]]
    obo, _, _ = common.run_lines_sharded(common.LIBCASE, obl)
    hdr = bytes([0xB5, 0x00, 0x3B, 0x00, 0x00, 0x08, 0x00, 0x37, 0xCD, 0x08])
    av1_inputs = []
    for o in obo:
        if o.startswith("ok ") and o != "ok werr":
            obu = bytes.fromhex(o[3:])
            av1_inputs.append(obu)
            av1_inputs.append(rpucases.mutate(rng, obu, 6, False))
            av1_inputs.append(obu[: rng.below(len(obu))])
    for _ in range(200 if ctx.tier == "quick" else 4000):
        # long read_more chains in the size field, random tails
        body = bytes([0x3F | (rng.below(4) << 6)]) + bytes(rng.choice([0xFF, 0xFF, 0xFE, 0x7F, rng.below(256)]) for _ in range(rng.below(60)))
        av1_inputs.append(hdr + body + rng.bytes(rng.below(40)))
        av1_inputs.append(hdr[1:] + rng.bytes(30 + rng.below(40)))
    # every short length, with and without the 0xB5 country code, of a valid OBU and of the bare header (the minimum
    # length test and the prefix strip interact at 9/10 and 34/35 bytes)
    short_src = [x for x in av1_inputs[:3] if len(x) >= 45][:1] or [hdr + bytes(40)]
    for base in short_src + [hdr + bytes(40)]:
        core = base[1:] if base[:1] == b"\xb5" else base
        for cut in range(0, 45):
            av1_inputs.append(core[:cut])
            av1_inputs.append(b"\xb5" + core[:cut])
    for b in av1_inputs:
        lines.append("c08.av1 " + hx(b)); kinds.append("av1")
        if rng.chance(1, 4):
            lines.append("c08.capi av1 " + hx(b)); kinds.append("av1")
    # ST 2094-10: both start-byte forms, both payload types, random and zero-run tails
    st_only = []
    for _ in range(600 if ctx.tier == "quick" else 15000):
        t = rng.choice([8, 9, 9, 8, rng.below(256)])
        tail = rng.bytes(rng.below(80))
        if rng.chance(1, 3):
            tail = bytes(rng.choice([0, 0, 0, 1, 0x80, rng.below(256)]) for _ in range(rng.below(80)))
        core = bytes([0xB5, 0x00, 0x31, 0x47, 0x41, 0x39, 0x34, t]) + tail
        st_only.append(rng.choice([core, bytes([0x4E, 0x01, 0x04, rng.below(256)]) + core]))
    for cut in range(0, 12):
        st_only.append(bytes([0xB5, 0x00, 0x31, 0x47, 0x41, 0x39, 0x34, 8, 0, 0, 0, 0])[:cut])
    for x in list(st_only[:60]):
        st_only.append(x + rng.choice(EPB_TAILS))
        st_only.append(x[: rng.below(len(x) + 1)] + b"\x00\x00\x03")
    # structured ST 2094-10 payloads (CM data with all loops, DM data with a CM v2.9 container), EXTREME codes,
    # single-bit mutations, both start-byte forms, escaped
    for i in range(800 if ctx.tier == "quick" else 20000):
        specgen.EXTREME = 0.02 if i % 4 == 0 else 0.0
        try:
            b = specgen.gen_st2094(rng.fork("st%d" % i))
        finally:
            specgen.EXTREME = 0.0
        if rng.chance(1, 3):
            b = bytes([0x4E, 0x01, 0x04, rng.below(256)]) + b
        if rng.chance(1, 5) and len(b) > 10:
            k = rng.below(len(b))
            b = b[:k] + bytes([b[k] ^ (1 << rng.below(8))]) + b[k + 1:]
        st_only.append(specgen.escape(b))
    st_lines = ["c08.st2094 " + hx(b) for b in st_only]
    # RPU files
    file_lines = []
    sc = b"\x00\x00\x00\x01"
    for _ in range(150 if ctx.tier == "quick" else 3000):
        k = rng.below(6)
        parts = []
        for _ in range(k):
            b = rng.choice(valid)
            if rng.chance(1, 4):
                b = rpucases.mutate(rng, b, 4, rng.chance(1, 2))
            parts.append(sc + specgen.escape(b) + (rng.choice(EPB_TAILS) if rng.chance(1, 6) else b""))
        blob = b"".join(parts)
        if rng.chance(1, 5):
            blob = blob[: rng.below(len(blob) + 1)]
        if rng.chance(1, 8):
            blob = rng.bytes(rng.below(200))
        file_lines.append(rng.choice(["c08.file ", "c08.capifile "]) + hx(blob))
    # --- model vs implementation on the modelled entry points -----------------------------------
    # (ST 2094-10 and the RPU file reader are modelled too: Model/St2094.lean, Model/RpuFile.lean)
    lines = lines + st_lines + file_lines
    kinds = kinds + ["st2094"] * len(st_lines) + ["file"] * len(file_lines)
    st_lines, file_lines = [], []
    ctx.evaluations += len(lines)
    mo, _, _ = common.run_lines_sharded(common.MODEL_EXE, lines)
    io_ = common.run_lines_resilient_sharded(common.LIBCASE, lines, env=ENV)
    extra = st_lines + file_lines
    eo = common.run_lines_resilient_sharded(common.LIBCASE, extra, env=ENV)
    ctx.evaluations += len(extra)
    for l, m, o, kind in zip(lines, mo, io_, kinds):
        ctx.count("kind=" + kind)
        c = canon(o)
        ctx.count("class=" + c.split(":")[0])
        # a panic inside an `extern "C"` wrapper cannot unwind: the process aborts
        if l.startswith("c08.capi") and c == "abort":
            c = "panic"
        if canon(m) != c:
            ctx.disagree("c08 class", l[:2000], m, o)
        if c in ("ok", "err") or c.startswith("ok"):
            if c != "err" or len(l) > 70:
                ctx.nontriv(l)
    direct = {}
    for l, o in zip(lines, io_):
        direct[l.split(" ")[-1]] = o
    for l, o in list(zip(lines, io_)) + list(zip(extra, eo)):
        c = canon(o)
        if l.startswith("c08.capi ") and o == "abort":
            # attribute the abort to the panic of the wrapped entry point on the same bytes
            entry = l.split(" ")[1]
            r, _, _ = common.run_lines(common.LIBCASE, ["c08.%s %s" % (entry, l.split(" ")[-1])], env=ENV)
            if r and r[0].startswith("panic:"):
                o = "abort-in-extern-C-of-" + r[0]
        if l.startswith("c08.capifile") and o == "abort":
            r, _, _ = common.run_lines(common.LIBCASE, ["c08.file " + l.split(" ")[-1]], env=ENV)
            if r and r[0].startswith("panic:"):
                o = "abort-in-extern-C-of-" + r[0]
        if l.startswith(("c08.st", "c08.file", "c08.capifile")):
            ctx.nontriv(l)
        if not (c == "ok" or c == "err" or c.startswith("ok:")):
            ctx.oracle_fail({"op": l.split(" ")[0] + (" " + l.split(" ")[1] if l.startswith("c08.capi ") else ""),
                             "input": l.split(" ")[-1][:6000], "observed": o, "expected": "ok | err",
                             "site": o.split(":", 1)[1] if ":" in o else o})
    ctx.sample(lines[0][:300])
    for pre in ("c08.st2094", "c08.file"):
        ctx.sample(next((l[:300] for l in lines if l.startswith(pre)), pre))
