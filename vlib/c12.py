"""C12 — extension-block edits keep each DM container consistent."""
import json

from . import common, editgen, rpucases


def hx(b):
    return bytes(b).hex() if len(b) else "-"


def blocks_of(j, key):
    d = j.get("vdr_dm_data")
    if not d or key not in d:
        return None
    c = d[key]
    return c["num_ext_blocks"], [(int(list(b)[0][5:]), b[list(b)[0]]) for b in c["ext_metadata_blocks"]]


def sort_key(level, f):
    if level == 2:
        return (2, f["target_max_pq"])
    if level in (8, 10):
        return (level, f["target_display_index"])
    if level == 9:
        return (9, f["source_primary_index"])
    return (level, 0)


def target_key(level, f):
    if level == 2:
        return (2, f["target_max_pq"])
    if level in (8, 10):
        return (level, f["target_display_index"])
    return (level, None)


def check_step(ctx, case, idx, op, before, after):
    """the property, evaluated on the implementation's own JSON before/after one operation"""
    fails = []
    for key, allowed in (("cmv29_metadata", editgen.CMV29), ("cmv40_metadata", editgen.CMV40)):
        a = blocks_of(after, key)
        b = blocks_of(before, key)
        if a is None:
            continue
        n, bl = a
        if n != len(bl):
            fails.append("%s: num_ext_blocks %d != %d blocks" % (key, n, len(bl)))
        for lv, f in bl:
            if lv not in allowed:
                fails.append("%s holds a level %d block" % (key, lv))
        if b is not None and b != a:
            ks = [sort_key(lv, f) for lv, f in bl]
            if ks != sorted(ks):
                fails.append("%s touched but not sorted: %s" % (key, ks))
    name = op.split(":")[0]
    if name in ("repl", "add", "repllevel"):
        blk = json.loads(op.split("|", 1)[1])
        lname = list(blk)[0]
        level = int(lname[5:])
        f = blk[lname]
        key = "cmv29_metadata" if level in editgen.CMV29 else "cmv40_metadata"
        b = blocks_of(before, key)
        a = blocks_of(after, key)
        if b is None:
            # container absent: nothing may be stored anywhere
            if after.get("vdr_dm_data") != before.get("vdr_dm_data"):
                fails.append("block stored although its container is absent")
        elif name == "repl":
            tk = target_key(level, f)
            cb = sum(1 for lv, g in b[1] if target_key(lv, g) == tk)
            ca = sum(1 for lv, g in a[1] if target_key(lv, g) == tk)
            want = max(1, cb) if level in (2, 8, 10) else 1
            if ca != want:
                fails.append("upsert: %d blocks with key %s after (before %d, expected %d)" % (ca, tk, cb, want))
            others_b = [(lv, g) for lv, g in b[1] if target_key(lv, g) != tk]
            others_a = [(lv, g) for lv, g in a[1] if target_key(lv, g) != tk]
            if sorted(map(json.dumps, others_b)) != sorted(map(json.dumps, others_a)):
                fails.append("upsert changed another block")
            # relative order of the untouched blocks of equal sort key is kept (stable sort)
    for f_ in fails:
        ctx.oracle_fail({"op": "rpu.ops", "input": case, "step": idx, "operation": op[:200], "observed": f_,
                         "expected": "container invariants of C12"})
    return not fails


def run(ctx):
    ctx.rule = ("operation sequences of length 0..12 over {add, replace-level, keyed replace, remove-level, crop, set offsets, "
                "remove CM v4.0, copy levels from another RPU, conversions} with blocks of every level/length/target (targets "
                "drawn from a small pool so that upserts collide), applied to structured RPUs with no DM data, v2.9 only or both "
                "containers, sorted or shuffled, and to the repository's samples (unordered_l8_blocks.bin included); after every "
                "operation the implementation's JSON is checked against the container invariants and compared with the model's "
                "JSON; non-trivial = at least one operation changed a container; distinct by (input, op sequence) hash")
    ctx.assumptions = ["operations are applied through the public Rust API in-process (the editor/generator reach them through the same functions)"]
    ctx.build_and_audit()
    rng = ctx.rng.fork("c12")
    n = 2500 if ctx.tier == "quick" else 20000
    gen = rpucases.gen_structured(rng.fork("gen"), n)
    pool = [b for b, j, t in gen if len(b) >= 25 and "remaining=0" in t]
    pool += [p for _, p in rpucases.asset_rpus()]
    pool_hex = [hx(b) for b in pool if b"\x00" != b[-1:]][:200]
    lines = []
    for i in range(n):
        b = rng.choice(pool)
        k = rng.choice([0, 1, 2, 3, 5, 8, 12])
        ops = [editgen.gen_op(rng, pool_hex) for _ in range(k)]
        lines.append("rpu.ops %s %s" % (hx(b), ";".join(ops) if ops else "-"))
        ctx.count("oplen=%d" % k)
    mo, io_ = ctx.correspond("rpu.ops", lines, canon=canon)
    for l, o in zip(lines, io_):
        parts = o.split(" ", 2)
        if parts[0] not in ("ok", "operr"):
            if o != "err":
                ctx.oracle_fail({"op": "rpu.ops", "input": l[:3000], "observed": o[:200], "expected": "ok|operr|err"})
            continue
        arr = json.loads(parts[2])
        ops = l.split(" ")[2].split(";") if l.split(" ")[2] != "-" else []
        base, _, _ = common.run_lines(common.LIBCASE, []) if False else (None, None, None)
        prev = None
        changed = False
        for idx, (op, cur) in enumerate(zip(ops, arr)):
            ctx.count("op=" + op.split(":")[0])
            if prev is not None:
                if check_step(ctx, l[:3000], idx, op, prev, cur) and prev.get("vdr_dm_data") != cur.get("vdr_dm_data"):
                    changed = True
            prev = cur
        if parts[0] == "operr":
            ctx.count("sequence-ended-in-op-error")
        if changed:
            ctx.nontriv(l)
    ctx.sample(lines[1][:600])
    ctx.sample(lines[2][:600])


def canon(line):
    p = line.split(" ", 2)
    if p[0] in ("ok", "operr") and len(p) == 3:
        try:
            return p[0] + " " + p[1] + " " + json.dumps(json.loads(p[2]), sort_keys=True, separators=(",", ":"))
        except ValueError:
            return line
    return line
