"""C16 — info/export are faithful views: frame JSON, scene list, L5 config, summary."""
import concurrent.futures
import json
import math
import os
import re

from . import common, rpucases, specgen, clirun

M1 = 2610.0 / 16384.0
M2 = (2523.0 / 4096.0) * 128.0
C1 = 3424.0 / 4096.0
C2 = (2413.0 / 4096.0) * 32.0
C3 = (2392.0 / 4096.0) * 32.0


def pq_to_nits(x):
    if x > 0.0:
        xpow = x ** (1.0 / M2)
        num = max(xpow - C1, 0.0)
        den = max(C2 - C3 * xpow, -math.inf)
        return (num / den) ** (1.0 / M1) * 10000.0
    return 0.0


def rnd(x):
    return math.floor(x + 0.5) if x >= 0 else -math.floor(-x + 0.5)


def hx(b):
    return bytes(b).hex() if len(b) else "-"


def l5_of(j):
    d = j.get("vdr_dm_data")
    if d and "cmv29_metadata" in d:
        for b in d["cmv29_metadata"]["ext_metadata_blocks"]:
            if "Level5" in b:
                f = b["Level5"]
                return [f["active_area_left_offset"], f["active_area_right_offset"], f["active_area_top_offset"], f["active_area_bottom_offset"]]
    return [0, 0, 0, 0]


def blocks(j, key, name):
    d = j.get("vdr_dm_data")
    if d and key in d:
        return [b[name] for b in d[key]["ext_metadata_blocks"] if name in b]
    return []


def expected_summary(js):
    """the summary recomputed from the per-frame data (independent of the tool's summary code)"""
    n = len(js)
    profiles = sorted(set(j["dovi_profile"] for j in js))
    ps = ", ".join(str(p) for p in profiles)
    line = ("Profiles: " if ", " in ps else "Profile: ") + ps
    if "7" in ps:
        subs = sorted(set(j["el_type"] for j in js if "el_type" in j))
        i = line.index("7")
        line = line[: i + 1] + " (" + ", ".join(subs) + ")" + line[i + 1:]
    v1 = sum(1 for j in js if "cmv29_metadata" in j.get("vdr_dm_data", {}))
    v2 = sum(1 for j in js if "cmv40_metadata" in j.get("vdr_dm_data", {}))
    if v2 == v1:
        dm, counts = "2 (CM v4.0)", None
    elif v2 == 0:
        dm, counts = "1 (CM v2.9)", None
    else:
        dm, counts = "1 + 2 (CM 2.9 and 4.0)", (v1, v2)
    scenes = sum(1 for j in js if j.get("vdr_dm_data", {}).get("scene_refresh_flag") == 1)
    src = sorted(set((j["vdr_dm_data"]["source_min_pq"], j["vdr_dm_data"]["source_max_pq"]) for j in js if "vdr_dm_data" in j))
    mast = ", ".join("%.4f/%s nits" % (rnd(pq_to_nits(a / 4095.0) * 1e6) / 1e6, fmt_f(rnd(pq_to_nits(b / 4095.0) / 1000.0) * 1000.0)) for a, b in src)
    dflt = {"min_pq": 0, "max_pq": 2081, "avg_pq": 1229 if v2 > 0 else 819}
    l1 = []
    for j in js:
        b = blocks(j, "cmv29_metadata", "Level1")
        l1.append(b[0] if b else dflt)
    maxcll = pq_to_nits(max(b["max_pq"] / 4095.0 for b in l1))
    maxfall = pq_to_nits(max(b["avg_pq"] / 4095.0 for b in l1))
    l6 = []
    for j in js:
        b = blocks(j, "cmv29_metadata", "Level6")
        if b and b[0] not in l6:
            l6.append(b[0])
    l6s = ["Mastering display: %.4f/%d nits. MaxCLL: %d nits, MaxFALL: %d nits" % (
        b["min_display_mastering_luminance"] / 10000.0, b["max_display_mastering_luminance"],
        b["max_content_light_level"], b["max_frame_average_light_level"]) for b in l6]
    l2 = []
    for j in js:
        for b in blocks(j, "cmv29_metadata", "Level2"):
            if b["target_max_pq"] not in l2:
                l2.append(b["target_max_pq"])
    l2n = []
    for t in l2:
        v = int(rnd(pq_to_nits(t / 4095.0) / 100.0) * 100.0) & 0xFFFF
        l2n.append("%d nits" % v)
    return {"frames": n, "profiles": line, "dm": dm, "counts": counts, "scenes": scenes, "mastering": mast,
            "maxcll": "%.2f" % maxcll, "maxfall": "%.2f" % maxfall, "l6": l6s, "l2": l2n}


def fmt_f(x):
    return "%d" % x if x == int(x) else repr(x)


def parse_summary(text):
    out = {}
    m = re.search(r"Frames: (\d+)", text); out["frames"] = int(m.group(1)) if m else None
    m = re.search(r"\n  (Profiles?: [^\n]*)", text); out["profiles"] = m.group(1) if m else None
    m = re.search(r"DM version: ([^\n]*)", text); out["dm"] = m.group(1) if m else None
    m = re.search(r"v2\.9 count: (\d+)\n\s*v4\.0 count: (\d+)", text); out["counts"] = (int(m.group(1)), int(m.group(2))) if m else None
    m = re.search(r"Scene/shot count: (\d+)", text); out["scenes"] = int(m.group(1)) if m else None
    m = re.search(r"RPU mastering display: ([^\n]*)", text); out["mastering"] = m.group(1) if m else None
    m = re.search(r"MaxCLL: ([\d.]+) nits, MaxFALL: ([\d.]+) nits\n|MaxCLL: ([\d.]+) nits, MaxFALL: ([\d.]+) nits$", text)
    m = re.search(r"\(L1\): MaxCLL: ([\d.]+) nits, MaxFALL: ([\d.]+) nits", text)
    out["maxcll"], out["maxfall"] = (m.group(1), m.group(2)) if m else (None, None)
    out["l6"] = re.findall(r"(Mastering display: [\d.]+/\d+ nits\. MaxCLL: \d+ nits, MaxFALL: \d+ nits)", text)
    m = re.search(r"L2 trims: ([^\n]*)", text); out["l2"] = m.group(1).split(", ") if m else []
    return out


def run_case(args):
    i, work, rpus, other = args
    d = os.path.join(work, "c%d" % i)
    os.makedirs(d, exist_ok=True)
    inp = os.path.join(d, "in.bin")
    clirun.write_rpu_file(inp, rpus)
    res = {}
    rc, so, se = clirun.run(["export", "-i", inp, "-d", "all=%s/all.json,scenes=%s/scenes.txt,level5=%s/l5.json" % (d, d, d)])
    res["export_rc"] = rc
    if rc == 0:
        res["all"] = json.load(open(os.path.join(d, "all.json")))
        res["scenes"] = [int(x) for x in open(os.path.join(d, "scenes.txt")).read().split()]
        res["l5"] = json.load(open(os.path.join(d, "l5.json")))
    n = len(rpus)
    res["info"] = {}
    for f in sorted(set([0, n - 1, n // 2, (i * 7) % n])):
        rc2, so2, _ = clirun.run(["info", "-i", inp, "-f", str(f)])
        txt = so2.decode(errors="replace")
        k = txt.find("{")
        res["info"][f] = json.loads(txt[k:]) if rc2 == 0 and k >= 0 else None
    rc3, so3, _ = clirun.run(["info", "-i", inp, "-s"])
    res["summary_rc"] = rc3
    res["summary"] = so3.decode(errors="replace")
    # replay the exported L5 config through the editor on the same list and on another list of the same length
    res["replay"] = []
    if rc == 0:
        cfg = os.path.join(d, "aa.json")
        json.dump({"active_area": res["l5"]}, open(cfg, "w"))
        for tag, lst in (("same", rpus), ("other", other)):
            ip = os.path.join(d, tag + ".bin")
            clirun.write_rpu_file(ip, lst)
            op = os.path.join(d, tag + "-out.bin")
            rc4, _, se4 = clirun.run(["editor", "-i", ip, "-j", cfg, "-o", op])
            outl = clirun.read_rpu_file(op) if rc4 == 0 and os.path.exists(op) else None
            res["replay"].append((tag, rc4, outl))
    return res


def run(ctx):
    ctx.rule = ("RPU lists of 1..40 frames with chosen per-frame scene flags, L5 offsets (runs of equal offsets of any length, "
                "alternating values, frames without L5), mixed profiles / CM versions / L1 / L2 / L6 values; for each list the "
                "real CLI runs export (all, scenes, level5), info -f i, info -s and the editor fed with the exported L5 config; "
                "oracles: export-all element i = info -f i, scenes = indices with flag 1, replayed L5 = original L5 on every frame "
                "(on the same and on another same-length list), summary figures = values recomputed from the per-frame JSON; "
                "the Lean ExportModel's scenes / level5 config / summary integers are compared with the tool's; "
                "non-trivial = list with >= 2 distinct L5 values or >= 1 scene flag; distinct by list hash")
    ctx.assumptions = ["nits strings are recomputed with IEEE doubles and the platform pow (the same libm the tool uses); the integer PQ maxima behind them are compared exactly with the model"]
    ctx.build_and_audit(need_cli=True)
    rng = ctx.rng.fork("c16")
    ncases = 120 if ctx.tier == "quick" else 1200
    gen = rpucases.gen_structured(rng.fork("gen"), 500)
    pool = [b for b, j, t in gen if len(b) >= 25 and "remaining=0" in t and "dm=1" in t and "compressed=0" in t]
    chk, _, _ = common.run_lines_sharded(common.LIBCASE, ["rpu.write " + hx(b) for b in pool])
    pool = [b for b, o in zip(pool, chk) if o.startswith("ok ") and o != "ok werr"]
    nodm = [b for b, j, t in gen if len(b) >= 25 and "dm=0" in t and "remaining=0" in t][:5]
    # build frames: base RPU + per-frame edits through the real library (written bytes are what the file holds)
    specs = []
    for c in range(ncases):
        n = rng.choice([1, 2, 3, 6, 12, 25, 40])
        vals = [[rng.below(300) for _ in range(4)] for _ in range(3)] + [[0, 0, 0, 0]]
        frames = []
        cur = rng.choice(vals)
        same_base = rng.chance(1, 2)
        base0 = rng.choice(pool)
        for f in range(n):
            if rng.chance(1, 3):
                cur = rng.choice(vals)
            base = base0 if same_base else rng.choice(pool)
            ops = ["scene:%d" % rng.choice([0, 0, 1])]
            k = rng.below(10)
            if k == 0:
                ops.append("rmlevel:5")
            else:
                ops.append("offs:%d,%d,%d,%d" % tuple(cur))
            if rng.chance(1, 12) and nodm:
                frames.append((rng.choice(nodm), "-"))
            else:
                frames.append((base, ";".join(ops)))
        specs.append(frames)
    flat = ["rpu.ops %s %s" % (hx(b), ops) for fr in specs for b, ops in fr]
    outs, _, _ = common.run_lines_sharded(common.LIBCASE, flat)
    it = iter(outs)
    lists = []
    for fr in specs:
        lst = []
        for b, ops in fr:
            o = next(it)
            p = o.split(" ", 2)
            lst.append(bytes.fromhex(p[1]) if p[0] == "ok" and p[1] not in ("werr", "wpanic") else b)
        lists.append(lst)
    work = clirun.workdir("c16")
    try:
        args = []
        for i, lst in enumerate(lists):
            other = [rng.choice(pool) for _ in lst]
            args.append((i, work, lst, other))
        with concurrent.futures.ThreadPoolExecutor(max_workers=14) as ex:
            res = list(ex.map(run_case, args))
    finally:
        clirun.cleanup(work)
    lines = ["export " + ",".join(hx(b) for b in lst) for lst in lists]
    mo, _, _ = common.run_lines_sharded(common.MODEL_EXE, lines)
    # per-frame JSON of the "other" lists for the replay oracle
    for (i, _, lst, other), r, m, l in zip(args, res, mo, lines):
        ctx.evaluations += 1
        n = len(lst)
        fail = lambda what, obs, exp: ctx.oracle_fail({"op": "export/info", "input": l[:6000], "what": what,
                                                        "observed": str(obs)[:400], "expected": str(exp)[:400]})
        if r["export_rc"] != 0 or r["summary_rc"] != 0:
            fail("command failed", (r["export_rc"], r["summary_rc"]), "exit 0")
            continue
        js = r["all"]
        if len(js) != n:
            fail("export all length", len(js), n)
        for f, ij in r["info"].items():
            if ij is None or f >= len(js) or ij != js[f]:
                fail("export all[%d] != info -f %d" % (f, f), "differs", "equal")
        want_sc = [k for k, j in enumerate(js) if j.get("vdr_dm_data", {}).get("scene_refresh_flag") == 1]
        if r["scenes"] != want_sc:
            fail("scenes", r["scenes"], want_sc)
        l5s = [l5_of(j) for j in js]
        if len(set(map(tuple, l5s))) >= 2 or want_sc:
            ctx.nontriv(l)
        ctx.count("frames=%d" % n)
        ctx.count("distinct_l5=%d" % len(set(map(tuple, l5s))))
        # L5 replay
        for tag, rc4, outl in r["replay"]:
            if rc4 != 0 or outl is None or len(outl) != n:
                fail("editor replay of the exported L5 config (%s list)" % tag, "exit %s" % rc4, "success, %d frames" % n)
                continue
            chk = ["nalu.json 7c01" + o.hex() for o in outl]
            oj, _, _ = common.run_lines(common.LIBCASE, chk)
            src_list = lst if tag == "same" else other
            sj, _, _ = common.run_lines(common.LIBCASE, ["rpu.json " + hx(b) for b in src_list])
            for k, (o, want) in enumerate(zip(oj, l5s)):
                if not o.startswith("ok {"):
                    fail("replayed frame %d unreadable" % k, o[:50], "parses")
                    break
                got = json.loads(o[3:])
                # frames without DM data cannot carry L5 at all
                if "vdr_dm_data" not in got:
                    continue
                if l5_of(got) != want:
                    fail("replayed L5 of frame %d (%s list)" % (k, tag), l5_of(got), want)
                    break
        # summary
        exp = expected_summary(js)
        got = parse_summary(r["summary"])
        for key in exp:
            if got.get(key) != exp[key]:
                fail("summary " + key, got.get(key), exp[key])
        # model vs tool: scenes, L5 config, integer summary parts
        mm = dict(re.findall(r"(\w+)=(\[[^\]]*\]|\S+)", m)) if m.startswith("ok ") else {}
        tool_presets = "|".join("%d,%d,%d,%d" % (p["left"], p["right"], p["top"], p["bottom"]) for p in r["l5"]["presets"])
        tool_edits = "|".join("%s:%d" % (k, v) for k, v in r["l5"]["edits"].items())
        tool = {"scenes": "[" + ",".join(map(str, r["scenes"])) + "]", "presets": "[" + tool_presets + "]",
                "edits": "[" + tool_edits + "]", "count": str(got["frames"]), "profiles": "[" + (got["profiles"] or "") + "]",
                "dm": "[" + (got["dm"] or "") + "]", "counts": ("%d/%d" % got["counts"]) if got["counts"] else "-",
                "scenecount": str(got["scenes"])}
        for key, v in tool.items():
            if mm.get(key) != v:
                ctx.disagree("export " + key, l[:4000], str(mm.get(key))[:300], v[:300])
    ctx.sample({"frames": len(lists[0]), "l5_config_exported": res[0].get("l5")})
    ctx.sample(lines[1][:300])
