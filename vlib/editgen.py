"""Abstract edit operations rendered twice: compact form for the model, serde JSON for the implementation."""
import json

# struct fields per level in declaration order (without `length`): (name, type)
FIELDS = {
    1: [("min_pq", "u16"), ("max_pq", "u16"), ("avg_pq", "u16")],
    2: [("target_max_pq", "u16"), ("trim_slope", "u16"), ("trim_offset", "u16"), ("trim_power", "u16"),
        ("trim_chroma_weight", "u16"), ("trim_saturation_gain", "u16"), ("ms_weight", "i16")],
    3: [("min_pq_offset", "u16"), ("max_pq_offset", "u16"), ("avg_pq_offset", "u16")],
    4: [("anchor_pq", "u16"), ("anchor_power", "u16")],
    5: [("active_area_left_offset", "u16"), ("active_area_right_offset", "u16"), ("active_area_top_offset", "u16"),
        ("active_area_bottom_offset", "u16")],
    6: [("max_display_mastering_luminance", "u16"), ("min_display_mastering_luminance", "u16"),
        ("max_content_light_level", "u16"), ("max_frame_average_light_level", "u16")],
    8: [("target_display_index", "u8")] + [(n, "u16") for n in ("trim_slope", "trim_offset", "trim_power", "trim_chroma_weight",
        "trim_saturation_gain", "ms_weight", "target_mid_contrast", "clip_trim")] +
       [("saturation_vector_field%d" % i, "u8") for i in range(6)] + [("hue_vector_field%d" % i, "u8") for i in range(6)],
    9: [("source_primary_index", "u8")] + [("source_primary_%s_%s" % (c, a), "u16") for c in ("red", "green", "blue", "white") for a in ("x", "y")],
    10: [("target_display_index", "u8"), ("target_max_pq", "u16"), ("target_min_pq", "u16"), ("target_primary_index", "u8")] +
        [("target_primary_%s_%s" % (c, a), "u16") for c in ("red", "green", "blue", "white") for a in ("x", "y")],
    11: [("content_type", "u8"), ("whitepoint", "u8"), ("reference_mode_flag", "bool"), ("reserved_byte2", "u8"), ("reserved_byte3", "u8")],
    254: [("dm_mode", "u8"), ("dm_version_index", "u8")],
    255: [("dm_run_mode", "u8"), ("dm_run_version", "u8")] + [("dm_debug%d" % i, "u8") for i in range(4)],
}
LENGTHS = {8: [10, 12, 13, 19, 25], 9: [1, 17], 10: [5, 21]}
FIXED_LEN = {1: 5, 2: 11, 3: 5, 4: 3, 5: 7, 6: 8, 11: 4, 254: 2, 255: 6}
LEGAL_MAX = {1: 4095, 2: 4095, 3: 4095, 4: 4095, 5: 8191, 6: 10000}
ALL_LEVELS = [1, 2, 3, 4, 5, 6, 8, 9, 10, 11, 254, 255]
CMV29 = [1, 2, 4, 5, 6, 255]
CMV40 = [3, 8, 9, 10, 11, 254]
PRESET_TARGETS = [1, 16, 18, 21, 27, 28, 37, 38, 42, 48, 49]


def rand_val(rng, typ, level, legal_bias=True):
    if typ == "bool":
        return rng.below(2)
    if typ == "u8":
        return rng.choice([0, 1, 15, 16, 128, 255, rng.below(256)])
    if typ == "i16":
        if legal_bias:
            return rng.choice([-1, 0, 2048, 4095, rng.below(4096)])
        return rng.choice([-1, 0, 2048, 4095, 4096, -2, -32768, 32767, rng.below(4096)])
    lm = LEGAL_MAX.get(level, 4095)
    if legal_bias or rng.chance(2, 3):
        return rng.choice([0, lm, lm // 2, rng.below(lm + 1)])
    return rng.choice([lm + 1, 65535, 32768, rng.below(65536)])


def gen_block(rng, level=None, legal_p=3, bad_length_p=0):
    """(level, length, vals) — values over the full Rust integer types, mostly legal"""
    if level is None:
        level = rng.choice(ALL_LEVELS)
    length = rng.choice(LENGTHS[level]) if level in LENGTHS else FIXED_LEN[level]
    if bad_length_p and level in LENGTHS and rng.chance(1, bad_length_p):
        length = rng.choice([0, 2, 9, 11, 14, 18, 20, 22, 26, 255])
    legal = rng.chance(legal_p, 4)
    vals = [rand_val(rng, t, level, legal) for _, t in FIELDS[level]]
    if legal:
        if level == 2:
            vals[6] = rng.choice([-1, 0, 2048, 4095, rng.below(4096)])
        if level == 8:
            vals = [vals[0]] + [min(v, 4095) for v in vals[1:9]] + vals[9:]
        if level == 9:
            if length == 1:
                vals[0] = rng.below(255)
            else:
                vals = [255] + [max(1, v) for v in vals[1:]]
        if level == 10:
            while vals[0] in PRESET_TARGETS:
                vals[0] = rng.below(256)
            vals[1] = min(vals[1], 4095)
            vals[2] = min(vals[2], 4095)
            if length == 5:
                vals[3] = rng.below(255)
            else:
                vals = vals[:3] + [255] + [max(1, v) for v in vals[4:]]
        if level == 11:
            vals = [vals[0] % 16, vals[1] % 16, vals[2], 0, 0]
    # keyed levels: draw targets from a small pool so that upserts collide
    if level == 2 and rng.chance(2, 3):
        vals[0] = rng.choice([2081, 2851, 3079, 3696])
    if level == 8 and rng.chance(2, 3):
        vals[0] = rng.choice([1, 48, 255, 2])
    if level == 10 and rng.chance(2, 3):
        vals[0] = rng.choice([255, 254, 2, 100])
    return level, length, vals


def render_block(b):
    level, length, vals = b
    compact = "%d/%d/%s" % (level, length, ",".join(str(v) for v in vals))
    obj = {}
    if level in LENGTHS:
        obj["length"] = length
    for (name, typ), v in zip(FIELDS[level], vals):
        obj[name] = bool(v) if typ == "bool" else v
    return compact + "|" + json.dumps({"Level%d" % level: obj}, separators=(",", ":"))


def gen_op(rng, pool_hex=None):
    k = rng.below(100)
    if k < 8:
        return "crop"
    if k < 18:
        return "mode:%d" % rng.choice([0, 1, 2, 3, 4, 5, 5, 6, 255, rng.below(256)])
    if k < 22:
        return "rmmap"
    if k < 26:
        return "rmcmv4"
    if k < 34:
        m = rng.choice([8191, 8192, 4095, 0, 65535])
        return "offs:%d,%d,%d,%d" % tuple(rng.choice([0, m, rng.below(300)]) for _ in range(4))
    if k < 40:
        f = lambda: rng.choice(["-", "0", "7", "62", "3079", "4095", "4096", "65535", str(rng.below(4096))])
        return "minmax:%s:%s" % (f(), f())
    if k < 44:
        return "scene:%d" % rng.choice([0, 1])
    if k < 70:
        return "repl:" + render_block(gen_block(rng))
    if k < 80:
        return "add:" + render_block(gen_block(rng))
    if k < 86:
        return "repllevel:" + render_block(gen_block(rng))
    if k < 93:
        return "rmlevel:%d" % rng.choice(ALL_LEVELS + [0, 7, 12])
    if pool_hex:
        lv = [rng.choice(ALL_LEVELS) for _ in range(rng.below(4))]
        return "copy:%s:%s" % (rng.choice(pool_hex), ",".join(str(x) for x in lv))
    return "crop"
