"""C18 — --drop-hdr10plus removes exactly the HDR10+ (ST 2094-40) SEI messages.

Direct oracle on the real binary: prefix SEI NAL units crafted by vlib/hevcgen.py (1..4 messages, at most one
HDR10+ message first / middle / last / absent, payload sizes across the 255 / 510 FF-extension boundaries,
payloads full of emulation-prevention patterns, T.35 messages of other providers, truncated HDR10+ headers)
placed in streams as C05; commands convert, demux, remove, mux, inject-rpu with and without the option; outputs
compared with the reference (vlib/hevcref.py) which drops / rewrites the SEI NALs with an independent SEI walker."""
import os

from . import common
from . import hevcgen as H
from . import hevcmodel as M
from . import hevcref as F
from . import hevcrun as R

HOOK = "DOVI_TOOL_VERIF_CHUNK_SIZE"
REAL_CHUNK = 100000
HDR_SIZES = [7, 8, 9, 24, 60, 247, 248, 252, 253, 254, 255, 256, 257, 300, 509, 510, 511, 512, 700, 1024]


def crafted_sei_sets(rng, per_combo):
    """message lists for every (count, HDR10+ position) x several sizes/styles"""
    out = []
    for k in range(1, 5):
        for pos in list(range(k)) + [-1]:
            for t in range(per_combo):
                msgs = []
                for j in range(k):
                    if j == pos:
                        msgs.append(H.hdr10plus_message(rng, size=rng.choice(HDR_SIZES), style=rng.choice(H.PAYLOAD_STYLES)))
                    else:
                        msgs.append(H.other_message(rng))
                out.append((k, pos, msgs))
    # seam family: the NAL holds no emulation-prevention byte, the message before the HDR10+ one ends in 00 00
    # and the one after it has payload type 0..3 — removing the HDR10+ message creates a 00 00 0x sequence
    # that must be escaped in the rewritten NAL
    nz = lambda n: bytes(1 + rng.below(255) for _ in range(n))
    for t in range(per_combo * 3):
        before = (rng.choice([144, 137, 5, 129]), nz(rng.below(6)) + rng.choice([b"\x00\x00", b"\x07\x00\x00", b"\x00"]))
        hdr = (4, H.HDR10PLUS_HEAD + nz(rng.choice([1, 8, 40, 250, 300])))
        after = (rng.choice([0, 1, 2, 3]), nz(1 + rng.below(5)))
        msgs = [before, hdr, after] + ([(rng.choice([144, 5]), nz(3))] if rng.chance(1, 3) else [])
        out.append((len(msgs), 1, msgs))
    return out


def replace_prefix_sei(stream, rng, sets):
    """replaces the prefix SEI NALs of a stream by crafted ones (1..3 per AU), returns the classes used"""
    used = []
    for au in stream.aus:
        keep = [n for n in au.nals if n.role != "psei"]
        first_slice = next(i for i, n in enumerate(keep) if n.role == "slice")
        new = []
        for _ in range(1 + rng.below(3)):
            if not sets:
                break
            k, pos, msgs = sets.pop()
            nl = H.Nal(H.sei_nal(msgs, H.SEI_PREFIX, au.spec.tid), "psei")
            new.append(nl)
            used.append((k, pos, msgs))
        au.nals = keep[:first_slice] + new + keep[first_slice:]
    return used


def no_hdr10plus_left(got):
    for _, p in got:
        if H.nal_type(p) == H.SEI_PREFIX:
            try:
                # judged on the payload without trailing zero bytes (see hevcref.rpu_norm)
                if any(H.is_hdr10plus(m) for m in H.parse_sei(H.esc(F.rpu_norm(p)))):
                    return False
            except (ValueError, IndexError):
                return None
    return True


def run_job(job):
    c = job["cfg"]
    d = job["work"].sub("h")
    env = {HOOK: str(c["chunk"])} if c.get("chunk") else {}
    g = ["--drop-hdr10plus"] if c["drop"] else []
    if c.get("start_code"):
        g += ["--start-code", c["start_code"]]
    outs = {}
    src = os.path.join(d, "in.hevc")
    with open(src, "wb") as fh:
        fh.write(job["data"])
    cmd = c["cmd"]
    stdin = c.get("stdin") and cmd in ("convert", "demux", "remove")
    inp = "-" if stdin else src
    if cmd == "convert":
        outs["out"] = os.path.join(d, "out.hevc")
        a = g + ["convert", inp, "-o", outs["out"]] + (["--discard"] if c.get("discard") else [])
    elif cmd == "demux":
        outs["bl"] = os.path.join(d, "BL.hevc")
        outs["el"] = os.path.join(d, "EL.hevc")
        a = g + ["demux", inp, "-b", outs["bl"], "-e", outs["el"]]
    elif cmd == "remove":
        outs["bl"] = os.path.join(d, "BL.hevc")
        a = g + ["remove", inp, "-o", outs["bl"]]
    elif cmd == "mux":
        el = os.path.join(d, "EL_in.hevc")
        with open(el, "wb") as fh:
            fh.write(job["el"])
        outs["out"] = os.path.join(d, "muxed.hevc")
        a = g + ["mux", "--bl", src, "--el", el, "-o", outs["out"]] + (["--no-add-aud"] if c.get("no_add_aud") else [])
    else:
        rp = os.path.join(d, "rpu.bin")
        with open(rp, "wb") as fh:
            fh.write(H.rpu_file_bytes(job["rpus"]))
        outs["out"] = os.path.join(d, "injected.hevc")
        a = g + ["inject-rpu", "-i", src, "--rpu-in", rp, "-o", outs["out"]] + (["--no-add-aud"] if c.get("no_add_aud") else [])
    if stdin:
        res = R.run_tool(a, env=env, stdin_data=job["data"], pieces=c.get("pieces"), cwd=d)
    else:
        res = R.run_tool(a, env=env, cwd=d)
    out = {"job": job, "fail": None, "cmd": res.cmdline(), "notes": {}}
    if job.get("model_ans") is not None:
        out["model_steps"] = 1
        sc_ok = not job.get("tz")
        if cmd in ("convert", "demux", "remove"):
            m = M.parse_general(job["model_ans"])
            if m is None:
                r = ("err (the command fails)", res.brief()) if res.rc == 0 else None
            elif res.rc != 0:
                r = ("ok", res.brief())
            else:
                r = M.compare_files(m, outs, check_sc=sc_ok)
        else:
            m, merr = M.parse_list(job["model_ans"])
            if m is None:
                r = ("err (the command fails)", res.brief()) if res.rc == 0 else None
            elif merr != (res.rc != 0):
                r = ("error status" if merr else "exit status 0", res.brief())
            else:
                r = M.compare_list(m, outs["out"], check_sc=sc_ok)
        if r is not None:
            out["model_fail"] = ("hevc." + ("general " + cmd if cmd in ("convert", "demux", "remove") else cmd.split("-")[0]), r[0], r[1])
    if job.get("model_only"):
        return out
    if res.rc != 0:
        out["fail"] = ("exit status 0", res.brief())
        return out
    for name, e in job["expected"].items():
        got = F.read_split(outs[name])
        ok, msg, notes = F.compare(got, e, check_sc=False)
        for kk, vv in notes.items():
            out["notes"][kk] = out["notes"].get(kk, 0) + vv
        if not ok:
            # locate the SEI NAL concerned, in terms of messages
            det = ""
            gs = [p for _, p in got if H.nal_type(p) == H.SEI_PREFIX]
            es = [x[1] for x in e if x[0] == H.SEI_PREFIX]
            for a_, b_ in zip(gs, es):
                if a_ != b_:
                    try:
                        det = " | first differing prefix SEI: got messages %s expected %s" % (
                            [(t, len(p)) for t, p in H.parse_sei(a_)], [(t, len(p)) for t, p in H.parse_sei(b_)])
                    except (ValueError, IndexError):
                        det = " | first differing prefix SEI does not parse: %s" % a_[:40].hex()
                    break
            exp_txt = ("%s: input NAL units with every ST 2094-40 message removed (NAL dropped when it was the only message), "
                       "everything else unchanged" % name) if c["drop"] else "%s: unchanged NAL units (option absent)" % name
            out["fail"] = (exp_txt, msg + det)
            return out
        if c["drop"] and name != "el":
            r = no_hdr10plus_left(got)
            if r is not True:
                out["fail"] = ("no ST 2094-40 message in any prefix SEI of the output", "found one" if r is False else "an output SEI does not parse")
                return out
    return out


def run(ctx):
    ctx.rule = ("prefix SEI NAL units with 1..4 messages for every (count, HDR10+ position first/middle/last/absent), HDR10+ payload sizes "
                "7..1024 across the 255/510 size-coding boundaries, neighbours of types 0..254 and sizes 0..1100, T.35 messages of other "
                "providers / other application ids, HDR10+ headers cut to 1..6 bytes, non-T.35 messages carrying the HDR10+ bytes, payload "
                "styles (zero runs, 00 00 0x patterns incl. literal 00 00 03, 0xFF bytes, random), canonically escaped; 1..3 such NALs "
                "per access unit in streams as C05 (AUD/parameter sets/multi-slice/EL/suffix SEI/EOS variations, 3/4-byte start codes, "
                "chunk sizes 64/257/4096/100000, file or stdin); commands convert, demux, remove, mux, inject-rpu x {--drop-hdr10plus "
                "present, absent}; outputs compared NAL by NAL with the reference; dropped / rewritten / untouched SEI NALs counted; "
                "non-trivial = run with the option on a stream holding at least one HDR10+ message; distinct by (stream, command)")
    ctx.assumptions = ["at most one HDR10+ message per SEI NAL unit (conformant streams; property quantifier)",
                       "payload types below 255: hevc_parser 0.6.8 accumulates the payload type in a u8 (dev-profile overflow panic for "
                       "types >= 255, third-party, probed once and recorded in the evidence notes)",
                       "no trailing zero bytes directly after a prefix SEI NAL in the main classes; the class `tz` exercises them and its "
                       "outcome is reported separately"]
    ctx.build_and_audit(need_cli=True)
    rng = ctx.rng.fork("c18")
    quick = ctx.tier == "quick"
    ps = H.ParamSets()
    pool = H.rpu_pool(rng.fork("pool"), 80 if quick else 300, max_len=500)
    rpus = [r for r, _ in pool]
    conv = F.Conv()
    sets = crafted_sei_sets(rng.fork("sei"), 100 if quick else 700)
    sets = rng.shuffle(sets)
    ctx.count("crafted SEI NALs", len(sets))
    jobs = []
    sid = 0
    all_sei = [H.sei_nal(m, H.SEI_PREFIX, tid) for _, _, m in sets for tid in (0,)]
    cmds = ["convert", "demux", "remove", "mux", "inject-rpu"]
    while sets:
        r = rng.fork("st%d" % sid)
        nfr = r.choice([1, 2, 4, 6, 9])
        pb = r.choice([4, 8])
        specs = H.gen_structure(r, nfr, poc_bits=pb, period_len=(1, 8))
        st = H.build_stream(r, H.Codec(ps, pb), specs, r.shuffle(rpus)[:nfr], el="parse", el_max=2, ssei_pos="before_el",
                            aud=r.choice(["canonical", "none", "mixed"]), params=r.choice(["irap", "mixed"]),
                            eos=r.choice(["none", "end", "mid"]), sc=r.choice(["four", "mixed", "three"]), tz=0,
                            pad=(0, 30), prefix_sei=(0, 0), suffix_sei=(0, 1))
        used = replace_prefix_sei(st, r, sets)
        if st.size() > REAL_CHUNK - 5000:
            sid += 1
            continue
        sid += 1
        items = F.items_of(st)
        n_hdr = sum(1 for k, pos, m in used if pos >= 0)
        for k, pos, m in used:
            cls = "absent" if pos < 0 else ("only" if k == 1 else "first" if pos == 0 else "last" if pos == k - 1 else "middle")
            ctx.count("sei msgs=%d hdr10plus=%s" % (k, cls))
            for t, p in m:
                if H.is_hdr10plus((t, p)):
                    ctx.count("hdr10plus size %s" % ("<255" if len(p) < 255 else "255..509" if len(p) < 510 else ">=510"))
        full = st.render()
        bl_n, el_n = H.split_layers(st)
        bl_bytes, el_bytes = H.render(bl_n), H.render(el_n)
        bl_aus = [(s, [(n.type, n.data) for n in nl]) for s, nl in H.bl_aus_of(st)]
        el_frames = [[(n.type, n.data) for n in fr] for fr in H.el_frames_of(st)]
        fresh = r.shuffle(rpus)[:nfr]
        for cmd in cmds:
            for drop in (True, False):
                if not drop and not r.chance(1, 2 if quick else 1):
                    continue
                c = {"cmd": cmd, "drop": drop, "chunk": r.choice([64, 257, 4096, None]), "stdin": r.chance(1, 4),
                     "start_code": r.choice([None, None, "annex-b"]), "no_add_aud": r.chance(1, 3), "discard": r.chance(1, 4)}
                job = {"cfg": c, "sid": sid, "nhdr": n_hdr, "st": st}
                if cmd in ("convert", "demux", "remove"):
                    job["data"] = full
                    job["expected"] = F.ref_general(items, cmd, conv, discard=(c["discard"] and cmd == "convert"),
                                                    start_code=c["start_code"], drop=drop)
                    job["mline"] = M.general_line(cmd, items, conv, discard=(c["discard"] and cmd == "convert"),
                                                  start_code=c["start_code"], drop=drop)
                    if cmd != "convert":
                        c["discard"] = False
                    if c["stdin"]:
                        c["frag"], c["pieces"] = R.fragmentation(r.fork("fr" + cmd), len(full), c["chunk"])
                elif cmd == "mux":
                    job["data"] = bl_bytes
                    job["el"] = el_bytes
                    job["expected"] = {"out": F.ref_mux(bl_aus, el_frames, conv, no_add_aud=c["no_add_aud"], start_code=c["start_code"], drop=drop)}
                    job["mline"] = M.mux_line(bl_aus, el_frames, conv, no_add_aud=c["no_add_aud"], start_code=c["start_code"], drop=drop)
                else:
                    if c["chunk"] in (64, 257):
                        c["chunk"] = r.choice([1024, 2048, 8192])
                    job["data"] = bl_bytes
                    job["rpus"] = fresh
                    # inject on the base layer: the reference works on a stream view without EL / RPU
                    job["expected"] = {"out": F.ref_inject(_bl_view(st), fresh, no_add_aud=c["no_add_aud"], start_code=c["start_code"], drop=drop)}
                    job["mline"] = M.inject_line(_bl_view(st), fresh, no_add_aud=c["no_add_aud"], start_code=c["start_code"], drop=drop)
                jobs.append(job)
    # ---- class tz: trailing zero bytes (trailing_zero_8bits) behind SEI NALs, 1..3 of them, next start code 3 or 4 bytes
    tz_jobs = []
    tz_n = 0
    for rep in range(1 if quick else 8):
        for k, pos in ((1, 0), (2, 0), (2, 1), (3, 1), (1, -1), (4, 2)):
            for ntz in (1, 2, 3):
                for nsc in (3, 4):
                    r = rng.fork("tz%d" % tz_n)
                    tz_n += 1
                    specs = H.gen_structure(r, 2, poc_bits=8)
                    st = H.build_stream(r, H.Codec(ps), specs, r.shuffle(rpus)[:2], el="none", prefix_sei=(0, 0), suffix_sei=(0, 0), tz=0,
                                        sc="four", aud="canonical", eos="none", max_slices=1, pad=(2, 6), rich_filler=False)
                    for au in st.aus:
                        msgs = [H.hdr10plus_message(r, size=r.choice(HDR_SIZES), style="safe") if j == pos else H.other_message(r, "other")
                                for j in range(k)]
                        i = next(i_ for i_, n in enumerate(au.nals) if n.role == "slice")
                        au.nals.insert(i, H.Nal(H.sei_nal(msgs), "psei", 4, ntz))
                        au.nals[i + 1].sc = nsc
                    c = {"cmd": "convert", "drop": True, "chunk": r.choice([257, None]), "stdin": False}
                    cls = "absent" if pos < 0 else ("only" if k == 1 else "multi")
                    tz_jobs.append({"cfg": c, "sid": 5000 + tz_n, "st": st, "data": st.render(), "nhdr": 1, "tz": ntz, "tzcls": cls,
                                    "nsc": nsc, "expected": F.ref_general(F.items_of(st), "convert", conv, drop=True),
                                    "mline": M.general_line("convert", F.items_of(st), conv, drop=True)})

    # ---- corner shapes, model correspondence only (no statement of the property is attached to them):
    #  (a) the very first NAL of the stream is a prefix SEI holding only the HDR10+ message: it is dropped and the NAL
    #      behind it is not taken for the first NAL of the frame (3-byte start code under --start-code annex-b)
    #  (b) a payload type above 255: hevc_parser 0.6.8 overflows its u8 (dev profile): the command fails
    cjobs = []
    for i in range(6 if quick else 30):
        r = rng.fork("corner%d" % i)
        specs = H.gen_structure(r, 2, poc_bits=8)
        st = H.build_stream(r, H.Codec(ps), specs, r.shuffle(rpus)[:2], el="none", prefix_sei=(0, 0), suffix_sei=(0, 0), tz=0,
                            sc="four", aud="none", eos="none", max_slices=1, pad=(2, 6), rich_filler=False)
        if i % 3 == 2:
            st.aus[0].nals.insert(0, H.Nal(H.sei_nal([(300, b"\x11\x22\x33"), H.hdr10plus_message(r, 24, "safe")]), "psei"))
        else:
            st.aus[0].nals.insert(0, H.Nal(H.sei_nal([H.other_message(r, "other")]), "psei"))
            st.aus[0].nals.insert(0, H.Nal(H.sei_nal([H.hdr10plus_message(r, size=r.choice(HDR_SIZES), style="safe")]), "psei"))
        for drop in (True, False):
            c = {"cmd": "convert", "drop": drop, "chunk": r.choice([257, None]), "stdin": False, "start_code": "annex-b"}
            cjobs.append({"cfg": c, "sid": 6000 + i, "st": st, "data": st.render(), "nhdr": 1, "model_only": True, "expected": {},
                          "mline": M.general_line("convert", F.items_of(st), conv, start_code="annex-b", drop=drop,
                                                  late=M.first_nal_late(st.render(), c["chunk"]))})

    with R.Work("C18") as work:
        for j in jobs + tz_jobs + cjobs:
            j["work"] = work
        ctx.count("cases through the Lean model (hevc.general / hevc.mux / hevc.inject with and without --drop-hdr10plus)",
                  M.attach(jobs) + M.attach(tz_jobs) + M.attach(cjobs))
        for o in R.pmap(run_job, cjobs):
            ctx.evaluations += 1
            ctx.count("class=corner (model only) %s" % ("model and CLI agree" if not o.get("model_fail") else "DISAGREE"))
            _model_report(ctx, work, o["job"], o)
        sei_correspondence(ctx, all_sei)
        results = R.pmap(run_job, jobs)
        for k, o in enumerate(results):
            j = o["job"]
            c = j["cfg"]
            ctx.evaluations += 1
            ctx.count("cmd=%s drop=%d" % (c["cmd"], 1 if c["drop"] else 0))
            ctx.count("chunk=%s" % (c.get("chunk") or "real-100000"))
            ctx.count("outcome=" + ("FAIL" if o["fail"] else "ok"))
            if not o["fail"] and c["drop"] and j["nhdr"]:
                ctx.nontriv("%d/%s" % (j["sid"], c["cmd"]))
            if k % 97 == 0:
                ctx.sample("stream#%d (%d frames, %d HDR10+ SEI): %s" % (j["sid"], len(j["st"].aus), j["nhdr"], o["cmd"].replace(work.dir, "$W")))
            _model_report(ctx, work, j, o)
            if o["fail"]:
                _report(ctx, work, j, o)
        # trailing-zero class: same oracle, own histogram keys
        res_tz = R.pmap(run_job, tz_jobs)
        ctx.evaluations += len(res_tz)
        for o in res_tz:
            j = o["job"]
            ctx.count("class=tz hdr10plus=%s zeros=%d next_sc=%d -> %s" % (j["tzcls"], j["tz"], j["nsc"], "DEVIATES" if o["fail"] else "ok"))
            for kk, vv in o["notes"].items():
                ctx.count("note:" + kk, vv)
            _model_report(ctx, work, j, o)
            if o["fail"]:
                _report(ctx, work, j, o, tz=True)
        # third-party edge: payload type >= 255
        probe = _probe_big_type(work, ps, rpus)
        ctx.notes.append("probe: prefix SEI with payload type 300 through `--drop-hdr10plus convert`: %s" % probe)
        ctx.extra["payload_type_ge_255_probe"] = probe


def sei_correspondence(ctx, nals):
    """every crafted prefix SEI NAL through the model's `sei.drop` / `sei.msgs`, compared with the independent SEI
    walker of the generator (the real function is private to the binary: it is reached through the CLI runs)"""
    nals = list(dict.fromkeys(nals))
    ans = M.run_model(["sei.drop " + n.hex() for n in nals] + ["sei.msgs " + n.hex() for n in nals])
    for n, a, b in zip(nals, ans[:len(nals)], ans[len(nals):]):
        ctx.count("sei.drop through the model")
        try:
            r = H.drop_hdr10plus_reference(n)
            exp = "dropped" if r is None else "keep " + r.hex()
            msgs = "ok " + (",".join("%d:%s" % (t, M.hx(p)) for t, p in H.parse_sei(n)) or "-")
        except (ValueError, IndexError):
            continue
        if a != exp:
            ctx.disagree("sei.drop (model vs independent SEI reference)", n.hex(), a, exp)
        if b != msgs:
            ctx.disagree("sei.msgs (model vs independent SEI walker)", n.hex(), b, msgs)


def _model_report(ctx, work, j, o):
    ctx.count("model steps compared with the CLI", o.get("model_steps", 0))
    if not o.get("model_fail"):
        return
    c = j["cfg"]
    mop, mm, mi = o["model_fail"]
    files = {"input.hevc": j["data"]}
    if "el" in j:
        files["EL_in.hevc"] = j["el"]
    if "rpus" in j:
        files["rpu.bin"] = H.rpu_file_bytes(j["rpus"])
    d = R.save_replay(ctx, "model-s%d-%s" % (j["sid"], c["cmd"]), files,
                      {"command": o["cmd"].replace(work.dir, "."), "config": {x: y for x, y in c.items() if x != "pieces"},
                       "model_op": mop, "model": mm, "implementation": mi, "structure": H.describe(j["st"])})
    ctx.disagree("%s drop=%d" % (mop, 1 if c["drop"] else 0), "%s (seed %d): %s" % (d or "stream#%d" % j["sid"], ctx.seed,
                 o["cmd"].replace(work.dir, "$W")), mm, mi)


def _bl_view(st):
    """the same stream without EL NALs and RPUs (what the BL file holds), keeping the generator's labels"""
    v = H.Stream(st.codec, st.specs)
    for au in st.aus:
        a = H.Au(au.spec, au.index)
        a.nals = [n for n in au.nals if n.role not in ("el", "rpu")]
        v.aus.append(a)
    return v


def _report(ctx, work, j, o, tz=False):
    c = j["cfg"]
    files = {"input.hevc": j["data"]}
    if "el" in j:
        files["EL_in.hevc"] = j["el"]
    if "rpus" in j:
        files["rpu.bin"] = H.rpu_file_bytes(j["rpus"])
    d = R.save_replay(ctx, "s%d-%s" % (j["sid"], c["cmd"]), files,
                      {"command": o["cmd"].replace(work.dir, "."), "config": {x: y for x, y in c.items() if x != "pieces"},
                       "expected": o["fail"][0], "observed": o["fail"][1], "structure": H.describe(j["st"])})
    f = {"op": "cli %s%s drop=%d" % (c["cmd"], " (trailing zero bytes after SEI NALs: %d)" % j.get("tz", 0) if tz else "", 1 if c["drop"] else 0),
         "input": "%s (seed %d)" % (d or "stream#%d" % j["sid"], ctx.seed),
         "command": o["cmd"].replace(work.dir, "$W"), "observed": o["fail"][1][:1500], "expected": o["fail"][0]}
    if tz:
        f["shape"] = "sei-followed-by-trailing-zero-bytes"
    ctx.oracle_fail(f)


def _probe_big_type(work, ps, rpus):
    d = work.sub("p")
    codec = H.Codec(ps)
    rng = common.Lcg(3)
    nals = [H.Nal(H.aud_nal(H.SLICE_I), "aud")] + codec.param_nals("vsp") + \
           [H.Nal(H.sei_nal([(300, b"\x11\x22\x33"), H.hdr10plus_message(rng, 24, "safe")]), "psei"),
            H.Nal(codec.slice_nal(H.IDR_W_RADL, 0, H.SLICE_I, filler=b"\xaa" * 8), "slice"), H.Nal(rpus[0], "rpu")]
    p = os.path.join(d, "t.hevc")
    with open(p, "wb") as fh:
        fh.write(H.render(nals))
    res = R.run_tool(["--drop-hdr10plus", "convert", p, "-o", os.path.join(d, "o.hevc")], cwd=d)
    if res.rc == 0:
        got = [p_ for _, p_ in F.read_split(os.path.join(d, "o.hevc")) if H.nal_type(p_) == H.SEI_PREFIX]
        return "exit 0, output prefix SEI messages %s" % [[(t, len(x)) for t, x in H.parse_sei(g)] for g in got]
    return "exit %d (%s)" % (res.rc, "panic" if res.rc == 101 else "error")


def replay(ctx, path):
    """every case is a deterministic function of (seed, tier): a replay re-runs the check with the seed and
    tier recorded in the replay file (the offending input files are kept next to it for inspection)"""
    import json
    d = json.load(open(path))
    ctx.seed = int(d.get("seed", ctx.seed))
    ctx.tier = d.get("tier", ctx.tier)
    ctx.rng = common.Lcg(ctx.seed)
    run(ctx)
    return ctx.finish()
