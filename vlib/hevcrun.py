"""Running the real dovi_tool binary for the stream-level checks (C05, C06, C07, C18): scratch directories,
subprocess with timeout, piped stdin with a prescribed write fragmentation, a thread pool, replay files."""
import concurrent.futures
import json
import os
import shutil
import subprocess
import threading
import time

from . import common

WORKERS = 12


class Work:
    """scratch directory common.WORK/<prop>-<pid>, removed by close()"""

    def __init__(self, prop):
        self.dir = os.path.join(common.WORK, "%s-%d" % (prop, os.getpid()))
        shutil.rmtree(self.dir, ignore_errors=True)
        os.makedirs(self.dir)
        self._n = 0
        self._lock = threading.Lock()

    def sub(self, tag="j"):
        with self._lock:
            self._n += 1
            d = os.path.join(self.dir, "%s%d" % (tag, self._n))
        os.makedirs(d)
        return d

    def close(self):
        shutil.rmtree(self.dir, ignore_errors=True)

    def __enter__(self):
        return self

    def __exit__(self, *a):
        self.close()


class Res:
    __slots__ = ("rc", "out", "err", "timed_out", "cmd", "env")

    def __init__(self, rc, out, err, timed_out, cmd, env):
        self.rc, self.out, self.err, self.timed_out, self.cmd, self.env = rc, out, err, timed_out, cmd, env

    def crashed(self):
        """panic (exit status 101), killed by a signal, or hung"""
        return self.timed_out or self.rc == 101 or self.rc < 0 or self.rc >= 128

    def brief(self):
        return "rc=%s%s stderr=%r" % (self.rc, " TIMEOUT" if self.timed_out else "", self.err[-300:].decode("latin1"))

    def cmdline(self):
        e = " ".join("%s=%s" % kv for kv in sorted(self.env.items()))
        return (e + " " if e else "") + " ".join(self.cmd)


def fragmentation(rng, total, chunk=None):
    """a list of (piece_size, sleep_ms) covering `total` bytes; profiles: tiny writes, small writes,
    writes around the chunk size, large writes, a mixture, one single write; occasional short sleeps"""
    prof = rng.choice(["tiny", "small", "chunkish", "large", "mixed", "one"])
    pieces = []
    left = total
    c = chunk or 100000
    budget = 6000  # at most this many writes per run
    while left > 0:
        p = prof if prof != "mixed" else rng.choice(["tiny", "small", "chunkish", "large"])
        if p == "one":
            n = left
        elif p == "tiny":
            n = 1 + rng.below(16)
        elif p == "small":
            n = 1 + rng.below(1500)
        elif p == "chunkish":
            n = max(1, c - 5 + rng.below(11)) if rng.chance(1, 2) else 1 + rng.below(2 * c)
        else:
            n = 1 + rng.below(70000)
        if len(pieces) >= budget:
            n = left
        n = min(n, left)
        sleep = (1 + rng.below(3)) if rng.chance(1, 40) else 0
        pieces.append((n, sleep))
        left -= n
    return prof, pieces


def run_tool(args, env=None, stdin_data=None, pieces=None, timeout=120, cwd=None):
    """runs the binary; with stdin_data the bytes are written to the pipe in the given pieces"""
    e = dict(os.environ)
    extra = dict(env or {})
    e.update(extra)
    cmd = [common.DOVI_TOOL] + list(args)
    if stdin_data is None:
        try:
            r = subprocess.run(cmd, env=e, cwd=cwd, capture_output=True, timeout=timeout, stdin=subprocess.DEVNULL)
            return Res(r.returncode, r.stdout, r.stderr, False, ["dovi_tool"] + list(args), extra)
        except subprocess.TimeoutExpired as t:
            return Res(-9, t.stdout or b"", t.stderr or b"", True, ["dovi_tool"] + list(args), extra)
    so = os.path.join(cwd or ".", "stdout.txt")
    se = os.path.join(cwd or ".", "stderr.txt")
    timed = [False]
    with open(so, "wb") as fo, open(se, "wb") as fe:
        p = subprocess.Popen(cmd, env=e, cwd=cwd, stdin=subprocess.PIPE, stdout=fo, stderr=fe)

        def kill():
            timed[0] = True
            try:
                p.kill()
            except OSError:
                pass
        wd = threading.Timer(timeout, kill)
        wd.start()
        try:
            fd = p.stdin.fileno()
            view = memoryview(stdin_data)
            total = len(stdin_data)
            off = 0
            try:
                for n, sl in (pieces or [(total, 0)]):
                    end = min(off + n, total)
                    while off < end:
                        off += os.write(fd, view[off:end])
                    if sl:
                        time.sleep(sl / 1000.0)
                while off < total:
                    off += os.write(fd, view[off:])
            except (BrokenPipeError, OSError):
                pass
            try:
                p.stdin.close()
            except OSError:
                pass
            p.wait()
        finally:
            wd.cancel()
    out = open(so, "rb").read()
    err = open(se, "rb").read()
    return Res(p.returncode, out, err, timed[0], ["dovi_tool"] + list(args) + ["<", "(stdin)"], extra)


def pmap(fn, jobs, workers=WORKERS):
    """ordered parallel map over jobs with a thread pool; an exception inside a job is re-raised"""
    if not jobs:
        return []
    with concurrent.futures.ThreadPoolExecutor(max_workers=workers) as ex:
        return list(ex.map(fn, jobs))


_replay_lock = threading.Lock()
_replay_count = {}


def save_replay(ctx, case_id, files, info, limit=6):
    """stores the offending input files under /verif/replays/<prop>-<seed>-<case>/ (first `limit`
    failures of a run only); returns the directory or None"""
    with _replay_lock:
        k = _replay_count.get(ctx.prop, 0)
        if k >= limit:
            return None
        _replay_count[ctx.prop] = k + 1
    d = os.path.join(common.VERIF, "replays", "%s-%d-%s" % (ctx.prop, ctx.seed, case_id))
    shutil.rmtree(d, ignore_errors=True)
    os.makedirs(d, exist_ok=True)
    for name, data in files.items():
        with open(os.path.join(d, name), "wb") as fh:
            fh.write(data)
    with open(os.path.join(d, "replay.json"), "w") as fh:
        json.dump(info, fh, indent=1, default=str)
    return d


def seq_diff(got, exp, limit=3):
    """compact description of the first differences between two (type, bytes) sequences"""
    out = []
    if len(got) != len(exp):
        out.append("NAL count %d, expected %d" % (len(got), len(exp)))
    for i, (a, b) in enumerate(zip(got, exp)):
        if a != b:
            out.append("NAL %d: type %d len %d %s.. expected type %d len %d %s.." % (
                i, a[0], len(a[1]), a[1][:12].hex(), b[0], len(b[1]), b[1][:12].hex()))
            if len(out) >= limit:
                break
    tg = [t for t, _ in got][:60]
    te = [t for t, _ in exp][:60]
    if tg != te:
        out.append("types got %s expected %s" % (tg, te))
    return "; ".join(out)[:1500]
