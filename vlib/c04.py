"""C04 — profile conversion modes do what is documented and preserve dynamic metadata."""
import concurrent.futures
import json
import os
import shutil
import subprocess

from . import common, rpucases, specgen, c12

IDENTITY_CURVE = {"num_pivots_minus2": 0, "pivots": [0, 1023], "mapping_idc": "Polynomial", "poly_order_minus1": [0],
                  "linear_interp_flag": [False], "poly_coef_int": [[0, 1]], "poly_coef": [[0, 0]]}
P84_LUMA_PIVOTS = [63, 69, 230, 256, 256, 37, 16, 8, 7]


def hx(b):
    return bytes(b).hex() if len(b) else "-"


def dm_payload(j):
    d = j.get("vdr_dm_data")
    if d is None:
        return None
    return {k: d.get(k) for k in ("affected_dm_metadata_id", "current_dm_metadata_id", "scene_refresh_flag",
                                  "source_min_pq", "source_max_pq", "cmv29_metadata", "cmv40_metadata")}


def expected_outcome(mode, src):
    """documented result class for a source RPU (its reported profile / EL type): ('error',) or
    (profile, mapping rule, el rule)"""
    p = src["dovi_profile"]
    el = src.get("el_type")
    if mode == 0 or mode > 5:
        return ("unchanged",)
    if mode == 1:
        return ("conv", 7, "kept", "MEL") if p in (7, 8) else ("error",)
    if mode in (2, 3):
        if p in (7, 8):
            return ("conv", 8, "identity" if el == "FEL" else "kept", None)
        if p == 5:
            return ("conv", 8, "identity", None)
        return ("error",)
    if mode == 4:
        return ("conv", 8, "p84", None)
    if mode == 5:
        return ("conv", 8, "kept", None) if p in (7, 8) else ("error",)


def run(ctx):
    ctx.rule = ("every structured RPU of C01 and every sample RPU x every mode 0..5 and out-of-range raw integers (6, 255), applied "
                "once and twice through the library (raw integer), and for a subset through the CLI editor config; oracles on the "
                "real code: documented target profile/EL/mapping (from the re-parsed output), DM payload unchanged, output encodes "
                "and re-parses, converting twice equals once, editor surface equals library result; the model's conversion is "
                "compared with the real one for every case; non-trivial = conversion succeeded with mode 1..5; distinct by "
                "(input, mode) hash")
    ctx.assumptions = ["-m on convert/demux/mux/extract-rpu and --edit-config are compared with the library conversion in C05/C06/C07",
                       "the ycc/rgb matrices and signal_color_space set by modes 2-5 are not part of the DM payload the property lists"]
    ctx.build_and_audit(need_cli=True)
    rng = ctx.rng.fork("c04")
    n = 500 if ctx.tier == "quick" else 12000
    gen = rpucases.gen_structured(rng.fork("gen"), n)
    pool = [b for b, j, t in gen if len(b) >= 25] + [p for _, p in rpucases.asset_rpus()]
    modes = [0, 1, 2, 3, 4, 5, 6, 255]
    lines = []
    meta = []
    for b in pool:
        for m in modes:
            if m > 5 and not rng.chance(1, 4):
                continue
            lines.append("rpu.ops %s mode:%d" % (hx(b), m)); meta.append((b, m, 1))
            lines.append("rpu.ops %s mode:%d;mode:%d" % (hx(b), m, m)); meta.append((b, m, 2))
    src_lines = ["rpu.json " + hx(b) for b in pool]
    so, _, _ = common.run_lines_sharded(common.LIBCASE, src_lines)
    src_json = {hx(b): (json.loads(o[3:]) if o.startswith("ok {") else None) for b, o in zip(pool, so)}
    mo, io_ = ctx.correspond("rpu.ops mode", lines, canon=c12.canon)
    # re-parse written outputs
    rep = []
    for o in io_:
        p = o.split(" ", 2)
        if p[0] == "ok" and p[1] not in ("werr", "wpanic"):
            rep.append("rpu.json " + p[1])
    ro, _, _ = common.run_lines_sharded(common.LIBCASE, rep)
    reparsed = dict(zip(rep, ro))
    once = {}
    for (b, m, k), l, o in zip(meta, lines, io_):
        src = src_json[hx(b)]
        if src is None:
            continue
        p = o.split(" ", 2)
        exp = expected_outcome(m, src)
        ctx.count("mode=%d/%s" % (m, exp[0]))
        fail = lambda what, obs, ex, shape: ctx.oracle_fail(
            {"op": "rpu.ops", "input": l[:4000], "mode": m, "source_profile": src["dovi_profile"],
             "source_vdr_bit_depth_minus8": src["header"]["vdr_bit_depth_minus8"],
             "coefficient_data_type": src["header"]["coefficient_data_type"],
             "what": what, "observed": obs, "expected": ex, "shape": shape})
        if p[0] == "operr":
            if exp[0] != "error" and not (k == 2 and int(p[1]) == 1):
                fail("conversion failed", o[:60], exp, "unexpected-error")
            elif k == 2 and int(p[1]) == 1 and exp[0] != "error":
                fail("second conversion with the same mode failed", o[:60], "idempotent", "not-idempotent" + shape_suffix(m, src))
            continue
        if p[0] != "ok":
            fail("crash", o[:80], "ok|operr", "panic")
            continue
        if exp[0] == "error":
            fail("conversion of an unsupported source profile succeeded", "ok", "error", "missing-error")
            continue
        arr = json.loads(p[2])
        mem = arr[-1]
        if p[1] in ("werr", "wpanic"):
            fail("converted RPU does not encode", p[1], "encodes", "does-not-encode")
            continue
        out = bytes.fromhex(p[1])
        rp = reparsed.get("rpu.json " + p[1], "")
        back = json.loads(rp[3:]) if rp.startswith("ok {") else None
        if back is None:
            fail("converted RPU does not re-parse", rp[:40], "re-parses",
                 "output-shorter-than-25-bytes" if len(out) < 25 else "does-not-reparse")
            continue
        if k == 1:
            once[(hx(b), m)] = (p[1], mem)
            ctx.nontriv("%s/%d" % (hx(b), m))
        # DM payload unchanged
        if dm_payload(mem) != dm_payload(src):
            fail("DM payload changed", rpucases.diff(dm_payload(src), dm_payload(mem))[:3], "unchanged", "dm-changed")
        if exp[0] == "unchanged":
            if out != b.rstrip(b"\x00") + b"\x00" * (len(b) - len(b.rstrip(b"\x00"))):
                fail("mode %d changed the RPU" % m, p[1][:60], hx(b)[:60], "mode0-changed")
            continue
        _, prof, maprule, elrule = exp
        sfx = shape_suffix(m, src)
        if back["dovi_profile"] != prof:
            fail("target profile", back["dovi_profile"], prof, "wrong-profile" + sfx)
        bm = back.get("rpu_data_mapping")
        if elrule and bm is not None and back.get("el_type") != elrule:
            fail("target EL type", back.get("el_type"), elrule, "wrong-el-type" + sfx)
        if bm is not None and m != 1 and ("nlq" in bm or "el_type" in back):
            fail("NLQ left in a profile 8 RPU", "nlq present", "absent", "nlq-left")
        if maprule == "identity" and bm is not None:
            if any(c != IDENTITY_CURVE for c in bm["curves"]):
                fail("mapping is not the identity", bm["curves"][0], IDENTITY_CURVE, "not-identity" + sfx)
        if maprule == "kept" and bm is not None:
            sm = src.get("rpu_data_mapping")
            if sm is not None and [strip(c) for c in bm["curves"]] != [strip(c) for c in sm["curves"]]:
                fail("mapping curves changed", "changed", "kept", "mapping-changed")
        if maprule == "p84":
            if bm is None or bm["curves"][0]["pivots"] != P84_LUMA_PIVOTS or bm["curves"][1]["mapping_idc"] != "MMR":
                fail("mapping is not the static HLG reshaping", "other", "profile 8.4 mapping", "not-p84")
        if k == 2:
            first = once.get((hx(b), m))
            if first is not None and first[0] != p[1]:
                fail("converting twice differs from converting once", p[1][:60], first[0][:60], "not-idempotent" + sfx)
    # editor surface through the CLI
    cli_cases = []
    keys = sorted(once.keys())
    for key in keys[:: max(1, len(keys) // (120 if ctx.tier == "quick" else 2000))]:
        cli_cases.append(key)
    work = os.path.join(common.WORK, "c04-%d" % os.getpid())
    os.makedirs(work, exist_ok=True)

    def one(i_key):
        i, (h, m) = i_key
        b = bytes.fromhex(h)
        inp = os.path.join(work, "in%d.bin" % i)
        cfg = os.path.join(work, "cfg%d.json" % i)
        outp = os.path.join(work, "out%d.bin" % i)
        open(inp, "wb").write(b"\x00\x00\x00\x01" + specgen.escape(b))
        json.dump({"mode": m}, open(cfg, "w"))
        r = subprocess.run([common.DOVI_TOOL, "editor", "-i", inp, "-j", cfg, "-o", outp], capture_output=True, timeout=60)
        if r.returncode != 0 or not os.path.exists(outp):
            return (h, m, None, r.returncode)
        d = open(outp, "rb").read()
        if not d.startswith(b"\x00\x00\x00\x01"):
            return (h, m, b"", 0)
        return (h, m, rpucases.unescape(d[4:]), 0)
    try:
        with concurrent.futures.ThreadPoolExecutor(max_workers=12) as ex:
            res = list(ex.map(one, enumerate(cli_cases)))
    finally:
        shutil.rmtree(work, ignore_errors=True)
    for h, m, got, rc in res:
        ctx.evaluations += 1
        ctx.count("editor-surface")
        want = once[(h, m)][0]
        # the editor applies `mode` only when > 0 and writes the NAL form (trailing zeros survive escaping)
        if got is None:
            ctx.oracle_fail({"op": "editor mode", "input": h, "mode": m, "observed": "exit %s" % rc,
                             "expected": "same bytes as the library conversion", "shape": "surface-differs"})
        elif got.hex() != want:
            ctx.oracle_fail({"op": "editor mode", "input": h, "mode": m, "observed": got.hex()[:80],
                             "expected": want[:80], "shape": "surface-differs"})
    ctx.sample(lines[9][:400])


def strip(c):
    return {k: v for k, v in c.items()}


def shape_suffix(m, src):
    """the recorded known shapes: F8 (mode 1, profile 8, vdr bit depth != 12) and F12/F14 (coefficient type 1)"""
    if m == 1 and src["header"]["vdr_bit_depth_minus8"] != 4:
        return "/mode1-vdr_bit_depth-not-12"
    if src["header"]["coefficient_data_type"] == 1:
        return "/coefficient_data_type-1"
    return ""
