"""madVR measurement files for `dovi_tool generate --madvr-file` (C10): builder, independent decoder, direct oracle.

The format is the one read by the third-party crate madvr_parse 1.0.2 (`MadVRMeasurements::parse_measurements`):

    "mvr+"  u32le version, header_size, scene_count, frame_count, flags, maxcll
            [version >= 5: maxfall, avgfall  [version >= 6: target_peak_nits]]
            scene_count x u32 start | scene_count x u32 end+1 | scene_count x u32 peak nits
            per frame: u16 peak (version >= 6: three peaks), then
                       version >= 5: 256 x u16 luminance histogram + 31 x u16 hue histogram (unit 1/640 percent)
                       version  < 5: 31 x u16 luminance histogram
            flags == 3: one u16 target nits per frame (exactly 2 * frame_count [+1] bytes must remain)

Three independent parts:
  (i)   `encode(spec)` builds the bytes of a spec (a dict, see `gen_spec`), well-formed or malformed;
  (ii)  `decode(spec)` computes, in Python floats and in the operation order of the Rust code, the DECODED INTEGER
        INPUTS of the Lean model `Dovi.Gen.madvrConfig` (Model/GenSources.lean): flags, maxcll, maxfall, frame count,
        per scene (start, end+1 as stored, max PQ code, avg PQ code — both before clamping) and per frame the target
        PQ code; or the outcome of the byte-level reader when it does not get that far;
  (iii) `oracle(spec, cfg, custom)` states directly what `generate` has to write: per frame (scene cut, L1 min/max/avg),
        L6 MaxCLL/MaxFALL — the PQ codes of integer nits come from the 60-digit ST 2084 evaluation of c19 (not
        from floats), the histogram average from exact rationals around the f64 constants.
"""
import math
import struct
from fractions import Fraction

MAGIC = b"mvr+"

# ---------------------------------------------------------------------------------------------------------
# f64 helpers that mirror Rust semantics
# ---------------------------------------------------------------------------------------------------------

ST2084_Y_MAX = 10000.0
ST2084_M1 = 2610.0 / 16384.0
ST2084_M2 = (2523.0 / 4096.0) * 128.0
ST2084_C1 = 3424.0 / 4096.0
ST2084_C2 = (2413.0 / 4096.0) * 32.0
ST2084_C3 = (2392.0 / 4096.0) * 32.0


def nits_to_pq(nits):
    """madvr_parse::utils::nits_to_pq / dolby_vision::utils::nits_to_pq (f64, libm pow)"""
    y = float(nits) / ST2084_Y_MAX
    p = math.pow(y, ST2084_M1)
    return math.pow((ST2084_C1 + ST2084_C2 * p) / (1.0 + ST2084_C3 * p), ST2084_M2)


def f64_round(x):
    """f64::round: half away from zero (x >= 0 here), exact"""
    if x != x or x in (float("inf"), float("-inf")):
        return x
    r = math.floor(x)
    return r + 1.0 if x - r >= 0.5 else float(r)


def as_u16(x):
    """`f64 as u16`: saturating, NaN -> 0"""
    if x != x:
        return 0
    if x <= 0:
        return 0
    if x >= 65535:
        return 65535
    return int(x)


def code_of(pq):
    """`(pq * 4095.0).round() as u16`"""
    return as_u16(f64_round(pq * 4095.0))


def f64_min(a, b):
    """f64::min: a NaN operand is ignored"""
    if a != a:
        return b
    if b != b:
        return a
    return a if a < b else b


def f64_max(a, b):
    if a != a:
        return b
    if b != b:
        return a
    return a if a > b else b


def f64_div(a, b):
    if b == 0.0:
        if a == 0.0 or a != a:
            return float("nan")
        return float("inf") if a > 0 else float("-inf")
    return a / b


def f64_mul(a, b):
    try:
        return a * b
    except OverflowError:      # never reached: Python floats do not raise on multiplication
        return float("inf")


# ---------------------------------------------------------------------------------------------------------
# (i) builder
# ---------------------------------------------------------------------------------------------------------

def lum_bins(version):
    return 256 if version >= 5 else 31


def encode(spec):
    v = spec["version"]
    out = bytearray(spec.get("magic", MAGIC))
    scenes = spec["scenes"]
    frames = spec["frames"]
    hdr = [v, spec.get("header_size", 36 if v >= 6 else (32 if v >= 5 else 24)),
           spec.get("scene_count_field", len(scenes)), spec.get("frame_count_field", len(frames)),
           spec["flags"], spec["maxcll"]]
    if v >= 5:
        hdr += [spec["maxfall"], spec.get("avgfall", 0)]
        if v >= 6:
            hdr.append(spec.get("target_peak", 0))
    for x in hdr:
        out += struct.pack("<I", x & 0xFFFFFFFF)
    for s in scenes:
        out += struct.pack("<I", s[0])
    for s in scenes:
        out += struct.pack("<I", s[1])
    for s in scenes:
        out += struct.pack("<I", s[2])
    for f in frames:
        for p in f["peaks"][: (3 if v >= 6 else 1)]:
            out += struct.pack("<H", p)
        for x in f["lum"]:
            out += struct.pack("<H", x)
        if v >= 5:
            for x in f["hue"]:
                out += struct.pack("<H", x)
    if spec.get("targets") is not None:
        for t in spec["targets"]:
            out += struct.pack("<H", t)
    out += spec.get("trailer", b"")
    if spec.get("truncate_to") is not None:
        out = out[: spec["truncate_to"]]
    return bytes(out)


# ---------------------------------------------------------------------------------------------------------
# (ii) independent decoder: bytes -> decoded integer inputs of the Lean model
# ---------------------------------------------------------------------------------------------------------

class Reader:
    def __init__(self, d):
        self.d = d
        self.p = 0

    def u32(self):
        if self.p + 4 > len(self.d):
            self.p = len(self.d) if self.p + 4 > len(self.d) else self.p
            raise EOFError
        x = struct.unpack_from("<I", self.d, self.p)[0]
        self.p += 4
        return x

    def u16(self):
        if self.p + 2 > len(self.d):
            raise EOFError
        x = struct.unpack_from("<H", self.d, self.p)[0]
        self.p += 2
        return x


def frame_avg_pq(version, lum):
    """MadVRFrame::parse_frames: the f64 histogram average of one frame (same operation order)"""
    hist = [float(x) / 640.0 for x in lum]
    sdr_peak_pq = nits_to_pq(100)
    hdr_peak_pq = 1.0
    if version >= 5:
        sdr_step = sdr_peak_pq / 64.0
        hdr_step = (hdr_peak_pq - sdr_peak_pq) / 192.0
        sdr_step = sdr_step + (sdr_step / 2.0)
        hdr_step = hdr_step + (hdr_step / 2.0)
        acc = 0.0
        for i, p in enumerate(hist):
            if i == 0 and p > 2.0 and p < 30.0:
                continue
            pq_value = (float(i) * sdr_step) if i <= 64 else (sdr_peak_pq + (float(i - 63) * hdr_step))
            acc = acc + pq_value * (p / 100.0)
    else:
        step = hdr_peak_pq / 31.0
        step = step + (step / 2.0)
        acc = 0.0
        for i, p in enumerate(hist):
            acc = acc + (float(i) * step) * (p / 100.0)
    psum = 0.0
    for p in hist:
        psum = psum + p
    return f64_min(f64_mul(acc, f64_div(100.0, psum)), 1.0)


def decode_bytes(data, debug_build=True):
    """The byte-level reader, independently of `encode`. Returns a dict:
       {"outcome": "ok", flags, maxcll, maxfall, frame_count, scenes: [(start, end1, maxcode, avgcode)], targets: [code]}
       {"outcome": "err", "why": ...}    the reader returns an Err (exit 1)
       {"outcome": "panic", "why": ...}  the reader panics (exit 101) — build profile dev (overflow checks on)
    When a scene's arithmetic panics / is out of range the model is still fed (outcome "ok" carries the raw scene fields and
    the avg code 0 for scenes whose frames do not exist): those cases are decided by the model, not here; `model_decides`
    tells."""
    if len(data) < 4:
        return {"outcome": "panic", "why": "file shorter than the magic: data[4..] / data[..4] slice out of range"}
    try:
        magic = data[:4].decode("utf-8")
    except UnicodeDecodeError:
        return {"outcome": "err", "why": "magic is not UTF-8"}
    if magic != "mvr+":
        return {"outcome": "err", "why": "invalid magic code"}
    r = Reader(data[4:])
    try:
        version = r.u32(); r.u32(); scene_count = r.u32(); frame_count = r.u32(); flags = r.u32(); maxcll = r.u32()
        if flags == 0:
            return {"outcome": "err", "why": "incomplete measurement file (flags 0)"}
        maxfall = 0
        if version >= 5:
            maxfall = r.u32(); r.u32()
            if version >= 6:
                r.u32()
        starts = [r.u32() for _ in range(scene_count)]
        ends = []
        for k in range(scene_count):
            e1 = r.u32()
            ends.append(e1)
            # `reader.read_u32()? - 1` and `s.end - s.start + 1` on u32: overflow checks of the dev profile
            if debug_build and (e1 == 0 or e1 - 1 < starts[k]):
                return {"outcome": "model", "why": "scene %d: end+1 = %d, start = %d: u32 subtraction overflow" % (k, e1, starts[k]),
                        "flags": flags, "maxcll": maxcll, "maxfall": maxfall, "frame_count": frame_count,
                        "scenes": [(starts[j], ends[j] if j < len(ends) else 1, 0, 0) for j in range(k + 1)], "targets": [],
                        "expect": "panic"}
        peaks = [r.u32() for _ in range(scene_count)]
        avgs = []
        for _ in range(frame_count):
            r.u16()
            if version >= 6:
                r.u16(); r.u16()
            lum = [r.u16() for _ in range(lum_bins(version))]
            if version >= 5:
                for _ in range(31):
                    r.u16()
            avgs.append(frame_avg_pq(version, lum))
        targets = []
        if flags == 3:
            remaining = len(r.d) - r.p
            if remaining // 2 != frame_count:
                return {"outcome": "err", "why": "invalid remaining bytes for custom per-frame target nits"}
            for _ in range(frame_count):
                targets.append(code_of(nits_to_pq(r.u16())))
    except EOFError:
        return {"outcome": "err", "why": "unexpected end of file"}
    scenes = []
    in_range = True
    for k in range(scene_count):
        end = ends[k] - 1
        if end < frame_count and in_range:
            a = None
            for f in avgs[starts[k]: end + 1]:
                a = f if a is None else f64_max(a, f)
            avg_code = code_of(a)
        else:
            in_range = False
            avg_code = 0
        scenes.append((starts[k], ends[k], code_of(nits_to_pq(peaks[k])), avg_code))
    return {"outcome": "model", "flags": flags, "maxcll": maxcll, "maxfall": maxfall, "frame_count": frame_count,
            "scenes": scenes, "targets": targets, "expect": "ok" if in_range else "err",
            "why": "" if in_range else "scene end higher than frame count"}


def decode(spec):
    return decode_bytes(encode(spec))


def model_source(dec):
    """the decoded source data as the driver op `c10.gensrc madvr` expects it (see Driver/OpsGenSrc.lean)"""
    sc = "~".join("%d:%d:%d:%d" % s for s in dec["scenes"]) or "-"
    tg = ":".join(str(t) for t in dec["targets"]) or "-"
    return "flags=%d&maxcll=%d&maxfall=%d&frames=%d&scenes=%s&targets=%s" % (
        dec["flags"], dec["maxcll"], dec["maxfall"], dec["frame_count"], sc, tg)


# ---------------------------------------------------------------------------------------------------------
# (iii) direct oracle
# ---------------------------------------------------------------------------------------------------------

def exact_avg_code(version, lum):
    """the histogram average as an exact rational (bin centres from the f64 constant nits_to_pq(100) taken as a
    rational), scaled to a 12-bit code: (code, distance to the nearest rounding tie). All-zero histograms have no
    average: the reader's f64 arithmetic yields NaN.min(1.0) = 1.0, stated here as such."""
    hist = [Fraction(x, 640) for x in lum]
    tot = sum(hist)
    if tot == 0:
        return 4095, 0.5
    sdr = Fraction(nits_to_pq(100))
    if version >= 5:
        sdr_step = sdr / 64 * Fraction(3, 2)
        hdr_step = (1 - sdr) / 192 * Fraction(3, 2)
        acc = Fraction(0)
        for i, p in enumerate(hist):
            if i == 0 and 2 < p < 30:
                continue
            v = i * sdr_step if i <= 64 else sdr + (i - 63) * hdr_step
            acc += v * p / 100
    else:
        step = Fraction(1, 31) * Fraction(3, 2)
        acc = sum(i * step * p / 100 for i, p in enumerate(hist))
    a = min(acc * 100 / tot, Fraction(1))
    e = a * 4095
    c = math.floor(e + Fraction(1, 2))
    return c, float(Fraction(1, 2) - abs(e - c))


def clamp_l1(mx, av, cm40):
    mx = min(max(mx, 2081), 4095)
    lo = 1229 if cm40 else 819
    return (0, mx, min(max(av, lo), mx - 1))


def oracle(spec, cfg, custom, code_dec):
    """What `generate -j cfg --madvr-file <spec>` [--use-custom-targets] has to produce, for a spec whose bytes are a
    complete measurement file (not truncated): "err", or
        {"frames": [(cut, (min, max, avg) | None, fuzzy)], "l6": (maxcll, maxfall) | None}
    (`cut`: first frame of a scene; in long-play mode every frame is a cut — the caller applies that)
    `code_dec(nits)` -> (12-bit ST 2084 code, distance to tie): the 60-digit evaluation of c19.
    `fuzzy` marks frames whose L1 depends on a value closer than 1e-6 code units to a rounding tie (not judged)."""
    if spec["flags"] == 0:
        return "err"
    nf = len(spec["frames"])
    scenes = spec["scenes"]
    for (st, e1, pk) in scenes:
        if e1 == 0 or e1 - 1 < st:
            return "malformed"         # no defined length: anything but success is acceptable
        if e1 - 1 >= nf:
            return "err"
    if scenes and sum(e1 - st for (st, e1, pk) in scenes) != nf:
        return "err"
    if not scenes and nf == 0:
        return "err"
    cm40 = (cfg.get("l1_avg_pq_cm_version") or cfg.get("cm_version", "V40")) == "V40"
    lp = False         # long-play mode (config or --long-play-mode) is applied by the caller
    frames = []
    v = spec["version"]
    per_frame = [exact_avg_code(v, f["lum"]) for f in spec["frames"]]
    if not scenes:
        frames = [(1 if (i == 0 or lp) else 0, None, False) for i in range(nf)]
    for (st, e1, pk) in scenes:
        mxc, d1 = code_dec(pk)
        avc, d2 = max(per_frame[st:e1], key=lambda t: t[0])
        # the max over frames is taken on the f64 averages; on codes it is the same unless two frames tie within rounding
        fuzzy = d1 < 1e-6 or any(t[1] < 1e-6 for t in per_frame[st:e1])
        for j in range(e1 - st):
            if custom and spec["flags"] == 3:
                tc, d3 = code_dec(spec["targets"][st + j])
                frames.append((1 if (j == 0 or lp) else 0, clamp_l1(tc, avc, cm40), fuzzy or d3 < 1e-6))
            else:
                frames.append((1 if (j == 0 or lp) else 0, clamp_l1(min(mxc, 65535), avc, cm40), fuzzy))
    l6 = None
    if cfg.get("level6") is not None:
        c6 = cfg["level6"]
        l6 = (c6["max_content_light_level"] or (spec["maxcll"] & 0xFFFF),
              c6["max_frame_average_light_level"] or ((spec["maxfall"] if v >= 5 else 0) & 0xFFFF))
    return {"frames": frames, "l6": l6}


# ---------------------------------------------------------------------------------------------------------
# generation
# ---------------------------------------------------------------------------------------------------------

PEAKS = [0, 1, 50, 100, 101, 203, 600, 1000, 1001, 4000, 9999, 10000, 10001, 12000, 65535, 100000, 4294967295]
LIGHT = [0, 0, 1, 400, 1000, 4000, 10000, 65535, 65536, 65537, 70000, 4294967295]


def gen_hist(rng, n):
    kind = rng.below(10)
    if kind >= 8:
        # a dark frame: everything in one low bin (average PQ code roughly 500..1400: around the L1 avg floors 819 / 1229)
        h = [0] * n
        h[max(1, n // 16) + rng.below(max(1, n // 9))] = 64000
        return h
    if kind == 0:
        return [0] * n                                   # no measurement at all
    if kind == 1:
        h = [0] * n
        h[rng.below(n)] = 64000                          # all pixels in one bin
        return h
    if kind == 2:
        h = [rng.below(600) for _ in range(n)]           # dense
        h[0] = rng.choice([0, 1280, 1281, 5000, 19199, 19200, 19201, 40000])   # black bars: 2 % < bin 0 < 30 %
        return h
    if kind == 3:
        h = [0] * n
        for _ in range(1 + rng.below(6)):
            h[rng.below(n)] = rng.below(65536)
        return h
    if kind == 4:
        return [65535] * n                               # sums far above 100 %
    h = [0] * n
    hi = 1 + rng.below(n)
    for _ in range(2 + rng.below(20)):
        h[rng.below(hi)] += rng.below(8000)
    return [min(x, 65535) for x in h]


def gen_frame(rng, version):
    return {"peaks": [rng.below(64001) for _ in range(3)], "lum": gen_hist(rng, lum_bins(version)),
            "hue": [rng.below(2000) for _ in range(31)]}


def tile(rng, nframes, nscenes):
    """`nscenes` consecutive scenes covering 0..nframes"""
    nscenes = max(1, min(nscenes, nframes))
    cuts = set()
    while len(cuts) < nscenes - 1:
        cuts.add(1 + rng.below(nframes - 1))
    b = [0] + sorted(cuts) + [nframes]
    return [(b[i], b[i + 1]) for i in range(nscenes)]


def gen_spec(rng, kind="valid"):
    """kind: valid | end-beyond | not-tiling | truncated | flags0 | end-zero | end-before-start | bad-targets |
             bad-magic | tiny | no-scenes | unordered | shifted-same-sum"""
    version = rng.choice([5, 6, 5, 6, 5, 6, 4])
    flags = rng.choice([2, 3, 2, 3, 2, 3, 1, 7])
    nframes = 1 + rng.below(40)
    spans = tile(rng, nframes, 1 + rng.below(6))
    scenes = [(a, b, rng.choice(PEAKS + [rng.below(12000)])) for (a, b) in spans]
    spec = {"version": version, "flags": flags, "maxcll": rng.choice(LIGHT + [rng.below(5000)]),
            "maxfall": rng.choice(LIGHT + [rng.below(1000)]), "avgfall": rng.below(500), "target_peak": rng.below(2000),
            "scenes": scenes, "frames": [gen_frame(rng, version) for _ in range(nframes)], "kind": kind}
    if flags == 3:
        spec["targets"] = [rng.choice([0, 100, 400, 1000, 4000, 10000, 65535, rng.below(12000)]) for _ in range(nframes)]
        if rng.chance(1, 3):
            spec["trailer"] = b"\x07"                   # `remaining / 2`: one odd byte is tolerated
    if kind == "end-beyond":
        k = rng.below(len(scenes))
        scenes[k] = (scenes[k][0], nframes + 1 + rng.below(5), scenes[k][2])
    elif kind == "not-tiling":
        k = rng.below(len(scenes))
        a, b, p = scenes[k]
        opts = []
        if b - a > 1:
            opts += [(a + 1, b, p), (a, b - 1, p)]        # a gap
        if a > 0:
            opts.append((a - 1, b, p))                   # overlap with the previous scene
        if b < nframes:
            opts.append((a, b + 1, p))                   # overlap with the next scene
        if not opts:
            opts = [(a, b, p)]
            scenes.append((a, b, p))                     # one frame, one scene: duplicate the scene
        scenes[k] = rng.choice(opts)
    elif kind == "shifted-same-sum":
        # one scene moved by a frame: a gap before it and an overlap after it, the lengths still add up to the frame count
        # (the tool only checks the sum: accepted, every scene keeps its own length)
        if len(scenes) > 1:
            k = rng.below(len(scenes) - 1)
            a, b, p = scenes[k]
            scenes[k] = (a + 1, b + 1, p)
    elif kind == "unordered":
        spec["scenes"] = rng.shuffle(scenes)            # still a tiling: the scenes' order is the shots' order
    elif kind == "truncated":
        spec.pop("trailer", None)                       # (cutting only the tolerated odd byte would leave a complete file)
        full = len(encode(spec))
        spec["truncate_to"] = rng.choice([4, 8, 27, 28, 4 + 4 * 6, full - 1, full - 2, full - 3, 5 + rng.below(full - 5), 5 + rng.below(60)])
    elif kind == "tiny":
        spec["truncate_to"] = rng.below(4)
    elif kind == "flags0":
        spec["flags"] = 0
        spec.pop("targets", None)
    elif kind == "end-zero":
        k = rng.below(len(scenes))
        scenes[k] = (scenes[k][0], 0, scenes[k][2])
    elif kind == "end-before-start":
        k = rng.below(len(scenes))
        a = scenes[k][0] + 1 + rng.below(3)
        scenes[k] = (a, a - rng.below(2), scenes[k][2]) if rng.chance(1, 2) else (a, max(1, a - 1 - rng.below(3)), scenes[k][2])
    elif kind == "bad-targets":
        if spec["flags"] != 3:
            spec["flags"] = 3
        t = [100] * nframes
        spec["targets"] = t[: max(0, nframes - 1 - rng.below(2))] if rng.chance(1, 2) else t + [5] * (1 + rng.below(3))
        spec.pop("trailer", None)
    elif kind == "bad-magic":
        spec["magic"] = rng.choice([b"mvr-", b"MVR+", b"\xff\xfe\x00\x00", b"\x00\x00\x00\x00"])
    elif kind == "no-scenes":
        spec["scenes"] = []
    return spec


# ---------------------------------------------------------------------------------------------------------
# HDR10+ JSON: the decoded integer inputs of `Dovi.Gen.hdr10plusConfig`
# ---------------------------------------------------------------------------------------------------------

def hdr10plus_peak_nits(fm, src):
    """`Hdr10PlusJsonMetadata::peak_brightness_nits` (hdr10plus 2.1.3): None where the Rust code returns None"""
    lp = fm["LuminanceParameters"]
    dv = lp["LuminanceDistributions"]["DistributionValues"]
    ms = lp["MaxScl"]
    if src == "histogram":
        return float(max(dv)) / 10.0 if dv else None
    if src == "histogram99":
        return float(dv[-1]) / 10.0 if dv else None
    if src == "max-scl":
        return float(max(ms)) / 10.0 if ms else None
    if src == "max-scl-luminance":
        if len(ms) != 3:
            return None
        r, g, b = (float(x) for x in ms)
        return ((0.2627 * r) + (0.678 * g) + (0.0593 * b)) / 10.0
    raise ValueError(src)


def hdr10plus_source(hj, src):
    """the decoded source data as the driver op `c10.gensrc hdr10plus` expects it"""
    fr = []
    for fm in hj["SceneInfo"]:
        mx = hdr10plus_peak_nits(fm, src)
        if mx is None:
            fr.append("-")
            continue
        av = float(fm["LuminanceParameters"]["AverageRGB"]) / 10.0
        fr.append("%d:%d" % (code_of(nits_to_pq(f64_round(mx))), code_of(nits_to_pq(f64_round(av)))))
    s = hj["SceneInfoSummary"]
    return "firsts=%s&lengths=%s&frames=%s" % (":".join(map(str, s["SceneFirstFrameIndex"])) or "-",
                                               ":".join(map(str, s["SceneFrameNumbers"])) or "-", "~".join(fr))
