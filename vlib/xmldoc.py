"""The tokenised form of a CM XML document for the Lean model (C11): xmlgen document dict -> `xml.doc <doc>`.

The line format is documented in lean/Driver/OpsXmlDoc.lean; the Lean side is `Dovi.XmlDoc.generateDoc`
(lean/DoviModel/Model/XmlDoc.lean: `configOfDoc` = CmXmlParser::new on the tokens, composed with the generator).
Every decimal token becomes the integer `value * 10^6`; a token with more than six fractional digits has no
such form (`NotScaled`): the document is then not put through the model.
"""
from fractions import Fraction


class NotScaled(Exception):
    pass


def sc(tok, nonneg=False):
    v = Fraction(tok) * 10**6
    if v.denominator != 1 or (nonneg and v < 0):
        raise NotScaled(tok)
    return int(v)


def scs(toks, nonneg=False):
    return ",".join(str(sc(t, nonneg)) for t in toks)


def node(nd):
    k = nd[0]
    if k == "L1":
        return "1/" + scs(nd[1])
    if k == "L2":
        return "2/%s/%s" % ("-" if nd[1] is None else nd[1], scs(nd[2]))
    if k == "L3":
        return "3/" + scs(nd[1])
    if k == "L5":
        return "5/" + scs(nd[1], True)
    if k == "L8":
        return "8/%s/%s/%d/%d/%s/%s" % ("-" if nd[1] is None else nd[1], scs(nd[2]), sc(nd[3]), sc(nd[4]), scs(nd[5]), scs(nd[6]))
    if k == "L9":
        return "9/" + scs(nd[1])
    return "x"


def levels(nodes):
    return "-" if nodes is None else ";".join(node(n) for n in nodes)


def shot(s):
    rec = "-" if s.get("start") is None else "%d,%d" % (s["start"], s["duration"])
    return "%s:%s:%s" % (rec, levels(s["levels"]), "^".join("%d@%s" % (f["offset"], levels(f["levels"])) for f in s["frames"]))


def target(t, v5):
    app = "-" if (not v5 or t.get("app") is None) else ("H" if t["app"] == "HOME" else "O")
    return "%d:%d:%d:%s:%s" % (t["id"], t["peak"], sc(t["min"], True), scs(t["prim"]), app)


def line(doc, cw=None, ch=None):
    """the `xml.doc` line of the document rendered by xmlgen.render(doc) and run with the given canvas options"""
    v5 = doc["version"].startswith("5")
    c = ["ver=" + doc["version"]]
    if cw is not None:
        c.append("cw=%d" % cw)
    if ch is not None:
        c.append("ch=%d" % ch)
    if doc["canvas_ar"] is not None:
        c.append("car=%d" % sc(doc["canvas_ar"], True))
    if doc["image_ar"] is not None:
        c.append("iar=%d" % sc(doc["image_ar"], True))
    if doc["level6"] is not None:
        c.append("l6=%d:%d" % (sc(doc["level6"]["maxfall"]), sc(doc["level6"]["maxcll"])))
    if doc["mastering"] is not None:
        c.append("md=%d:%d" % (sc(doc["mastering"]["min"]), doc["mastering"]["peak"]))
    if doc["level254"] is not None:
        c.append("l254=%d:%d" % tuple(doc["level254"]))
    if doc["level11"] is not None:
        c.append("l11=%d:%d" % tuple(doc["level11"]))
    if doc["targets"]:
        c.append("targets=" + ";".join(target(t, v5) for t in doc["targets"]))
    c.append("shots=" + "~".join(shot(s) for s in doc["shots"]))
    return "xml.doc " + "&".join(c)
