"""Abstract Dolby CM XML document model, generator and renderer (C11).

A document is a plain dict; every decimal is kept as its *text token* (<= 6 fractional digits, or the
same value in exponent form), so that the renderer writes exactly what the specification
(vlib/xmlspec.py) reads with `fractions.Fraction(token)`.

doc = {
  "version": "2.0.5" | "4.0.2" | "5.0.0" | "5.1.0",
  "version_attr": bool,                 # version carried by DolbyLabsMDF@version instead of <Version>
  "canvas_ar": tok | None, "image_ar": tok | None,
  "level6": {"maxcll": tok, "maxfall": tok} | None,
  "mastering": {"min": tok, "peak": int, "prim": [8 tok]} | None,
  "level254": (dm_mode, dm_version) | None,          # v4+ only
  "level11": (content_type, whitepoint) | None,      # v4+ only
  "targets": [{"id": int, "peak": int, "min": tok, "prim": [8 tok], "app": str}],
  "shots": [{"uid": str, "start": int, "duration": int, "levels": [node] | None,
             "frames": [{"offset": int, "levels": [node] | None}]}],     # document order
}
node = ("L1", [min, avg, max]) | ("L2", tid, [9 tok]) | ("L3", [min, avg, max]) | ("L5", [canvas, image])
     | ("L8", tid, [6 tok], mid, clip, [6 tok], [6 tok]) | ("L9", [8 tok])
"""

PRESET_TARGETS = [1, 16, 18, 21, 27, 28, 37, 38, 42, 48, 49]

# primaries::PREDEFINED_COLORSPACE_PRIMARIES / level9::PREDEFINED_REALDEVICE_PRIMARIES as decimal text
COLORSPACE_PRIMARIES = [
    ["0.68", "0.32", "0.265", "0.69", "0.15", "0.06", "0.3127", "0.329"],
    ["0.64", "0.33", "0.30", "0.60", "0.15", "0.06", "0.3127", "0.329"],
    ["0.708", "0.292", "0.170", "0.797", "0.131", "0.046", "0.3127", "0.329"],
    ["0.63", "0.34", "0.31", "0.595", "0.155", "0.07", "0.3127", "0.329"],
    ["0.64", "0.33", "0.29", "0.60", "0.15", "0.06", "0.3127", "0.329"],
    ["0.68", "0.32", "0.265", "0.69", "0.15", "0.06", "0.314", "0.351"],
    ["0.7347", "0.2653", "0.0", "1.0", "0.0001", "-0.077", "0.32168", "0.33767"],
    ["0.73", "0.28", "0.14", "0.855", "0.10", "-0.05", "0.3127", "0.329"],
    ["0.766", "0.275", "0.225", "0.80", "0.089", "-0.087", "0.3127", "0.329"],
]
REALDEVICE_PRIMARIES = [
    ["0.693", "0.304", "0.208", "0.761", "0.1467", "0.0527", "0.3127", "0.329"],
    ["0.6867", "0.3085", "0.231", "0.69", "0.1489", "0.0638", "0.3127", "0.329"],
    ["0.6781", "0.3189", "0.2365", "0.7048", "0.141", "0.0489", "0.3127", "0.329"],
    ["0.68", "0.32", "0.265", "0.69", "0.15", "0.06", "0.3127", "0.329"],
    ["0.7042", "0.294", "0.2271", "0.725", "0.1416", "0.0516", "0.3127", "0.329"],
    ["0.6745", "0.310", "0.2212", "0.7109", "0.152", "0.0619", "0.3127", "0.329"],
    ["0.6805", "0.3191", "0.2522", "0.6702", "0.1397", "0.0554", "0.3127", "0.329"],
    ["0.6838", "0.3085", "0.2709", "0.6378", "0.1478", "0.0589", "0.3127", "0.329"],
    ["0.6753", "0.3193", "0.2636", "0.6835", "0.1521", "0.0627", "0.3127", "0.329"],
    ["0.6981", "0.2898", "0.1814", "0.7189", "0.1517", "0.0567", "0.3127", "0.329"],
]


# ---------------------------------------------------------------------------------------------
# decimal tokens
# ---------------------------------------------------------------------------------------------

def dec(n, digits=6):
    """text of n / 10^digits without trailing zeros (n integer)"""
    neg = n < 0
    n = abs(n)
    s = str(n).rjust(digits + 1, "0")
    ip, fp = s[:-digits], s[-digits:].rstrip("0")
    t = ip + ("." + fp if fp else "")
    return ("-" if neg and n else "") + t


def rand_dec(rng, lo, hi, digits=6):
    """uniform decimal with `digits` fractional digits in [lo, hi] (lo/hi integers or simple floats)"""
    sc = 10 ** digits
    a, b = int(round(lo * sc)), int(round(hi * sc))
    return dec(a + rng.below(b - a + 1), digits)


def exp_form(tok):
    """the same value in exponent notation as DaVinci writes small numbers (5.5e-05); value unchanged"""
    neg = tok.startswith("-")
    t = tok.lstrip("-")
    if "." not in t or not t.startswith("0."):
        return tok
    frac = t[2:]
    k = len(frac) - len(frac.lstrip("0"))
    digs = frac[k:]
    if not digs:
        return tok
    m = digs[0] + ("." + digs[1:] if len(digs) > 1 else "")
    return ("-" if neg else "") + "%se-%02d" % (m, k + 1)


TRIM_FIXED = ["0", "0", "0", "-1", "1", "1", "-1", "0.5", "-0.5", "1.5", "-1.5", "2", "-2", "3", "10", "-10", "100", "-100",
              "0.000001", "-0.000001", "0.999999", "-0.999999", "1.000001", "-1.000001"]


def trim_value(rng, beyond=True):
    """trims at -1, 0, +1, extremes beyond the clamp, and random decimals"""
    k = rng.below(10)
    if k < 3:
        v = rng.choice(TRIM_FIXED)
        if not beyond:
            from fractions import Fraction
            if abs(Fraction(v)) > 1:
                v = "1" if not v.startswith("-") else "-1"
        return v
    if k < 7:
        return rand_dec(rng, -1, 1, 6)
    if k < 8:
        t = rand_dec(rng, -0.01, 0.01, 6)
        return exp_form(t) if rng.chance(1, 2) else t
    if k < 9:
        return rand_dec(rng, -1, 1, rng.choice([1, 2, 3, 4]))
    return rand_dec(rng, -3, 3, 6) if beyond else rand_dec(rng, -1, 1, 5)


def unit_value(rng):
    """L1 style value in [0, 1] (sometimes outside)"""
    k = rng.below(12)
    if k < 2:
        return rng.choice(["0", "1", "0.5", "0.1", "0.3", "0.7", "0.9", "0.003", "0.2"])
    if k < 3:
        return rng.choice(["-0.1", "1.5", "20", "-3", "1.000123", "16.1"])
    if k < 4:
        return rand_dec(rng, 0, 0.004, 6)
    return rand_dec(rng, 0, 1, rng.choice([6, 6, 6, 5, 3]))


def uid(rng):
    h = "%032x" % (rng.next() << 64 | rng.next() << 11 | rng.below(2048))
    h = h[-32:]
    return "%s-%s-%s-%s-%s" % (h[:8], h[8:12], h[12:16], h[16:20], h[20:])


# ---------------------------------------------------------------------------------------------
# generator
# ---------------------------------------------------------------------------------------------

AR_POOL = ["1.77778", "1.777778", "1.78", "1.85", "2", "2.39", "2.38806", "2.4", "1.33333", "1.333333", "1.9", "1", "0.5625", "2.2"]
CANVAS_POOL = [(3840, 2160), (3840, 2160), (1920, 1080), (4096, 2160), (1998, 1080), (7680, 4320), (2048, 858), (720, 576)]
NITS_POOL = [100, 100, 600, 1000, 1000, 2000, 4000, 108, 48, 300, 10000, 1]
MIN_POOL = ["0", "0.005", "0.0001", "0.05", "0.01", "0.001", "0.0005", "0.1", "1"]


def gen_primaries(rng, for_l9=False):
    k = rng.below(10)
    if k < 5:
        return list(rng.choice(COLORSPACE_PRIMARIES[:6] if rng.chance(4, 5) else COLORSPACE_PRIMARIES))
    if k < 7 and (for_l9 or k == 6):
        # real-device presets are looked up for L9 only; a target display using one is custom (index 255)
        return list(rng.choice(REALDEVICE_PRIMARIES))
    if k < 8:
        # a preset with one coordinate moved by one unit in the last place: must be encoded as custom
        p = list(rng.choice(COLORSPACE_PRIMARIES[:6]))
        i = rng.below(8)
        from fractions import Fraction
        v = Fraction(p[i]) + Fraction(rng.choice([1, -1]), rng.choice([10**6, 10**4, 10**3]))
        p[i] = dec(int(v * 10**6), 6)
        return p
    return [rand_dec(rng, 0.01, 0.9, rng.choice([3, 4, 5, 6])) for _ in range(8)]


def gen_targets(rng, version):
    n = rng.choice([0, 1, 1, 2, 2, 3, 3, 4, 5])
    ids = []
    while len(ids) < n:
        k = rng.below(10)
        if k < 5:
            i = rng.choice(PRESET_TARGETS)
        elif k < 8:
            i = rng.choice([255, 254, 2, 100, 200, 50, 17])
        else:
            i = 1 + rng.below(255)
        if i not in ids:
            ids.append(i)
    v5 = version.startswith("5")
    out = []
    for i in ids:
        t = {"id": i, "peak": rng.choice(NITS_POOL) if rng.chance(3, 4) else 1 + rng.below(10000),
             "min": rng.choice(MIN_POOL) if rng.chance(3, 4) else rand_dec(rng, 0, 1, 6),
             "prim": gen_primaries(rng), "app": "HOME"}
        if out and rng.chance(1, 4):
            # shared values between targets
            o = rng.choice(out)
            if rng.chance(1, 2):
                t["peak"] = o["peak"]
            if rng.chance(1, 2):
                t["prim"] = list(o["prim"])
            if rng.chance(1, 3):
                t["min"] = o["min"]
        if v5 and rng.chance(1, 4):
            t["app"] = rng.choice(["CINEMA", "ALL", "home", "Home Theater"])
        out.append(t)
    return out


def gen_levels(rng, doc, in_frame=False, beyond=True, l3_beyond=False, l2_ms_beyond=False, nonhome_trims=False):
    """level nodes of one shot / frame edit"""
    v29 = doc["version"] == "2.0.5"
    usable = [t["id"] for t in doc["targets"] if t["app"] == "HOME" or not doc["version"].startswith("5") or nonhome_trims]
    nodes = []
    if rng.chance(9, 10) if not in_frame else rng.chance(2, 3):
        nodes.append(("L1", [unit_value(rng) if rng.chance(1, 2) else rand_dec(rng, 0, 0.003, 6), unit_value(rng), unit_value(rng)]))
    if usable and rng.chance(3, 4):
        for tid in rng.shuffle(usable):
            if rng.chance(2, 3):
                tr = [trim_value(rng, beyond) for _ in range(9)]
                if not l2_ms_beyond:
                    from fractions import Fraction
                    if Fraction(tr[8]) < -1:
                        tr[8] = "-1"
                if rng.chance(1, 3):
                    tr[0] = tr[1] = tr[2] = "0"
                nodes.append(("L2", tid, tr))
    if not v29:
        if rng.chance(1, 2):
            vals = [trim_value(rng, l3_beyond) for _ in range(3)]
            if not l3_beyond:
                from fractions import Fraction
                vals = [v if Fraction(v) <= Fraction(9997, 10000) else "0.9997" for v in vals]
            nodes.append(("L3", vals))
    if rng.chance(1, 3):
        c = rng.choice(AR_POOL)
        k = rng.below(3)
        i = c if k == 0 else rng.choice(AR_POOL)
        nodes.append(("L5", [c, i]))
    if not v29:
        if usable and rng.chance(2, 3):
            for tid in rng.shuffle(usable):
                if rng.chance(1, 2):
                    zero6 = ["0"] * 6
                    shape = rng.below(6)
                    l8 = [trim_value(rng, beyond) for _ in range(6)]
                    mid = trim_value(rng, beyond) if shape >= 1 and rng.chance(2, 3) else "0"
                    clip = trim_value(rng, beyond) if shape >= 2 and rng.chance(2, 3) else "0"
                    sat = [trim_value(rng, beyond) if rng.chance(1, 2) else "0" for _ in range(6)] if shape >= 3 else zero6
                    hue = [trim_value(rng, beyond) if rng.chance(1, 2) else "0" for _ in range(6)] if shape >= 4 else zero6
                    if shape == 5:
                        # values that round to the default: must not lengthen the block
                        mid = rng.choice(["0.0001", "-0.0002", "0"])
                        clip = rng.choice(["0.0002", "0"])
                        sat = [rng.choice(["0.003", "0", "-0.0039"]) for _ in range(6)]
                        hue = [rng.choice(["0.0038", "0", "-0.001"]) for _ in range(6)]
                    nodes.append(("L8", tid, l8, mid, clip, sat, hue))
        if rng.chance(1, 2) if not in_frame else rng.chance(1, 4):
            nodes.append(("L9", gen_primaries(rng, for_l9=True)))
    if rng.chance(1, 6):
        nodes = rng.shuffle(nodes)
    return nodes


def gen_doc(rng, max_shots=5, max_dur=6, beyond=True, l3_beyond=False, l2_ms_beyond=False, nonhome_trims=False, frame_only=False):
    """knobs: `l3_beyond` L3 offsets above the 12-bit range (not encodable: an error is expected); the last three
    reach known deviations of the tool: `l2_ms_beyond` L2 ms-weight trims below -1, `nonhome_trims` (v5) trims that refer
    to a target display of another application type than HOME, `frame_only` shots without a dynamic-data node of their own
    whose frame edits carry one"""
    version = rng.choice(["2.0.5", "4.0.2", "4.0.2", "5.0.0", "5.1.0"])
    v29 = version == "2.0.5"
    doc = {"version": version, "version_attr": v29 if rng.chance(9, 10) else not v29}
    # aspect ratios: equal / wider / narrower than the canvas, or absent
    k = rng.below(10)
    if k == 0:
        doc["canvas_ar"], doc["image_ar"] = None, None
    elif k == 1:
        doc["canvas_ar"], doc["image_ar"] = rng.choice(AR_POOL), None
    else:
        c = rng.choice(AR_POOL) if rng.chance(3, 4) else rand_dec(rng, 1, 2.5, 5)
        if k < 4:
            i = c
        elif k < 8:
            i = rng.choice(AR_POOL)
        else:
            i = rand_dec(rng, 0.5, 3, rng.choice([2, 5, 6]))
        doc["canvas_ar"], doc["image_ar"] = c, i
    # L6
    if rng.chance(19, 20):
        def light(hi):
            k = rng.below(6)
            if k == 0:
                return "0"
            if k == 1:
                return str(rng.below(hi))
            if k == 2:
                return "%d.5" % rng.below(hi)
            return rand_dec(rng, 0, hi, rng.choice([1, 3, 3, 6]))
        doc["level6"] = {"maxcll": light(10000), "maxfall": light(2000)}
    else:
        doc["level6"] = None
    if rng.chance(19, 20):
        doc["mastering"] = {"min": rng.choice(MIN_POOL[:7]) if rng.chance(2, 3) else rand_dec(rng, 0, 0.9, 4 + rng.below(3)),
                            "peak": rng.choice([1000, 1000, 2000, 4000, 10000, 600, 1 + rng.below(10000)]),
                            "prim": gen_primaries(rng)}
    else:
        doc["mastering"] = None
    doc["level254"] = None
    doc["level11"] = None
    if not v29:
        if rng.chance(5, 6):
            doc["level254"] = rng.choice([(0, 2), (0, 2), (0, 2), (0, 0), (1, 2), (0, 1), (1, 0)])
        if rng.chance(1, 2):
            doc["level11"] = (rng.choice([0, 1, 2, 3, 4, 5, 6, 15]), rng.choice([0, 0, 1, 8, 15]))
    doc["targets"] = gen_targets(rng, version)
    # shots
    n = 1 + rng.below(max_shots)
    base = rng.choice([0, 86400, 86400, 1000])
    shots = []
    pos = base
    for _ in range(n):
        dur = 1 + rng.below(max_dur)
        st = pos
        k = rng.below(12)
        if k == 0 and shots:
            st = shots[-1]["start"]          # equal starts: the sort must be stable
        elif k == 1:
            st = pos + rng.below(20)         # gap
        s = {"uid": uid(rng), "start": st, "duration": dur,
             "levels": gen_levels(rng, doc, False, beyond, l3_beyond, l2_ms_beyond, nonhome_trims), "frames": []}
        if rng.chance(1, 14):
            s["levels"] = []                 # dynamic node present but empty
        for _ in range(rng.choice([0, 0, 0, 1, 1, 2, 3])):
            off = rng.choice([0, dur - 1, dur // 2, dur, dur + 2, rng.below(dur + 1)])
            s["frames"].append({"offset": off, "levels": gen_levels(rng, doc, True, beyond, l3_beyond, l2_ms_beyond, nonhome_trims)})
        if frame_only and rng.chance(1, 2):
            s["levels"] = None               # no dynamic-data node of its own
            if not s["frames"]:
                s["frames"].append({"offset": rng.below(dur), "levels": gen_levels(rng, doc, True, beyond, l3_beyond, l2_ms_beyond, nonhome_trims)})
        shots.append(s)
        pos = max(pos, st) + dur
    doc["shots"] = rng.shuffle(shots) if rng.chance(1, 2) else shots
    return doc


def gen_canvas(rng):
    """(canvas_width, canvas_height) CLI options; None = not given"""
    k = rng.below(10)
    if k < 6:
        return rng.choice(CANVAS_POOL)
    if k < 8:
        return (16 + rng.below(8000), 16 + rng.below(4400))
    if k == 8:
        return (None, None)
    return rng.choice([(3840, None), (None, 2160)])


# ---------------------------------------------------------------------------------------------
# renderer
# ---------------------------------------------------------------------------------------------

def _prim_xml(ind, prim, sep):
    return ("%s<Primaries>\n%s  <Red>%s</Red>\n%s  <Green>%s</Green>\n%s  <Blue>%s</Blue>\n%s</Primaries>\n%s<WhitePoint>%s</WhitePoint>\n"
            % (ind, ind, sep.join(prim[0:2]), ind, sep.join(prim[2:4]), ind, sep.join(prim[4:6]), ind, ind, sep.join(prim[6:8])))


def _levels_xml(ind, nodes, v29, sep):
    """the PluginNode (2.0.5: DolbyEDR level nodes; 4+: DVDynamicData with LevelN nodes)"""
    if nodes is None:
        return ""
    o = []
    i2 = ind + "  "
    if v29:
        o.append("%s<PluginNode>\n" % ind)
        tag = lambda lv: ("DolbyEDR", i2)
    else:
        o.append("%s<PluginNode>\n%s<DVDynamicData>\n" % (ind, i2))
        i2 = ind + "    "
        tag = lambda lv: ("Level%d" % lv, i2)
    for nd in nodes:
        lv = int(nd[0][1:])
        t, ii = tag(lv)
        o.append('%s<%s level="%d">\n' % (ii, t, lv))
        if nd[0] == "L1":
            o.append("%s  <ImageCharacter>%s</ImageCharacter>\n" % (ii, sep.join(nd[1])))
        elif nd[0] == "L2":
            o.append("%s  <TID>%d</TID>\n%s  <Trim>%s</Trim>\n" % (ii, nd[1], ii, sep.join(nd[2])))
        elif nd[0] == "L3":
            o.append("%s  <L1Offset>%s</L1Offset>\n" % (ii, sep.join(nd[1])))
        elif nd[0] == "L5":
            o.append("%s  <AspectRatios>%s</AspectRatios>\n" % (ii, sep.join(nd[1])))
        elif nd[0] == "L8":
            o.append("%s  <TID>%d</TID>\n%s  <L8Trim>%s</L8Trim>\n%s  <MidContrastBias>%s</MidContrastBias>\n"
                     "%s  <HighlightClipping>%s</HighlightClipping>\n%s  <SaturationVectorField>%s</SaturationVectorField>\n"
                     "%s  <HueVectorField>%s</HueVectorField>\n"
                     % (ii, nd[1], ii, sep.join(nd[2]), ii, nd[3], ii, nd[4], ii, sep.join(nd[5]), ii, sep.join(nd[6])))
        elif nd[0] == "L9":
            o.append("%s  <SourceColorModel>255</SourceColorModel>\n%s  <SourceColorPrimary>%s</SourceColorPrimary>\n"
                     % (ii, ii, sep.join(nd[1])))
        o.append("%s</%s>\n" % (ii, t))
    if v29:
        o.append("%s</PluginNode>\n" % ind)
    else:
        o.append("%s</DVDynamicData>\n%s</PluginNode>\n" % (ind + "  ", ind))
    return "".join(o)


def render(doc):
    """the XML text of the document, mirroring the layout of /repo/assets/tests/*.xml"""
    ver = doc["version"]
    v29 = ver == "2.0.5"
    v5 = ver.startswith("5")
    sep = "," if v29 else " "
    o = ['<?xml version="1.0" encoding="UTF-8"?>\n']
    if doc["version_attr"]:
        o.append('<DolbyLabsMDF version="%s" xmlns:xsd="http://www.w3.org/2001/XMLSchema" '
                 'xmlns:xsi="http://www.w3.org/2001/XMLSchema-instance">\n' % ver)
    else:
        o.append('<DolbyLabsMDF xmlns="http://www.dolby.com/schemas/dvmd/%s">\n  <Version>%s</Version>\n' % (ver.replace(".", "_"), ver))
    o.append("  <RevisionHistory>\n    <Revision>\n      <DateTime>2021-10-07T14:02:44Z</DateTime>\n      <Author>verif</Author>\n"
             "      <Software>xmlgen</Software>\n      <SoftwareVersion>1</SoftwareVersion>\n    </Revision>\n  </RevisionHistory>\n")
    o.append("  <Outputs>\n")
    if v29:
        o.append('    <Output name="Timeline 1">\n')
    else:
        o.append("    <Output>\n      <CompositionName>Timeline 1</CompositionName>\n")
    o.append("      <UniqueID>8cb19cc9-1950-4a3c-8850-7afdabbbf4fb</UniqueID>\n      <NumberVideoTracks>1</NumberVideoTracks>\n")
    if doc["canvas_ar"] is not None:
        o.append("      <CanvasAspectRatio>%s</CanvasAspectRatio>\n" % doc["canvas_ar"])
    if doc["image_ar"] is not None:
        o.append("      <ImageAspectRatio>%s</ImageAspectRatio>\n" % doc["image_ar"])
    o.append("      <Video>\n")
    if v29:
        o.append('        <Track name="V1">\n          <UniqueID>3cc5cc64-0afc-4653-bc2d-ead61d446a43</UniqueID>\n'
                 "          <Rate>\n            <n>24000</n>\n            <d>1001</d>\n          </Rate>\n")
    else:
        o.append("        <Track>\n          <TrackName>V1</TrackName>\n          <UniqueID>3cc5cc64-0afc-4653-bc2d-ead61d446a43</UniqueID>\n"
                 "          <EditRate>24000 1001</EditRate>\n")
    o.append("          <ColorEncoding>\n" + _prim_xml("            ", COLORSPACE_PRIMARIES[0], sep)
             + "            <PeakBrightness>10000</PeakBrightness>\n            <MinimumBrightness>0</MinimumBrightness>\n"
               "            <Encoding>pq</Encoding>\n            <ColorSpace>rgb</ColorSpace>\n            <SignalRange>computer</SignalRange>\n"
               "          </ColorEncoding>\n")
    if doc["level6"] is not None:
        o.append("          <Level6%s>\n            <MaxCLL>%s</MaxCLL>\n            <MaxFALL>%s</MaxFALL>\n          </Level6>\n"
                 % ("" if v29 else ' level="6"', doc["level6"]["maxcll"], doc["level6"]["maxfall"]))
    # global plugin node: mastering display, target displays, L11, L254
    o.append("          <PluginNode>\n")
    if v29:
        o.append("            <DolbyEDR>\n              <AlgorithmVersions>2,1</AlgorithmVersions>\n              <Characteristics level=\"0\">\n")
        ind = "                "
        lv0 = ' level="0"'
    else:
        o.append('            <DVGlobalData level="0">\n')
        ind = "              "
        lv0 = ""
    m = doc["mastering"]
    if m is not None:
        o.append("%s<MasteringDisplay%s>\n%s  <ID>20</ID>\n" % (ind, lv0, ind))
        if v5:
            o.append("%s  <ApplicationType>ALL</ApplicationType>\n" % ind)
        o.append("%s  <Name>mastering</Name>\n" % ind + _prim_xml(ind + "  ", m["prim"], sep))
        o.append("%s  <PeakBrightness>%d</PeakBrightness>\n%s  <MinimumBrightness>%s</MinimumBrightness>\n%s  <DiagonalSize>42</DiagonalSize>\n"
                 "%s</MasteringDisplay>\n" % (ind, m["peak"], ind, m["min"], ind, ind))
    for t in doc["targets"]:
        o.append("%s<TargetDisplay%s>\n%s  <ID>%d</ID>\n" % (ind, lv0, ind, t["id"]))
        if v5:
            o.append("%s  <ApplicationType>%s</ApplicationType>\n" % (ind, t["app"]))
        o.append("%s  <Name>target %d</Name>\n" % (ind, t["id"]) + _prim_xml(ind + "  ", t["prim"], sep))
        o.append("%s  <PeakBrightness>%d</PeakBrightness>\n%s  <MinimumBrightness>%s</MinimumBrightness>\n%s  <%s>pq</%s>\n"
                 "%s  <DiagonalSize>42</DiagonalSize>\n%s</TargetDisplay>\n"
                 % (ind, t["peak"], ind, t["min"], ind, "Encoding" if v29 else "EOTF", "Encoding" if v29 else "EOTF", ind, ind))
    if v29:
        o.append("              </Characteristics>\n            </DolbyEDR>\n")
    else:
        o.append("            </DVGlobalData>\n")
        if doc["level11"] is not None:
            o.append('            <Level11 level="11">\n              <ContentType>%d</ContentType>\n'
                     "              <IntendedWhitePoint>%d</IntendedWhitePoint>\n            </Level11>\n" % doc["level11"])
        if doc["level254"] is not None:
            o.append('            <Level254 level="254">\n              <DMMode>%d</DMMode>\n              <DMVersion>%d</DMVersion>\n'
                     "              <CMVersion>4 %d</CMVersion>\n            </Level254>\n"
                     % (doc["level254"][0], doc["level254"][1], 2 if v5 else 0))
    o.append("          </PluginNode>\n")
    for s in doc["shots"]:
        o.append("          <Shot>\n            <UniqueID>%s</UniqueID>\n" % s["uid"])
        if v29:
            o.append("            <Source>\n              <ParentID>af100c4b-8711-440e-a08a-1f74116d7f93</ParentID>\n"
                     "              <In>0</In>\n            </Source>\n")
        o.append("            <Record>\n              <In>%d</In>\n              <Duration>%d</Duration>\n            </Record>\n"
                 % (s["start"], s["duration"]))
        own = _levels_xml("            ", s["levels"], v29, sep)
        fr = []
        for f in s["frames"]:
            fr.append("            <Frame>\n              <EditOffset>%d</EditOffset>\n" % f["offset"])
            fr.append(_levels_xml("              ", f["levels"], v29, sep))
            fr.append("            </Frame>\n")
        # child order is free in the document: one shot in three writes its Frame nodes before its own PluginNode
        # (decided from the shot's data, so that a document renders the same way every time)
        if s["frames"] and (s["start"] + s["duration"] + len(s["frames"])) % 3 == 0:
            o.extend(fr)
            o.append(own)
        else:
            o.append(own)
            o.extend(fr)
        o.append("          </Shot>\n")
    o.append("        </Track>\n      </Video>\n    </Output>\n  </Outputs>\n</DolbyLabsMDF>\n")
    return "".join(o)


def describe(doc):
    """histogram keys of a document (input distribution in the evidence)"""
    keys = ["version=" + doc["version"], "shots=%d" % len(doc["shots"]), "targets=%d" % len(doc["targets"])]
    starts = [s["start"] for s in doc["shots"]]
    keys.append("order=" + ("sorted" if starts == sorted(starts) else "shuffled"))
    if len(set(starts)) < len(starts):
        keys.append("equal-starts")
    ne = sum(len(s["frames"]) for s in doc["shots"])
    keys.append("frame-edits=%s" % (ne if ne < 4 else "4+"))
    if doc["canvas_ar"] is None or doc["image_ar"] is None:
        keys.append("ar=absent")
    else:
        from fractions import Fraction
        c, i = Fraction(doc["canvas_ar"]), Fraction(doc["image_ar"])
        keys.append("ar=" + ("equal" if c == i else "wider" if i > c else "narrower"))
    for t in doc["targets"]:
        keys.append("target-id=" + ("preset" if t["id"] in PRESET_TARGETS else "custom"))
        keys.append("target-app=" + ("HOME" if t["app"] == "HOME" else "other"))
    for s in doc["shots"]:
        for nd in (s["levels"] or []):
            keys.append("shot-node=" + nd[0])
        for f in s["frames"]:
            for nd in (f["levels"] or []):
                keys.append("edit-node=" + nd[0])
    return keys


# ---------------------------------------------------------------------------------------------
# reader (independent of the tool: xml.etree) — used to put the repository's own sample documents
# through the specification
# ---------------------------------------------------------------------------------------------

def from_xml(text):
    import re
    import xml.etree.ElementTree as ET
    root = ET.fromstring(text.encode() if isinstance(text, str) else text)
    for e in root.iter():
        e.tag = re.sub(r"^\{[^}]*\}", "", e.tag)
    doc = {}
    if root.get("version") is not None:
        doc["version"], doc["version_attr"] = root.get("version"), True
    else:
        doc["version"], doc["version_attr"] = root.find("Version").text, False
    v29 = doc["version"] == "2.0.5"
    sep = "," if v29 else " "
    out = next(root.iter("Output"))
    txt = lambda n, tag: (n.find(tag).text if n.find(tag) is not None else None)
    doc["canvas_ar"], doc["image_ar"] = txt(out, "CanvasAspectRatio"), txt(out, "ImageAspectRatio")
    video = next(out.iter("Video"))
    l6 = next(video.iter("Level6"), None)
    doc["level6"] = None if l6 is None else {"maxcll": txt(l6, "MaxCLL") or "0", "maxfall": txt(l6, "MaxFALL") or "0"}

    def prims(n):
        p = next(n.iter("Primaries"))
        return (p.find("Red").text.split(sep) + p.find("Green").text.split(sep) + p.find("Blue").text.split(sep)
                + n.find("WhitePoint").text.split(sep))
    md = next(video.iter("MasteringDisplay"), None)
    doc["mastering"] = None if md is None else {"min": txt(md, "MinimumBrightness"), "peak": int(txt(md, "PeakBrightness")), "prim": prims(md)}
    l254 = next(video.iter("Level254"), None)
    doc["level254"] = None if l254 is None else (int(txt(l254, "DMMode") or 0), int(txt(l254, "DMVersion") or 2))
    l11 = next(video.iter("Level11"), None)
    doc["level11"] = None
    if l11 is not None and txt(l11, "ContentType") is not None and txt(l11, "IntendedWhitePoint") is not None:
        doc["level11"] = (int(txt(l11, "ContentType")), int(txt(l11, "IntendedWhitePoint")))
    doc["targets"] = [{"id": int(txt(t, "ID")), "peak": int(txt(t, "PeakBrightness")), "min": txt(t, "MinimumBrightness"),
                       "prim": prims(t), "app": txt(t, "ApplicationType") or "HOME"} for t in video.iter("TargetDisplay")]

    def levels(n):
        dyn = next(n.iter("PluginNode" if v29 else "DVDynamicData"), None)
        if dyn is None:
            return None
        nodes = []
        for ln in dyn:
            lv = ln.get("level")
            if lv == "1":
                nodes.append(("L1", txt(ln, "ImageCharacter").split(sep)))
            elif lv == "2":
                nodes.append(("L2", int(txt(ln, "TID")), txt(ln, "Trim").split(sep)))
            elif lv == "3":
                nodes.append(("L3", txt(ln, "L1Offset").split(sep)))
            elif lv == "5":
                nodes.append(("L5", txt(ln, "AspectRatios").split(sep)))
            elif lv == "8":
                nodes.append(("L8", int(txt(ln, "TID")), txt(ln, "L8Trim").split(sep), txt(ln, "MidContrastBias"),
                              txt(ln, "HighlightClipping"), txt(ln, "SaturationVectorField").split(sep),
                              txt(ln, "HueVectorField").split(sep)))
            elif lv == "9":
                nodes.append(("L9", txt(ln, "SourceColorPrimary").split(sep)))
        return nodes
    doc["shots"] = []
    for s in video.iter("Shot"):
        rec = s.find("Record")
        frames = [{"offset": int(txt(f, "EditOffset")), "levels": levels(f)} for f in s.findall("Frame")]
        own = s.find("PluginNode")
        doc["shots"].append({"uid": txt(s, "UniqueID"), "start": int(txt(rec, "In")), "duration": int(txt(rec, "Duration")),
                             "levels": levels(own) if own is not None else None, "frames": frames})
    return doc
