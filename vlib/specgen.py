"""Independent RPU encoder written from the syntax table (DESIGN.md Appendix B), used as the
type-directed generator of mostly-valid RPUs and as the independent reference for C02: every generated
RPU comes with the JSON a faithful parser must report for it (derived from the chosen syntax values,
never from the implementation). All randomness derives from one Lcg state."""
import json
from .common import Lcg


class _R:
    """random.Random-like adapter over the check's Lcg"""
    def __init__(self, lcg): self.l = lcg
    def choice(self, xs): return xs[self.l.below(len(xs))]
    def randint(self, a, b): return a + self.l.below(b - a + 1)
    def random(self): return self.l.below(1 << 30) / float(1 << 30)
    def shuffle(self, xs):
        for i in range(len(xs) - 1, 0, -1):
            j = self.l.below(i + 1); xs[i], xs[j] = xs[j], xs[i]


R = _R(Lcg(1))
# probability with which the encoder emits extreme / invalid codes (C08 only; 0 = valid syntax only)
EXTREME = 0.0
# probability of a huge signed coefficient integer part (C01: parse/write asymmetry of se(v) above 2^53)
BIG_SE = 0.0
# probability that a container carries one block of a level that does not exist (the parser must reject the RPU)
UNKNOWN_LEVEL = 0.0


def seed(lcg):
    global R
    R = _R(lcg)


class BW:
    def __init__(s): s.b=[]
    def u(s,n,v):
        assert 0 <= v < (1<<n), (n,v)
        for i in range(n-1,-1,-1): s.b.append((v>>i)&1)
    def bit(s,v): s.b.append(1 if v else 0)
    def ue(s,v):
        if EXTREME and R.random() < EXTREME:
            k = pick(0, 1, 2, 3)
            if k == 0:
                # 64 (or more) leading zeros: beyond what a u64 code can carry
                z = pick(64, 64, 65, 70, 100)
                s.b += [0]*z + [1] + [R.randint(0,1) for _ in range(min(z,64))]
                return
            v = pick(2**64-2, 2**63-1, 2**63, 2**32-1, 2**32, 2**31, 2**16, 65535, 255, 256, R.randint(0, 2**64-2))
        v+=1; n=v.bit_length(); s.u(n-1,0) if n>1 else None; s.u(n,v)
    def se(s,v):
        s.ue(2*v-1 if v>0 else -2*v)
    def s_(s,n,v):
        s.u(n, v & ((1<<n)-1))
    def align(s):
        while len(s.b)%8: s.b.append(0)
    def bytes(s):
        assert len(s.b)%8==0
        return bytes(int("".join(map(str,s.b[i:i+8])),2) for i in range(0,len(s.b),8))

def crc32_mpeg2(data):
    crc=0xFFFFFFFF
    for byte in data:
        crc ^= byte<<24
        for _ in range(8):
            crc = ((crc<<1)^0x04C11DB7)&0xFFFFFFFF if crc&0x80000000 else (crc<<1)&0xFFFFFFFF
    return crc

def pick(*xs): return R.choice(xs)
def val(n):  # boundary-biased n-bit value
    m=(1<<n)-1
    return pick(0,m,1,m-1,1<<(n-1),(1<<(n-1))-1,R.randint(0,m),R.randint(0,m))
def uev(): return pick(0,1,2,3,R.randint(0,40),R.randint(0,70000), R.randint(0,2**33))
def sev(): 
    v=pick(0,1,-1,2,-2,R.randint(-40,40),R.randint(-2**20,2**20),R.randint(-2**40,2**40))
    # rarely: integer parts whose exp-Golomb code number exceeds 2^53 (third-party get_se goes through f64)
    if BIG_SE and R.random() < BIG_SE:
        v=pick(-(2**52+1), 2**52+1, -(2**53+3), 2**55+1, -(2**60+5), 2**61+7, -(2**52), 2**52)
    return v

def gen_block(level, w, js):
    def f(name,n,v=None):
        v = val(n) if v is None else v; w.u(n,v); return (name,v)
    if level==1:
        fl=[f('min_pq',12),f('max_pq',12),f('avg_pq',12)]; ln=5; bits=36; name='Level1'
    elif level==2:
        fl=[f('target_max_pq',12),f('trim_slope',12),f('trim_offset',12),f('trim_power',12),f('trim_chroma_weight',12),f('trim_saturation_gain',12)]
        ms=pick(-1,0,2048,4095,R.randint(-1,4095)); w.s_(13,ms); fl.append(('ms_weight',ms)); ln=11; bits=85; name='Level2'
    elif level==3:
        fl=[f('min_pq_offset',12),f('max_pq_offset',12),f('avg_pq_offset',12)]; ln=5; bits=36; name='Level3'
    elif level==4:
        fl=[f('anchor_pq',12),f('anchor_power',12)]; ln=3; bits=24; name='Level4'
    elif level==5:
        fl=[f('active_area_left_offset',13),f('active_area_right_offset',13),f('active_area_top_offset',13),f('active_area_bottom_offset',13)]; ln=7; bits=52; name='Level5'
    elif level==6:
        lv=lambda: pick(0,10000,1000,R.randint(0,10000))
        fl=[f('max_display_mastering_luminance',16,lv()),f('min_display_mastering_luminance',16,lv()),f('max_content_light_level',16,lv()),f('max_frame_average_light_level',16,lv())]; ln=8; bits=64; name='Level6'
    elif level==8:
        ln=pick(10,12,13,19,25) if not (EXTREME and R.random()<0.3) else pick(9,11,14,18,20,24,26,0,255); name='Level8'
        fl=[('length',ln)]
        fl+= [f('target_display_index',8)]+[f(n_,12) for n_ in ('trim_slope','trim_offset','trim_power','trim_chroma_weight','trim_saturation_gain','ms_weight')]
        bits=80
        if ln>10: fl.append(f('target_mid_contrast',12)); bits=92
        if ln>12: fl.append(f('clip_trim',12)); bits=104
        if ln>13: fl+=[f('saturation_vector_field%d'%i,8) for i in range(6)]; bits=152
        if ln>19: fl+=[f('hue_vector_field%d'%i,8) for i in range(6)]; bits=200
    elif level==9:
        ln=pick(1,17) if not (EXTREME and R.random()<0.3) else pick(0,2,16,18,33); name='Level9'; fl=[('length',ln)]
        if ln==1: fl.append(f('source_primary_index',8,R.randint(0,254))); bits=8
        else:
            fl.append(f('source_primary_index',8,255)); bits=136
            fl+=[f('source_primary_'+c+'_'+a,16,R.randint(1,65535)) for c in ('red','green','blue','white') for a in ('x','y')]
    elif level==10:
        ln=pick(5,21) if not (EXTREME and R.random()<0.3) else pick(4,6,20,22,0); name='Level10'; fl=[('length',ln)]
        idx=R.choice([i for i in range(256) if i not in (1,16,18,21,27,28,37,38,42,48,49)])
        fl+=[f('target_display_index',8,idx),f('target_max_pq',12),f('target_min_pq',12)]
        if ln==5: fl.append(f('target_primary_index',8,R.randint(0,254))); bits=40
        else:
            fl.append(f('target_primary_index',8,255)); bits=168
            fl+=[f('target_primary_'+c+'_'+a,16,R.randint(1,65535)) for c in ('red','green','blue','white') for a in ('x','y')]
    elif level==11:
        ct=R.randint(0,15); wp=R.randint(0,15); ref=pick(True,False)
        w.u(8,ct); w.u(8,wp+(16 if ref else 0)); w.u(8,0); w.u(8,0)
        fl=[('content_type',ct),('whitepoint',wp),('reference_mode_flag',ref),('reserved_byte2',0),('reserved_byte3',0)]; ln=4; bits=32; name='Level11'
    elif level==254:
        fl=[f('dm_mode',8),f('dm_version_index',8)]; ln=2; bits=16; name='Level254'
    elif level==255:
        fl=[f('dm_run_mode',8),f('dm_run_version',8)]+[f('dm_debug%d'%i,8) for i in range(4)]; ln=6; bits=48; name='Level255'
    return name, dict(fl), ln, bits

def gen_container(w, levels):
    unk = None
    if UNKNOWN_LEVEL and R.random() < UNKNOWN_LEVEL:
        unk = (R.randint(0, len(levels)), pick(0, 7, 12, 13, 100, 253), pick(0, 1, 4, 11))
    w.ue(len(levels) + (1 if unk else 0)); w.align()
    out=[]
    for k, lv in enumerate(list(levels) + [None]):
        if unk and unk[0] == k:
            w.ue(unk[2]); w.u(8, unk[1])
            for _ in range(unk[2] * 8): w.b.append(0)
        if lv is None:
            break
        # need length before payload: generate into temp writer
        t=BW(); name,fields,ln,bits=gen_block(lv,t,None)
        w.ue(ln); w.u(8,lv); w.b+=t.b
        for _ in range(ln*8-bits): w.b.append(0)
        out.append({name:fields})
    return {'num_ext_blocks':len(levels),'ext_metadata_blocks':out}

def gen_rpu():
    w=BW(); w.u(8,0x19)
    cls=pick('8','8','5','7','7mel','4','0a','0b')
    H={}
    H['rpu_nal_prefix']=25; H['rpu_type']=2
    H['rpu_format']=pick(18,18,19)
    H['vdr_rpu_profile']={'8':1,'5':0,'7':1,'7mel':1,'4':1,'0a':0,'0b':R.randint(2,15)}[cls]
    H['vdr_rpu_level']=0; H['vdr_seq_info_present_flag']=True
    H['chroma_resampling_explicit_filter_flag']=pick(True,False)
    H['coefficient_data_type']=pick(0,0,0,1)
    H['coefficient_log2_denom']=pick(23,0,1,R.randint(0,23)) if H['coefficient_data_type']==0 else 0
    H['coefficient_log2_denom_length']=H['coefficient_log2_denom'] if H['coefficient_data_type']==0 else 32
    H['vdr_rpu_normalized_idc']=R.randint(0,3)
    H['bl_video_full_range_flag']={'5':True,'0a':False}.get(cls,pick(True,False))
    H['bl_bit_depth_minus8']=2; H['el_bit_depth_minus8']=2
    ext=pick(0,0,R.randint(0,255)); H['ext_mapping_idc_0_4']=ext&0x1f; H['ext_mapping_idc_5_7']=ext>>5
    H['vdr_bit_depth_minus8']={'7':4,'7mel':4,'4':pick(0,2,6)}.get(cls,pick(4,4,0,6))
    H['spatial_resampling_filter_flag']=pick(True,False)
    H['reserved_zero_3bits']=pick(0,0,0,1,R.randint(2,7))
    dual = cls in ('7','7mel','4')
    if cls in ('0a','0b'): dual=pick(True,False)
    H['el_spatial_resampling_filter_flag']= True if cls in('7','7mel','4') else (pick(True,False) if cls in('0a','0b','5') else False)
    H['disable_residual_flag']= not dual
    if cls=='5': H['el_spatial_resampling_filter_flag']=pick(True,False)
    # both flags set (never produced by the tool itself): still profile 8 by the classification rule
    if cls=='8' and pick(0,0,0,1): H['el_spatial_resampling_filter_flag']=True
    H['vdr_dm_metadata_present_flag']=pick(True,True,True,False)
    H['use_prev_vdr_rpu_flag']=pick(False,False,False,True)
    H['prev_vdr_rpu_id']=uev() if H['use_prev_vdr_rpu_flag'] else 0
    w.u(6,2); w.u(11,H['rpu_format']); w.u(4,H['vdr_rpu_profile']); w.u(4,0); w.bit(1)
    w.bit(H['chroma_resampling_explicit_filter_flag']); w.u(2,H['coefficient_data_type'])
    if H['coefficient_data_type']==0: w.ue(H['coefficient_log2_denom'])
    w.u(2,H['vdr_rpu_normalized_idc']); w.bit(H['bl_video_full_range_flag'])
    w.ue(2); w.ue((ext<<8)|2); w.ue(H['vdr_bit_depth_minus8'])
    w.bit(H['spatial_resampling_filter_flag']); w.u(3,H['reserved_zero_3bits']); w.bit(H['el_spatial_resampling_filter_flag']); w.bit(H['disable_residual_flag'])
    w.bit(H['vdr_dm_metadata_present_flag']); w.bit(H['use_prev_vdr_rpu_flag'])
    if H['use_prev_vdr_rpu_flag']: w.ue(H['prev_vdr_rpu_id'])
    t0=H['coefficient_data_type']==0; L=H['coefficient_log2_denom_length']
    # profile
    p=H['vdr_rpu_profile']
    if p==0: prof=5 if H['bl_video_full_range_flag'] else 0
    elif p==1:
        prof=(7 if H['vdr_bit_depth_minus8']==4 else 4) if (H['el_spatial_resampling_filter_flag'] and not H['disable_residual_flag']) else 8
    else: prof=0
    J={'dovi_profile':prof}
    M=None; el=None
    if not H['use_prev_vdr_rpu_flag']:
        M={'vdr_rpu_id':uev(),'mapping_color_space':0,'mapping_chroma_format_idc':0}
        w.ue(M['vdr_rpu_id']); w.ue(0); w.ue(0)
        curves=[]
        for c in range(3):
            n=R.randint(0,7); w.ue(n); piv=[val(10) for _ in range(n+2)]
            for x in piv: w.u(10,x)
            curves.append({'num_pivots_minus2':n,'pivots':piv})
        nlq_present = not H['disable_residual_flag']
        if nlq_present:
            w.u(3,0)
            a=R.randint(0,1023); pv=[a,1023-a] if prof==7 else [val(10),val(10)]
            for x in pv: w.u(10,x)
        xp=uev(); yp=uev(); w.ue(xp); w.ue(yp)
        M['num_x_partitions_minus1']=xp; M['num_y_partitions_minus1']=yp
        for c in range(3):
            cv=curves[c]; pieces=cv['num_pivots_minus2']+1
            method=pick('poly','mmr')
            if method=='poly':
                cv['mapping_idc']='Polynomial'; po=[];li=[];ci=[];cf=[]
                for _ in range(pieces):
                    w.ue(0); o=pick(0,1); w.ue(o); po.append(o)
                    if o==0: w.bit(0)
                    li.append(False); a=[];b=[]
                    for _ in range(o+2):
                        if t0: x=sev(); w.se(x); a.append(x)
                        y=val(L) if L else 0; w.u(L,y); b.append(y)
                    ci.append(a); cf.append(b)
                cv.update({'poly_order_minus1':po,'linear_interp_flag':li,'poly_coef_int':ci,'poly_coef':cf})
            else:
                cv['mapping_idc']='MMR'; mo=[];kci=[];kc=[];ci=[];cf=[]
                for _ in range(pieces):
                    w.ue(1); o=R.randint(0,2); w.u(2,o); mo.append(o)
                    if t0: x=sev(); w.se(x); kci.append(x)
                    y=val(L) if L else 0; w.u(L,y); kc.append(y)
                    A=[];B=[]
                    for _ in range(o+1):
                        a=[];b=[]
                        for _ in range(7):
                            if t0: x=sev(); w.se(x); a.append(x)
                            y=val(L) if L else 0; w.u(L,y); b.append(y)
                        A.append(a);B.append(b)
                    ci.append(A);cf.append(B)
                cv.update({'mmr_order_minus1':mo,'mmr_constant_int':kci,'mmr_constant':kc,'mmr_coef_int':ci,'mmr_coef':cf})
        M['curves']=curves
        if nlq_present:
            M['nlq_method_idc']='LinearDeadzone'; M['nlq_num_pivots_minus2']=0; M['nlq_pred_pivot_value']=pv
            mel = (cls=='7mel') or (R.random()<0.15)
            # near-MEL: the MEL point with exactly one (field, component) moved off it — each of the seven
            # fields must on its own turn the classification to FEL
            near = None
            if R.random()<0.2:
                mel = True
                near = (pick('nlq_offset','vdr_in_max_int','vdr_in_max','linear_deadzone_slope_int','linear_deadzone_slope','linear_deadzone_threshold_int','linear_deadzone_threshold'), R.randint(0,2))
            N={k:[0,0,0] for k in ('nlq_offset','vdr_in_max_int','vdr_in_max','linear_deadzone_slope_int','linear_deadzone_slope','linear_deadzone_threshold_int','linear_deadzone_threshold')}
            for c in range(3):
                def ufield(ki,kf,force_i=None):
                    if t0:
                        x = force_i if force_i is not None else uev()
                        if near==(ki,c): x = pick(0,2,5) if force_i==1 else pick(1,2,1000)
                        w.ue(x); N[ki][c]=x
                    y = 0 if (mel or L==0) else val(L)
                    if near==(kf,c) and L>0: y = pick(1,(1<<L)-1,R.randint(1,(1<<L)-1))
                    w.u(L,y); N[kf][c]=y
                off = 0 if mel else val(10)
                if near==('nlq_offset',c): off = pick(1,1023,R.randint(1,1023))
                w.u(10,off); N['nlq_offset'][c]=off
                ufield('vdr_in_max_int','vdr_in_max', 1 if mel else None)
                ufield('linear_deadzone_slope_int','linear_deadzone_slope', 0 if mel else None)
                ufield('linear_deadzone_threshold_int','linear_deadzone_threshold', 0 if mel else None)
            M['nlq']=N
            is_mel = all(v==0 for v in N['nlq_offset']) and all(v==1 for v in N['vdr_in_max_int']) and all(all(v==0 for v in N[k]) for k in ('vdr_in_max','linear_deadzone_slope_int','linear_deadzone_slope','linear_deadzone_threshold_int','linear_deadzone_threshold'))
            el='MEL' if is_mel else 'FEL'
    if el: J['el_type']=el
    J['header']=H
    if M is not None: J['rpu_data_mapping']=M
    has40=False
    if H['vdr_dm_metadata_present_flag']:
        D={'compressed': H['reserved_zero_3bits']==1}
        D['affected_dm_metadata_id']=R.randint(0,15); D['current_dm_metadata_id']=uev(); D['scene_refresh_flag']=pick(0,1,1,uev())
        w.ue(D['affected_dm_metadata_id']); w.ue(D['current_dm_metadata_id']); w.ue(D['scene_refresh_flag'])
        names=['ycc_to_rgb_coef%d'%i for i in range(9)]+['ycc_to_rgb_offset%d'%i for i in range(3)]+['rgb_to_lms_coef%d'%i for i in range(9)]+['signal_eotf','signal_eotf_param0','signal_eotf_param1','signal_eotf_param2','signal_bit_depth','signal_color_space','signal_chroma_format','signal_full_range_flag','source_min_pq','source_max_pq','source_diagonal']
        for n_ in names: D[n_]=0
        if not D['compressed']:
            for i in range(9):
                v=pick(0,-1,32767,-32768,R.randint(-32768,32767)); w.s_(16,v); D['ycc_to_rgb_coef%d'%i]=v
            for i in range(3): v=val(32); w.u(32,v); D['ycc_to_rgb_offset%d'%i]=v
            for i in range(9):
                v=pick(0,-1,32767,-32768,R.randint(-32768,32767)); w.s_(16,v); D['rgb_to_lms_coef%d'%i]=v
            if pick(True,False): e,p0,p1,p2=65535,0,0,0
            else: e,p0,p1,p2=val(16),R.randint(1,65535),val(16),val(32)
            for n_,n,v in (('signal_eotf',16,e),('signal_eotf_param0',16,p0),('signal_eotf_param1',16,p1),('signal_eotf_param2',32,p2),('signal_bit_depth',5,R.randint(8,16)),('signal_color_space',2,None),('signal_chroma_format',2,None),('signal_full_range_flag',2,None),('source_min_pq',12,None),('source_max_pq',12,None),('source_diagonal',10,None)):
                v=val(n) if v is None else v; w.u(n,v); D[n_]=v
        # containers
        lv29=[]
        for lv,mx in ((1,1),(2,8),(4,1),(5,1),(6,1),(255,1)):
            k = R.randint(0,mx) if mx>1 else pick(0,1,1)
            if R.random()<0.1: k=mx
            lv29+=[lv]*k
        if R.random()<0.5: R.shuffle(lv29)
        D['cmv29_metadata']=gen_container(w,lv29)
        has40=pick(True,True,False)
        if has40:
            lv40=[254]
            for lv,mx in ((3,1),(8,5),(9,1),(10,4),(11,1)):
                k = R.randint(0,mx) if mx>1 else pick(0,1,1)
                if R.random()<0.1: k=mx
                lv40+=[lv]*k
            if R.random()<0.5: R.shuffle(lv40)
            D['cmv40_metadata']=gen_container(w,lv40)
        J['vdr_dm_data']=D
    w.align()
    # remaining data
    rem=b''
    if not H['vdr_dm_metadata_present_flag'] or has40:
        rem=bytes(R.randint(0,255) for _ in range(pick(0,0,0,1,2,5)))
    elif R.random()<0.2: rem=bytes([R.randint(0,255)])
    if rem:
        for byte in rem: w.u(8,byte)
        J['remaining']=[(byte>>(7-i))&1 for byte in rem for i in range(8)]
    body=w.bytes()
    c=crc32_mpeg2(body[1:])
    J['rpu_data_crc32']=c
    out=body+c.to_bytes(4,'big')+b'\x80'+b'\x00'*pick(0,0,0,1,2,3)
    return out,J


def repair_crc(data):
    """recompute the CRC of a prefix-less RPU (trailing zeros kept)"""
    tz = len(data) - len(data.rstrip(b"\x00"))
    end = len(data) - tz
    if end < 7:
        return data
    body = data[:end - 5]
    c = crc32_mpeg2(body[1:])
    return body + c.to_bytes(4, "big") + data[end - 1:end] + data[end:]


def escape(payload):
    out = bytearray()
    for b in payload:
        if len(out) > 2 and out[-2] == 0 and out[-1] == 0 and b <= 3:
            out.append(3)
        out.append(b)
    return bytes(out)


def tags(J):
    """coarse classification of a generated RPU for the input-distribution histogram"""
    t = ["profile=%s" % J["dovi_profile"], "el=%s" % J.get("el_type", "-"),
         "coef_type=%d" % J["header"]["coefficient_data_type"],
         "use_prev=%d" % J["header"]["use_prev_vdr_rpu_flag"],
         "dm=%d" % J["header"]["vdr_dm_metadata_present_flag"],
         "compressed=%d" % (J["header"]["reserved_zero_3bits"] == 1),
         "cmv40=%d" % ("cmv40_metadata" in J.get("vdr_dm_data", {})),
         "remaining=%d" % ("remaining" in J)]
    m = J.get("rpu_data_mapping")
    if m:
        for c in m["curves"]:
            t.append("curve=%s/%d" % (c["mapping_idc"], c["num_pivots_minus2"] + 2))
    if m and m.get("nlq"):
        N = m["nlq"]
        dev = [k for k in N for v in N[k] if v != (1 if k == "vdr_in_max_int" else 0)]
        t.append("nlq=mel" if not dev else ("nlq=near-mel:" + dev[0] if len(dev) == 1 else "nlq=fel"))
    d = J.get("vdr_dm_data")
    if d:
        for k in ("cmv29_metadata", "cmv40_metadata"):
            for b in d.get(k, {}).get("ext_metadata_blocks", []):
                name = list(b)[0]
                t.append("block=%s%s" % (name, ("/len%d" % b[name]["length"]) if "length" in b[name] else ""))
    return t


def gen_st2094(lcg):
    """a structurally valid ST 2094-10 ITU-T T.35 SEI payload (CM data or DM data), written from the syntax in
    dolby_vision/src/st2094_10/itu_t35/*.rs' doc reference (DASH-IF IOP, Dolby Vision): every loop and option
    exercised; EXTREME applies to the exp-Golomb codes as for RPUs"""
    seed(lcg)
    w = BW()
    w.u(8, 0xB5); w.u(16, 0x31); w.u(32, 0x47413934)
    kind = pick(8, 8, 8, 9)
    w.u(8, kind)
    if kind == 9:
        w.ue(uev() % 50); w.ue(uev() % 50)
        refresh = pick(True, True, False)
        w.bit(refresh)
        if refresh:
            gen_container(w, [1, 2, 4, 5, 6, 255])
    else:
        w.u(4, val(4)); w.u(4, val(4))
        denom = pick(0, 1, 5, 23, 23, 32, 40, 64, 65, 2**32 + 5)
        w.ue(denom)
        L = denom % 2**32
        bl, el, hdr = pick(0, 2, 8, 8, 9), pick(0, 2, 2, 8, 9), pick(0, 4, 8)
        w.ue(bl); w.ue(el); w.ue(hdr)
        dis = pick(True, False)
        w.bit(dis)
        elb = (el + 8) if el <= 8 else 10
        ns = []
        for _ in range(3):
            n = pick(0, 0, 1, 3, 7)
            ns.append(n)
            w.ue(n)
            for _ in range(n + 2):
                w.u(elb, val(elb))

        def frac():
            if 0 < L <= 64:
                w.u(L, val(L))

        for n in ns:
            for _ in range(n + 1):
                idc = pick(0, 0, 1, 1, 2, 5)
                w.ue(idc)
                if idc == 0:
                    order = pick(0, 1, 1, 2, 5)
                    w.ue(order)
                    for _ in range(order + 2):
                        w.se(sev()); frac()
                elif idc == 1:
                    order = pick(0, 1, 2, 3)
                    w.u(2, order)
                    w.se(sev()); frac()
                    for _ in range(order + 1):
                        for _ in range(7):
                            w.se(sev()); frac()
        if not dis:
            for _ in range(3):
                w.u(elb, val(elb))
                w.ue(uev()); frac(); w.ue(uev()); frac(); w.ue(uev()); frac()
        # trailing bits / bytes as an encoder would leave them
        w.bit(1)
    w.align()
    out = w.bytes() + bytes(R.randint(0, 255) for _ in range(pick(0, 0, 1, 4)))
    return out
