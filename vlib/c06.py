"""C06 — mux and demux are inverse; layers stay frame-aligned.

Direct oracle on the real binary: dual-layer streams and (BL, EL) pairs from vlib/hevcgen.py;
chains demux -> mux -> demux, every file compared with the reference interleave / split of vlib/hevcref.py;
EL longer than BL must end with an error and an output trimmed to the BL length; EL shorter: BL conserved."""
import os

from . import common
from . import hevcgen as H
from . import hevcmodel as M
from . import hevcref as F
from . import hevcrun as R

HOOK = "DOVI_TOOL_VERIF_CHUNK_SIZE"
HOOK_EL = "DOVI_TOOL_VERIF_EL_CHUNK_SIZE"
REAL_CHUNK = 100000


def _name(o):
    p = ["mux"]
    for k in ("no_add_aud", "eos_before_el", "discard"):
        if o.get(k):
            p.append(k)
    if o.get("mode") is not None:
        p.append("m%d" % o["mode"])
    if o.get("start_code"):
        p.append("sc=" + o["start_code"])
    p.append("blchunk=%s" % (o.get("chunk") or "real"))
    p.append("elchunk=%s" % (o.get("el_chunk") or "real"))
    p.append("bl=stdin" if o.get("stdin") else "bl=file")
    p.append("kind=" + o["kind"])
    if o.get("trailing"):
        p.append("trailing=" + o["trailing"])
    return " ".join(p)


def tuples(nals):
    return [(n.type, n.data) for n in nals]


def run_job(job):
    o = job["opt"]
    d = job["work"].sub("m")
    env = {}
    if o.get("chunk"):
        env[HOOK] = str(o["chunk"])
    if o.get("el_chunk"):
        env[HOOK_EL] = str(o["el_chunk"])
    out = {"job": job, "fail": None, "steps": [], "notes": {}, "cmds": []}

    def fail(step, exp, obs, res=None):
        out["fail"] = (step, exp, obs)
        return out

    def mfail(step_no, op, ans, res, paths):
        """Lean model vs the CLI for one step (first disagreement kept)"""
        if ans is None or out.get("model_fail"):
            return
        out["model_steps"] = out.get("model_steps", 0) + 1
        r = None
        if op.startswith("hevc.mux"):
            exp, err = M.parse_list(ans)
            if exp is None:
                if res.rc == 0:
                    r = ("err (the command fails)", res.brief())
            elif res.crashed():
                r = ("%s, %d NAL units" % ("error status" if err else "ok", len(exp)), res.brief())
            elif err != (res.rc != 0):
                r = ("error status" if err else "exit status 0", res.brief())
            else:
                r = M.compare_list(exp, paths["out"], check_sc=bool(job.get("check_sc")))
        else:
            m = M.parse_general(ans)
            if m is None:
                if res.rc == 0:
                    r = ("err (the command fails)", res.brief())
            elif res.rc != 0:
                r = ("ok", res.brief())
            else:
                r = M.compare_files(m, paths)
        if r is not None:
            out["model_fail"] = (op, r[0], r[1])

    bl_path = os.path.join(d, "BL.hevc")
    el_path = os.path.join(d, "EL.hevc")
    # ---- step 1: demux of the dual-layer source (chain kinds) or direct layer files
    if o["kind"] == "chain":
        src = os.path.join(d, "full.hevc")
        with open(src, "wb") as fh:
            fh.write(job["full"])
        env1 = env if "chunk1" not in o else ({HOOK: str(o["chunk1"])} if o["chunk1"] else {})
        res = R.run_tool(["demux", src, "-b", bl_path, "-e", el_path], env=env1, cwd=d)
        out["cmds"].append(res.cmdline())
        mfail(1, "hevc.general demux (source)", job.get("model_split"), res, {"bl": bl_path, "el": el_path})
        if res.rc != 0:
            return fail("demux", "exit status 0", res.brief())
        for name, path in (("bl", bl_path), ("el", el_path)):
            ok, msg, _ = F.compare(F.read_split(path), job["exp_split"][name])
            if not ok:
                return fail("demux", "%s file = reference split of the dual-layer stream" % name, msg)
        out["steps"].append("demux")
    else:
        with open(bl_path, "wb") as fh:
            fh.write(job["bl"])
        with open(el_path, "wb") as fh:
            fh.write(job["el"])
    # ---- step 2: mux
    g = []
    if o.get("mode") is not None:
        g += ["-m", str(o["mode"])]
    if o.get("start_code"):
        g += ["--start-code", o["start_code"]]
    mux_out = os.path.join(d, "muxed.hevc")
    a = g + ["mux", "--bl", "-" if o.get("stdin") else bl_path, "--el", el_path, "-o", mux_out]
    for k, fl in (("no_add_aud", "--no-add-aud"), ("eos_before_el", "--eos-before-el"), ("discard", "--discard")):
        if o.get(k):
            a.append(fl)
    if o.get("stdin"):
        data = open(bl_path, "rb").read()
        res = R.run_tool(a, env=env, stdin_data=data, pieces=o.get("pieces"), cwd=d)
    else:
        res = R.run_tool(a, env=env, cwd=d)
    out["cmds"].append(res.cmdline())
    out["mux_rc"] = res.rc
    mfail(2, "hevc.mux", job.get("model_mux"), res, {"out": mux_out})
    if res.crashed():
        return fail("mux", "no crash", res.brief())
    kind = o["kind"]
    if kind == "bl_trailing":
        # BL with NALs behind its last slice: outside the access-unit template the reference interleave speaks about; the
        # Lean model says what the tool does (mux_drops_trailing_nals) and only that is compared
        out["steps"].append("mux(model only)")
        return out
    if kind == "el_longer":
        if res.rc == 0:
            return fail("mux", "non-zero exit status (EL has more frames than BL)", "exit status 0")
    elif kind == "el_shorter":
        pass
    elif res.rc != 0:
        return fail("mux", "exit status 0", res.brief())
    if not os.path.exists(mux_out):
        return fail("mux", "output file", "missing")
    got = F.read_split(mux_out)
    if kind == "el_shorter":
        if res.rc == 0:
            # base-layer conservation only
            exp_bl = job["exp_bl_only"]
            g_bl = [(H.nal_type(p), p) for _, p in got if H.nal_type(p) not in (H.UNSPEC62, H.UNSPEC63)]
            if g_bl != exp_bl:
                return fail("mux", "base-layer NAL units conserved in order (EL shorter than BL)",
                            R.seq_diff(g_bl, exp_bl))
        out["steps"].append("mux")
        return out
    ok, msg, notes = F.compare(got, job["exp_mux"], check_sc=False)
    if not ok:
        return fail("mux", "reference interleave: per frame [AUD] BL NALs, EL NALs as UNSPEC63, RPU, EOS/EOB (%d NALs)" % len(job["exp_mux"]), msg)
    if job.get("check_sc"):
        ok, msg, _ = F.compare(got, job["exp_mux"], check_sc=True)
        if not ok:
            return fail("mux", "start codes as documented for --start-code %s" % (o.get("start_code") or "four"), msg)
    out["steps"].append("mux")
    if job.get("identity_bytes") is not None:
        if open(mux_out, "rb").read() != job["identity_bytes"]:
            return fail("mux", "mux(demux(s)) byte-identical to s (canonical AUD per frame, 4-byte start codes)", "bytes differ (NAL sequences equal)")
        out["steps"].append("bytes")
    if kind == "el_longer":
        return out
    # ---- step 3: demux of the muxed file gives both layers back
    bl2 = os.path.join(d, "BL2.hevc")
    el2 = os.path.join(d, "EL2.hevc")
    env2 = {HOOK: str(o["chunk2"])} if o.get("chunk2") else {}
    res = R.run_tool(["demux", mux_out, "-b", bl2, "-e", el2], env=env2, cwd=d)
    out["cmds"].append(res.cmdline())
    mfail(3, "hevc.general demux (muxed)", job.get("model_back"), res, {"bl": bl2, "el": el2})
    if res.rc != 0:
        return fail("demux(mux)", "exit status 0", res.brief())
    for name, path in (("bl", bl2), ("el", el2)):
        ok, msg, _ = F.compare(F.read_split(path), job["exp_back"][name])
        if not ok:
            return fail("demux(mux)", "%s layer returned by demux(mux(BL, EL))" % name, msg)
    out["steps"].append("demux2")
    return out


def run(ctx):
    ctx.rule = ("dual-layer streams (multi-slice frames, 1..3 EL slices + own wrapped parameter sets / AUD / suffix SEI per EL frame, "
                "EOS/EOB at end, mid-stream or after every frame, AUD canonical / non-canonical / absent / mixed, parameter sets repeated "
                "mid-stream, suffix SEI before or after the EL, EOS before or after the EL); chain: demux -> mux -> demux on the real "
                "binary with {--no-add-aud, --eos-before-el, --discard, --start-code four|annex-b, -m 0..5}, BL and EL read chunk "
                "sizes drawn independently from {64, 257, 4096, 100000}, BL as file or piped stdin; every intermediate file compared as "
                "(type, payload) sequence with the generator's reference split / interleave; byte identity asserted for the canonical "
                "form; pairs with EL longer (error status + output trimmed to the BL length) and EL shorter (no crash, BL conserved); "
                "non-trivial = completed chain on >= 2 frames; distinct by (stream, options); about 1 case in 12 is a pair whose BL "
                "carries NALs behind its last slice (an AUD / an AUD + prefix SEI / VPS SPS PPS, which hevc_parser labels with the "
                "frame count): compared with the Lean model only (the tool drops them and the last EL frame)")
    ctx.assumptions = ["every EL frame holds at least one slice with first_slice_segment_in_pic_flag (an EL frame consisting of an RPU only "
                       "cannot be delimited by any parser of the demuxed EL file; frames without EL video NALs are covered by C05's demux)",
                       "RPUs used with -m are ones the library can convert (a failing conversion inside mux is an unwrap panic, recorded "
                       "in DESIGN.md section 8 as outside this property)",
                       "hooked BL chunk sizes on BL files below 100000 bytes (see C05)"]
    ctx.build_and_audit(need_cli=True)
    rng = ctx.rng.fork("c06")
    quick = ctx.tier == "quick"
    ps = H.ParamSets()
    pool = H.rpu_pool(rng.fork("pool"), 120 if quick else 400)
    conv = F.Conv()
    uni = F.universal_rpus(conv, [r for r, _ in pool])
    chunks = [64, 257, 4096, None]
    jobs = []
    n_chain = 400 if quick else 3000
    n_pair = 150 if quick else 1000
    n_len = 150 if quick else 1000
    n_big = 3 if quick else 30
    n_trail = (n_chain + n_pair + n_len) // 11      # about 1 case in 12 of the run

    def mk_stream(r, nfr, **kw):
        pb = r.choice([4, 8, 8, 16])
        specs = H.gen_structure(r, nfr, poc_bits=pb, period_len=(1, 12))
        base = dict(el="parse", el_max=3, el_aud=r.choice([0, 0, 4, 8]), max_slices=4,
                    aud=r.choice(["canonical", "canonical", "any", "none", "mixed"]),
                    params=r.choice(["irap", "first", "every", "mixed"]),
                    eos=r.choice(["none", "end", "mid", "every"]),
                    ssei_pos=r.choice(["before_el", "before_el", "after_el"]),
                    eos_pos=r.choice(["end", "end", "before_el"]),
                    sc=r.choice(["four", "four", "mixed", "three"]), tz=0, pad=(0, r.choice([10, 60, 300])),
                    suffix_sei=(0, 1), prefix_sei=(0, 2), hdr10plus=r.choice([0, 2]))
        base.update(kw)
        return H.build_stream(r, H.Codec(ps, pb), specs, r.shuffle(uni)[:max(1, nfr)], **base), base

    def mux_opts(r, st_opts=None):
        o = {"no_add_aud": r.chance(1, 3), "eos_before_el": r.chance(1, 3), "discard": r.chance(1, 5),
             "start_code": r.choice([None, None, "four", "annex-b"]), "chunk": r.choice(chunks), "el_chunk": r.choice(chunks),
             "chunk2": r.choice(chunks), "stdin": r.chance(1, 4)}
        if r.chance(1, 4):
            o["mode"] = r.below(6)
        return o

    def finish_job(r, st, o, bl_aus, el_frames, job, m_bl_aus=None, m_el_frames=None):
        key = F.rpu_key(o.get("mode"))
        conv.ensure([(key, d) for fr in (m_el_frames or el_frames) for t, d in fr if t == H.UNSPEC62])
        job["mline_mux"] = M.mux_line(m_bl_aus or bl_aus, m_el_frames or el_frames, conv, key=key, no_add_aud=o.get("no_add_aud", False),
                                      eos_before_el=o.get("eos_before_el", False), discard=o.get("discard", False),
                                      start_code=o.get("start_code"))
        exp = F.ref_mux(bl_aus, el_frames, conv, key=key, no_add_aud=o.get("no_add_aud", False),
                        eos_before_el=o.get("eos_before_el", False), discard=o.get("discard", False),
                        start_code=o.get("start_code"))
        if exp is None:
            return None
        job["exp_mux"] = exp
        items = [(t, d, 0, False) for t, d, _ in exp]
        job["exp_back"] = F.ref_general(items, "demux", conv)
        job["check_sc"] = True
        job["opt"] = o
        if o.get("stdin"):
            size = sum(4 + len(d) for _, nl in bl_aus for t, d in nl)
            o["frag"], o["pieces"] = R.fragmentation(r.fork("frag"), size, o.get("chunk"))
        return job

    # ---- chains from a dual-layer source
    for i in range(n_chain):
        r = rng.fork("chain%d" % i)
        nfr = r.choice([1, 2, 3, 5, 8, 13, 20])
        st, so = mk_stream(r, nfr)
        if sum(n.size() for n in st.nals() if n.role not in ("el", "rpu")) > REAL_CHUNK - 5000 or st.size() > REAL_CHUNK - 5000:
            continue
        o = mux_opts(r)
        o["kind"] = "chain"
        # options under which the chain is the identity: chosen to match the source half of the time
        canonical = so["aud"] == "canonical"
        if r.chance(1, 2):
            o["no_add_aud"] = not canonical
            o["eos_before_el"] = so["eos_pos"] == "before_el"
            o["discard"] = False
            o.pop("mode", None)
        full = st.render()
        bl_aus = [(s, tuples(nl)) for s, nl in H.bl_aus_of(st)]
        el_frames = [tuples(fr) for fr in H.el_frames_of(st)]
        job = {"full": full, "sid": i, "st": st, "so": so}
        job["exp_split"] = F.ref_general(F.items_of(st), "demux", conv)
        job["mline_split"] = M.general_line("demux", F.items_of(st), conv)
        job = finish_job(r, st, o, bl_aus, el_frames, job)
        if job is None:
            continue
        # identity claims (reference-side consistency): source layout reproduced by these options
        ident = (so["ssei_pos"] == "before_el" or so["eos_pos"] == "before_el" or not any(n.role == "ssei" for n in st.nals())) \
            and (o["no_add_aud"] or canonical) and not o["discard"] and o.get("mode") is None \
            and (o["eos_before_el"] == (so["eos_pos"] == "before_el") or not any(n.role in ("eos", "eob") for n in st.nals()))
        if ident:
            assert [(t, d) for t, d, _ in job["exp_mux"]] == st.seq(), "reference interleave is not the identity on a canonical source"
            job["identity"] = True
            if so["sc"] == "four" and o.get("start_code") in (None, "four"):
                job["identity_bytes"] = full
        jobs.append(job)
    # ---- pairs built directly (no dual-layer source): BL with or without its own AUDs, EL with extras
    for i in range(n_pair):
        r = rng.fork("pair%d" % i)
        nfr = r.choice([1, 2, 4, 7, 12, 18])
        st, so = mk_stream(r, nfr)
        bl_n, el_n = H.split_layers(st)
        if sum(n.size() for n in bl_n) > REAL_CHUNK - 5000:
            continue
        o = mux_opts(r)
        o["kind"] = "pair"
        bl_aus = [(s, tuples(nl)) for s, nl in H.bl_aus_of(st)]
        el_frames = [tuples(fr) for fr in H.el_frames_of(st)]
        # a BL that still carries RPUs (they must be replaced by the EL's) in some pairs
        keep_rpu = r.chance(1, 5)
        if keep_rpu:
            bl_bytes = H.render([n for n in st.nals() if n.role != "el"])
        else:
            bl_bytes = H.render(bl_n)
        job = {"bl": bl_bytes, "el": H.render(el_n), "sid": 1000 + i, "st": st, "so": so, "bl_has_rpu": keep_rpu}
        m_bl = [(au.spec.stype, tuples([n for n in au.nals if n.role != "el"])) for au in st.aus] if keep_rpu else None
        job = finish_job(r, st, o, bl_aus, el_frames, job, m_bl_aus=m_bl)
        if job is not None:
            jobs.append(job)
    # ---- layers larger than the real 100000-byte chunk: BL read with the real chunk size (file) or any size (stdin)
    for i in range(n_big):
        r = rng.fork("big%d" % i)
        st, so = mk_stream(r, 8, sc="four", aud="canonical", ssei_pos="before_el", eos_pos="end")
        H.inflate(st, r, 6, 20000, 110000)
        o = mux_opts(r)
        o["kind"] = "chain"
        o["no_add_aud"] = False
        o["eos_before_el"] = False
        o["discard"] = False
        o.pop("mode", None)
        if not o["stdin"]:
            o["chunk"] = r.choice([None, 1000, 20000])
        o["chunk2"] = r.choice([None, 3125])
        o["chunk1"] = r.choice([None, 1000, 20000])    # divisors of the file reader's 100000-byte buffer only
        full = st.render()
        bl_aus = [(s_, tuples(nl)) for s_, nl in H.bl_aus_of(st)]
        el_frames = [tuples(fr) for fr in H.el_frames_of(st)]
        job = {"full": full, "sid": 3000 + i, "st": st, "so": so, "big": True}
        job["exp_split"] = F.ref_general(F.items_of(st), "demux", conv)
        job["mline_split"] = M.general_line("demux", F.items_of(st), conv)
        job = finish_job(r, st, o, bl_aus, el_frames, job)
        if job is None:
            continue
        assert [(t, d) for t, d, _ in job["exp_mux"]] == st.seq()
        job["identity"] = True
        if o.get("start_code") in (None, "four"):
            job["identity_bytes"] = full
        jobs.append(job)
    # ---- EL longer / shorter than BL
    for i in range(n_len):
        r = rng.fork("len%d" % i)
        n_bl = r.choice([1, 2, 3, 5, 9, 14])
        longer = r.chance(1, 2)
        extra = r.choice([1, 1, 2, 3, 7])
        n_el = n_bl + extra if longer else max(1, n_bl - extra)
        if not longer and n_el == n_bl:
            n_bl += 1
        st, so = mk_stream(r, max(n_bl, n_el))
        aus_bl = st.aus[:n_bl]
        aus_el = st.aus[:n_el]
        bl_nals = [n.copy() for au in aus_bl for n in au.nals if n.role not in ("el", "rpu")]
        if sum(n.size() for n in bl_nals) > REAL_CHUNK - 5000:
            continue
        el_nals = []
        for au in aus_el:
            for n in au.nals:
                if n.role == "el":
                    el_nals.append(H.Nal(n.data[2:], "el"))
                elif n.role == "rpu":
                    el_nals.append(H.Nal(n.data, "rpu"))
        o = mux_opts(r)
        o.pop("mode", None)
        o["kind"] = "el_longer" if longer else "el_shorter"
        bl_aus = [(au.spec.stype, tuples([n for n in au.nals if n.role not in ("el", "rpu")])) for au in aus_bl]
        el_frames = [tuples(fr) for fr in H.el_frames_of(st)[:min(n_bl, n_el)]]
        job = {"bl": H.render(bl_nals), "el": H.render(el_nals), "sid": 2000 + i, "st": st, "so": so, "n_bl": n_bl, "n_el": n_el}
        job = finish_job(r, st, o, bl_aus, el_frames, job, m_el_frames=[tuples(fr) for fr in H.el_frames_of(st)[:n_el]])
        if job is None:
            continue
        exp_bl = []
        for s, nl in bl_aus:
            body = [(t, d) for t, d in nl]
            if not o["no_add_aud"]:
                body = [(H.AUD, H.canonical_aud_for(s))] + [x for x in body if x[0] != H.AUD]
            if not o["eos_before_el"]:
                body = [x for x in body if x[0] not in (H.EOS, H.EOB)] + [x for x in body if x[0] in (H.EOS, H.EOB)]
            exp_bl += body
        job["exp_bl_only"] = exp_bl
        jobs.append(job)

    # ---- BL with NALs behind its last slice (model correspondence only)
    for i in range(n_trail):
        r = rng.fork("trail%d" % i)
        nfr = r.choice([1, 2, 3, 5, 8, 13])
        st, so = mk_stream(r, nfr)
        bl_n, el_n = H.split_layers(st)
        tk = r.choice(M.TRAILING_KINDS)
        trail = M.gen_trailing(r, st.codec, tk, st.specs[-1].stype, {"four": 4, "three": 3}.get(so["sc"]))
        if sum(n.size() for n in bl_n + trail) > REAL_CHUNK - 5000:
            continue
        o = mux_opts(r)
        o["kind"] = "bl_trailing"
        o["trailing"] = tk
        bl_aus = [(s_, tuples(nl)) for s_, nl in H.bl_aus_of(st)]
        el_frames = [tuples(fr) for fr in H.el_frames_of(st)]
        key = F.rpu_key(o.get("mode"))
        conv.ensure([(key, d) for fr in el_frames for t, d in fr if t == H.UNSPEC62])
        job = {"bl": H.render(bl_n + trail), "el": H.render(el_n), "sid": 4000 + i, "st": st, "so": so, "opt": o, "check_sc": True}
        job["mline_mux"] = M.mux_line(bl_aus, el_frames, conv, key=key, no_add_aud=o.get("no_add_aud", False),
                                      eos_before_el=o.get("eos_before_el", False), discard=o.get("discard", False),
                                      start_code=o.get("start_code"), bl_trailing=trail)
        if o.get("stdin"):
            o["frag"], o["pieces"] = R.fragmentation(r.fork("frag"), len(job["bl"]), o.get("chunk"))
        jobs.append(job)

    with R.Work("C06") as work:
        for j in jobs:
            j["work"] = work
        n_model = M.attach(jobs, "mline_split", "model_split") + M.attach(jobs, "mline_mux", "model_mux")
        for j in jobs:
            # third step: demux of what the model says mux writes (labels as in the reference: no frame labels needed)
            exp, err = M.parse_list(j["model_mux"])
            if exp is not None and not err and j["opt"]["kind"] not in ("el_longer", "el_shorter", "bl_trailing"):
                j["mline_back"] = M.general_line("demux", [(t, d, 0) for t, d, _ in exp], conv)
        n_model += M.attach(jobs, "mline_back", "model_back")
        ctx.count("cases through the Lean model (hevc.mux / hevc.general demux)", n_model)
        results = R.pmap(run_job, jobs)
        for k, o_ in enumerate(results):
            j = o_["job"]
            o = j["opt"]
            st = j["st"]
            ctx.evaluations += len(o_["cmds"])
            ctx.count("kind=" + o["kind"])
            ctx.count("bl_chunk=%s" % (o.get("chunk") or "real-100000"))
            ctx.count("el_chunk=%s" % (o.get("el_chunk") or "real-100000"))
            ctx.count("bl_input=%s" % ("stdin" if o.get("stdin") else "file"))
            ctx.count("mode=%s" % ("none" if o.get("mode") is None else o["mode"]))
            ctx.count("start_code=%s" % (o.get("start_code") or "default"))
            for f in ("no_add_aud", "eos_before_el", "discard"):
                if o.get(f):
                    ctx.count("opt=" + f)
            ctx.count("src aud=%s" % j["so"]["aud"])
            ctx.count("src eos=%s/%s" % (j["so"]["eos"], j["so"]["eos_pos"]))
            ctx.count("src ssei=%s" % j["so"]["ssei_pos"])
            if j.get("identity"):
                ctx.count("identity-claim nal-seq")
            if "bytes" in o_["steps"]:
                ctx.count("identity-claim bytes")
            if j.get("big"):
                ctx.count("layers larger than 100000 bytes (bytes %d)" % (len(j["full"]) // 100000 * 100000))
            if j.get("bl_has_rpu"):
                ctx.count("bl-carries-own-rpus")
            if o["kind"] in ("el_longer", "el_shorter"):
                ctx.count("%s mux_rc=%s" % (o["kind"], o_.get("mux_rc")))
            if o["kind"] == "bl_trailing":
                ctx.count("BL NALs behind the last slice (model correspondence only)")
                ctx.count("bl_trailing=%s%s mux_rc=%s" % (o["trailing"], " no_add_aud" if o.get("no_add_aud") else "", o_.get("mux_rc")))
            ctx.count("outcome=" + ("FAIL" if o_["fail"] else "ok"))
            if not o_["fail"] and len(st.aus) >= 2 and o["kind"] != "bl_trailing":
                ctx.nontriv("%d/%s" % (j["sid"], _name(o)))
            if k % 53 == 0:
                ctx.sample("stream#%d (%d frames): %s -> %s" % (j["sid"], len(st.aus), " && ".join(c.replace(work.dir, "$W") for c in o_["cmds"]),
                                                               "+".join(o_["steps"])))
            ctx.count("model steps compared with the CLI", o_.get("model_steps", 0))
            if o_.get("model_fail"):
                mop, mm, mi = o_["model_fail"]
                files = {"full.hevc": j["full"]} if "full" in j else {"BL.hevc": j["bl"], "EL.hevc": j["el"]}
                d = R.save_replay(ctx, "model-s%d" % j["sid"], files,
                                  {"commands": [c.replace(work.dir, ".") for c in o_["cmds"]], "options": {x: y for x, y in o.items() if x != "pieces"},
                                   "model_op": mop, "model": mm, "implementation": mi, "structure": H.describe(st)})
                ctx.disagree(mop + " " + _name(o), "%s (seed %d, %d frames): %s" % (d or "stream#%d" % j["sid"], ctx.seed, len(st.aus),
                             " && ".join(c.replace(work.dir, "$W") for c in o_["cmds"])), mm, mi)
            if o_["fail"]:
                step, exp, obs = o_["fail"]
                files = {}
                if "full" in j:
                    files["full.hevc"] = j["full"]
                else:
                    files["BL.hevc"] = j["bl"]
                    files["EL.hevc"] = j["el"]
                d = R.save_replay(ctx, "s%d" % j["sid"], files,
                                  {"commands": [c.replace(work.dir, ".") for c in o_["cmds"]], "options": {x: y for x, y in o.items() if x != "pieces"},
                                   "failed_step": step, "expected": exp, "observed": obs, "structure": H.describe(st)})
                ctx.oracle_fail({"op": "cli " + _name(o) + " step=" + step,
                                 "input": "%s (seed %d, %d frames)" % (d or "stream#%d" % j["sid"], ctx.seed, len(st.aus)),
                                 "command": " && ".join(c.replace(work.dir, "$W") for c in o_["cmds"]),
                                 "observed": obs[:1500], "expected": exp})


def replay(ctx, path):
    """every case is a deterministic function of (seed, tier): a replay re-runs the check with the seed and
    tier recorded in the replay file (the offending input files are kept next to it for inspection)"""
    import json
    d = json.load(open(path))
    ctx.seed = int(d.get("seed", ctx.seed))
    ctx.tier = d.get("tier", ctx.tier)
    ctx.rng = common.Lcg(ctx.seed)
    run(ctx)
    return ctx.finish()
