"""Reference semantics of the stream commands, written from the property statements C05/C06/C07/C18 and
the README, evaluated on the generator's own description of a stream (never on anything the tool said).

Items are tuples (type, nal_bytes, au_index, first_in_au).  Expected outputs are lists of
(type, nal_bytes, start_code_len_or_None); a bytes value may be an `AnyOf` (RPU list shorter than the
video: any member of the list is accepted, see c07)."""
from . import common
from . import hevcgen as H

FOUR_SIZED = (H.VPS, H.SPS, H.PPS, H.AUD, H.UNSPEC62)


def items_of(stream):
    out = []
    for au in stream.aus:
        for k, n in enumerate(au.nals):
            out.append((n.type, n.data, au.index, k == 0))
    return out


# ---------------------------------------------------------------------------------------------
# RPU rewriting: the library is the reference for what a mode / crop / edit config does to one RPU
# ---------------------------------------------------------------------------------------------

def rpu_key(mode=None, crop=False, edit=None):
    """edit: None or (mode, remove_mapping, crop) of the --edit-config file (it overrides -m / --crop)"""
    if edit is not None:
        return ("e",) + tuple(edit)
    if mode is None and not crop:
        return None
    return ("m", mode, bool(crop))


class Conv:
    """cache of library conversions: (key, nal) -> bytes, or None when the library refuses"""

    def __init__(self):
        self.cache = {}

    def ensure(self, pairs):
        todo = []
        seen = set()
        for key, nal in pairs:
            if key is None or (key, nal) in self.cache or (key, nal) in seen:
                continue
            seen.add((key, nal))
            todo.append((key, nal))
        if not todo:
            return
        lines = []
        for key, nal in todo:
            if key[0] == "m":
                lines.append("cli.convert %s %d %s" % ("-" if key[1] is None else key[1], 1 if key[2] else 0, nal.hex()))
            else:
                lines.append("cli.edit %d %d %d %s" % (key[1], 1 if key[2] else 0, 1 if key[3] else 0, nal.hex()))
        res, _, err = common.run_lines_sharded(common.LIBCASE, lines, shards=8)
        for (key, nal), r in zip(todo, res):
            if r.startswith("ok ") and r not in ("ok cerr", "ok werr"):
                self.cache[(key, nal)] = bytes.fromhex(r[3:])
            elif r in ("ok cerr", "ok werr", "err"):
                self.cache[(key, nal)] = None
            else:
                raise common.CheckError("library executor answered %r to %s" % (r, lines[0][:80]))

    def get(self, key, nal):
        if key is None:
            return nal
        return self.cache[(key, nal)]


def edit_config_json(edit):
    mode, rm, crop = edit
    d = {}
    if mode:
        d["mode"] = mode
    if rm:
        d["remove_mapping"] = True
    if crop:
        d["active_area"] = {"crop": True}
    return d


# ---------------------------------------------------------------------------------------------
# --drop-hdr10plus on a NAL list
# ---------------------------------------------------------------------------------------------

def drop_hdr10plus(items):
    out = []
    for it in items:
        if it[0] == H.SEI_PREFIX:
            r = H.drop_hdr10plus_reference(it[1])
            if r is None:
                continue
            it = (it[0], r) + tuple(it[2:])
        out.append(it)
    return out


def _first_flags(items):
    """recompute first-of-AU flags after NALs were dropped: the first remaining NAL of each AU"""
    out = []
    prev = None
    for t, d, au, _ in items:
        out.append((t, d, au, au != prev))
        prev = au
    return out


def _sc(preset, t, first):
    if preset in (None, "four"):
        return 4
    return 4 if (t in FOUR_SIZED or first) else 3


# ---------------------------------------------------------------------------------------------
# convert / demux / remove (C05, C18)
# ---------------------------------------------------------------------------------------------

def ref_general(items, cmd, conv, key=None, discard=False, start_code=None, drop=False):
    """returns dict name -> expected list, or None when the RPU rewrite must fail (then the command has
    to end with an error).  Names: 'out' (convert), 'bl' / 'el' (demux), 'bl' (remove)."""
    if drop:
        items = drop_hdr10plus(items)
    items = _first_flags(items)
    bl, el, sl = [], [], []
    for t, d, au, first in items:
        if t == H.UNSPEC62:
            nd = conv.get(key, d) if key is not None else d
            if nd is None:
                return None
            sl.append((t, nd, _sc(start_code, t, first)))
            el.append((t, nd, 4))
        elif t == H.UNSPEC63:
            if not discard:
                sl.append((t, d, _sc(start_code, t, first)))
            el.append((H.nal_type(d[2:]), d[2:], 4))
        else:
            sl.append((t, d, _sc(start_code, t, first)))
            bl.append((t, d, _sc(start_code, t, first)))
    if cmd == "convert":
        return {"out": sl}
    if cmd == "demux":
        return {"bl": bl, "el": el}
    if cmd == "remove":
        return {"bl": bl}
    raise ValueError(cmd)


# ---------------------------------------------------------------------------------------------
# extract-rpu / inject-rpu (C07)
# ---------------------------------------------------------------------------------------------

class AnyOf:
    def __init__(self, options, preferred=None):
        self.options = list(options)
        self.preferred = preferred


def ref_extract(stream, conv, key=None):
    """RPU file: payloads without the 7C 01 header, display order.  None if a conversion must fail."""
    out = []
    for d in stream.display_order():
        r = stream.aus[d].rpu()
        if r is None:
            continue
        nd = conv.get(key, r.data) if key is not None else r.data
        if nd is None:
            return None
        out.append((nd[2] >> 1 & 0x3F, nd[2:], 4))
    return out


def ref_inject(stream, rpus, no_add_aud=False, start_code=None, drop=False):
    """rpus: RPU NAL units (7C 01 ..) in display order.  Frame displayed k-th gets rpus[k]; beyond the end
    of a shorter list some RPU of the list is repeated (README: 'duplicated at the end'); a longer list is
    cut.  Existing RPUs are replaced, existing AUDs are replaced by one regenerated AUD per frame unless
    --no-add-aud, everything else stays in order; the RPU goes after the last NAL that is not EOS/EOB."""
    pres = stream.pres()
    out = []
    for au in stream.aus:
        body = [(n.type, n.data) for n in au.nals if n.type != H.UNSPEC62]
        if drop:
            nb = []
            for t, d in body:
                if t == H.SEI_PREFIX:
                    d = H.drop_hdr10plus_reference(d)
                    if d is None:
                        continue
                nb.append((t, d))
            body = nb
        if not no_add_aud:
            body = [(H.AUD, H.canonical_aud_for(au.spec.stype))] + [x for x in body if x[0] != H.AUD]
        k = pres[au.index]
        if k < len(rpus):
            r = rpus[k]
        else:
            r = AnyOf(rpus, rpus[-1] if rpus else None)
        pos = len(body)
        while pos > 0 and body[pos - 1][0] in (H.EOS, H.EOB):
            pos -= 1
        body.insert(pos, (H.UNSPEC62, r))
        for i, (t, d) in enumerate(body):
            out.append((t, d, _sc(start_code, t, i == 0)))
    return out


# ---------------------------------------------------------------------------------------------
# mux (C06)
# ---------------------------------------------------------------------------------------------

def ref_mux(bl_aus, el_frames, conv, key=None, no_add_aud=False, eos_before_el=False, discard=False,
            start_code=None, drop=False):
    """bl_aus: [(first_slice_type, [(type, bytes) ...])] per BL frame; el_frames: [[(type, bytes) ...]] per EL
    frame (unwrapped EL NALs and the RPU, stream order).  Output per frame k: one regenerated AUD (unless
    --no-add-aud: the BL's own AUDs stay), the BL NALs of frame k (UNSPEC62/63 of the BL are not carried
    over), the EL NALs of frame k wrapped as UNSPEC63 and its RPU, and the frame's EOS/EOB after the EL
    (before it with --eos-before-el).  None if an RPU conversion must fail."""
    out = []
    for k, (stype, nals) in enumerate(bl_aus):
        body = [(t, d) for t, d in nals if t not in (H.UNSPEC62, H.UNSPEC63)]
        if drop:
            nb = []
            for t, d in body:
                if t == H.SEI_PREFIX:
                    d = H.drop_hdr10plus_reference(d)
                    if d is None:
                        continue
                nb.append((t, d))
            body = nb
        if not no_add_aud:
            body = [(H.AUD, H.canonical_aud_for(stype))] + [x for x in body if x[0] != H.AUD]
        tail = []
        if not eos_before_el:
            tail = [x for x in body if x[0] in (H.EOS, H.EOB)]
            body = [x for x in body if x[0] not in (H.EOS, H.EOB)]
        for i, (t, d) in enumerate(body):
            out.append((t, d, _sc(start_code, t, i == 0)))
        if k < len(el_frames):
            for t, d in el_frames[k]:
                if t == H.UNSPEC62:
                    nd = conv.get(key, d) if key is not None else d
                    if nd is None:
                        return None
                    out.append((H.UNSPEC62, nd, 4))
                elif not discard:
                    out.append((H.UNSPEC63, H.EL_PREFIX + d, _sc(start_code, H.UNSPEC63, False)))
        for t, d in tail:
            out.append((t, d, _sc(start_code, t, False)))
    return out


# ---------------------------------------------------------------------------------------------
# comparison
# ---------------------------------------------------------------------------------------------

def compare(got, exp, check_sc=False):
    """got: [(sc, nal)] from the independent splitter; exp: expected list.  Returns (ok, message,
    notes) where notes counts soft observations (AnyOf resolved to a non-preferred member)."""
    notes = {}
    g = [(H.nal_type(p), p, sc) for sc, p in got if len(p)]
    if len(g) != len(exp):
        return False, _diff(g, exp), notes
    for i, ((gt, gd, gsc), (et, ed, esc)) in enumerate(zip(g, exp)):
        if isinstance(ed, AnyOf):
            if gd not in ed.options:
                return False, "NAL %d: RPU %s.. is not a member of the injected list" % (i, gd[:10].hex()), notes
            k = "fallback=last" if gd == ed.preferred else "fallback=other-member"
            notes[k] = notes.get(k, 0) + 1
        elif gt == et == H.UNSPEC62 and gd != ed and rpu_norm(gd) == rpu_norm(ed):
            # same RPU; the rewritten NAL carries zero bytes that were framing (trailing_zero_8bits) in the
            # input as escaped payload bytes 00 00 03 [00..]: judged on the unescaped payload without trailing
            # zero bytes, counted as an observation
            notes["rpu-rewrite-carries-trailing-zero-bytes-into-payload"] = notes.get("rpu-rewrite-carries-trailing-zero-bytes-into-payload", 0) + 1
        elif gt == et == H.SEI_PREFIX and gd != ed and rpu_norm(gd) == rpu_norm(ed):
            # rewritten SEI NAL (--drop-hdr10plus) that carries former framing zero bytes as escaped payload
            notes["sei-rewrite-carries-trailing-zero-bytes-into-payload"] = notes.get("sei-rewrite-carries-trailing-zero-bytes-into-payload", 0) + 1
        elif gt != et or gd != ed:
            return False, _diff(g, exp), notes
        if check_sc and esc is not None and gsc != esc:
            return False, "NAL %d (type %d): start code length %d, expected %d" % (i, gt, gsc, esc), notes
    return True, "", notes


def rpu_norm(nal):
    return H.unesc(nal).rstrip(b"\x00")


ALL_KEYS = [("m", m, c) for m in range(6) for c in (False, True)] + [("m", None, True)] + \
           [("e", m, rm, c) for m in range(6) for rm in (False, True) for c in (False, True)]


def universal_rpus(conv, rpus):
    """the RPUs which the library can rewrite under every mode / crop / edit combination used here"""
    conv.ensure([(k, r) for k in ALL_KEYS for r in rpus])
    return [r for r in rpus if all(conv.get(k, r) is not None for k in ALL_KEYS)]


def _diff(g, exp, limit=3):
    out = []
    if len(g) != len(exp):
        out.append("NAL count %d, expected %d" % (len(g), len(exp)))
    n = 0
    for i, (a, b) in enumerate(zip(g, exp)):
        bd = b[1] if not isinstance(b[1], AnyOf) else b"<any>"
        if a[0] != b[0] or (not isinstance(b[1], AnyOf) and a[1] != b[1]):
            out.append("NAL %d: type %d len %d %s.. expected type %d len %d %s.." % (
                i, a[0], len(a[1]), a[1][:12].hex(), b[0], len(bd), bd[:12].hex()))
            n += 1
            if n >= limit:
                break
    tg = [x[0] for x in g][:80]
    te = [x[0] for x in exp][:80]
    if tg != te:
        out.append("types got %s expected %s" % (tg, te))
    return "; ".join(out)[:1800]


def read_split(path):
    with open(path, "rb") as fh:
        return H.split_nals(fh.read())
