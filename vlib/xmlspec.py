"""Exact-rational specification of the documented CM XML -> RPU integer encodings (C11).

Written from the formulas, not by calling the tool: every value of the document is read as an exact
`fractions.Fraction`, every formula is evaluated exactly, and only the final rounding produces an
integer.  ST 2084 (nits -> PQ) is evaluated with 50 significant decimal digits.

Rounding is half-away-from-zero; conversions to the unsigned field types saturate (negative -> 0).
Every rounding is a *site*: when the exact pre-rounding value lies within 2^-8 of a rounding tie (for a
truncation: of an integer) the site is `tie_ambiguous` and the neighbouring integer is accepted too.
`spec(doc, cw, ch, flips)` evaluates the document with the sites in `flips` resolved to the neighbour,
so that the checker can decide membership in the accepted set without dropping any comparison.
"""
from decimal import Decimal, getcontext
from fractions import Fraction

from .xmlgen import COLORSPACE_PRIMARIES, REALDEVICE_PRIMARIES, PRESET_TARGETS

MARGIN = Fraction(1, 256)
HALF = Fraction(1, 2)

# struct fields per level in declaration order (as printed by the tool's JSON view)
FIELDS = {
    1: ["min_pq", "max_pq", "avg_pq"],
    2: ["target_max_pq", "trim_slope", "trim_offset", "trim_power", "trim_chroma_weight", "trim_saturation_gain", "ms_weight"],
    3: ["min_pq_offset", "max_pq_offset", "avg_pq_offset"],
    5: ["active_area_left_offset", "active_area_right_offset", "active_area_top_offset", "active_area_bottom_offset"],
    6: ["max_display_mastering_luminance", "min_display_mastering_luminance", "max_content_light_level", "max_frame_average_light_level"],
    8: ["target_display_index", "trim_slope", "trim_offset", "trim_power", "trim_chroma_weight", "trim_saturation_gain", "ms_weight",
        "target_mid_contrast", "clip_trim"] + ["saturation_vector_field%d" % i for i in range(6)] + ["hue_vector_field%d" % i for i in range(6)],
    9: ["source_primary_index"] + ["source_primary_%s_%s" % (c, a) for c in ("red", "green", "blue", "white") for a in ("x", "y")],
    10: ["target_display_index", "target_max_pq", "target_min_pq", "target_primary_index"]
        + ["target_primary_%s_%s" % (c, a) for c in ("red", "green", "blue", "white") for a in ("x", "y")],
    11: ["content_type", "whitepoint", "reference_mode_flag", "reserved_byte2", "reserved_byte3"],
    254: ["dm_mode", "dm_version_index"],
}
FIXED_LEN = {1: 5, 2: 11, 3: 5, 5: 7, 6: 8, 11: 4, 254: 2}
WRITTEN = {8: {10: 7, 12: 8, 13: 9, 19: 15, 25: 21}, 9: {1: 1, 17: 9}, 10: {5: 4, 21: 12}}
CMV29_LEVELS = (1, 2, 4, 5, 6, 255)
CMV40_LEVELS = (3, 8, 9, 10, 11, 254)
KEYED = (2, 8, 10)

_COLORSPACE = [[Fraction(v) for v in row] for row in COLORSPACE_PRIMARIES]
_REALDEVICE = [[Fraction(v) for v in row] for row in REALDEVICE_PRIMARIES]


class Unencodable(Exception):
    """the documented value does not fit the RPU syntax (the tool must report an error)"""


# ---------------------------------------------------------------------------------------------
# rounding sites
# ---------------------------------------------------------------------------------------------

class Sites:
    def __init__(self, flips=frozenset()):
        self.flips = flips
        self.n = 0              # sites evaluated
        self.ambiguous = []     # (site index, label, primary, alternative)

    def round(self, x, label=""):
        """round half away from zero; returns the integer"""
        i = self.n
        self.n += 1
        sign = -1 if x < 0 else 1
        a = abs(x)
        fl = a.numerator // a.denominator
        frac = a - fl
        up = frac >= HALF
        v = sign * (fl + 1 if up else fl)
        if abs(frac - HALF) < MARGIN:
            alt = sign * (fl if up else fl + 1)
            self.ambiguous.append((i, label, v, alt))
            if i in self.flips:
                return alt
        return v

    def trunc(self, x, label=""):
        """truncate toward zero (x >= 0 here)"""
        i = self.n
        self.n += 1
        fl = x.numerator // x.denominator
        frac = x - fl
        alt = None
        if frac < MARGIN and fl >= 1:
            alt = fl - 1
        elif 1 - frac < MARGIN:
            alt = fl + 1
        if alt is not None:
            self.ambiguous.append((i, label, fl, alt))
            if i in self.flips:
                return alt
        return fl


def sat(v, hi):
    """`as u16` / `as u8`"""
    return 0 if v < 0 else (hi if v > hi else v)


# ---------------------------------------------------------------------------------------------
# ST 2084
# ---------------------------------------------------------------------------------------------

_PQ_CACHE = {}


def pq_scaled(nits):
    """4095 * PQ(nits) as an (almost) exact Fraction; nits: Fraction >= 0"""
    if nits in _PQ_CACHE:
        return _PQ_CACHE[nits]
    getcontext().prec = 50
    m1 = Decimal(2610) / Decimal(16384)
    m2 = Decimal(2523) / Decimal(4096) * 128
    c1 = Decimal(3424) / Decimal(4096)
    c2 = Decimal(2413) / Decimal(4096) * 32
    c3 = Decimal(2392) / Decimal(4096) * 32
    y = Decimal(nits.numerator) / Decimal(nits.denominator) / Decimal(10000)
    ym = Decimal(0) if y == 0 else (y.ln() * m1).exp()
    v = ((c1 + c2 * ym) / (1 + c3 * ym))
    v = (v.ln() * m2).exp() * 4095
    r = Fraction(v)
    _PQ_CACHE[nits] = r
    return r


# ---------------------------------------------------------------------------------------------
# the documented encodings (exact)
# ---------------------------------------------------------------------------------------------

def enc_lin12(st, v, label):
    """chroma weight, saturation gain, ms weight, mid contrast bias, highlight clipping: min(4095, round(v*2048+2048))"""
    return min(4095, sat(st.round(v * 2048 + 2048, label), 65535))


def enc_trim(st, lift, gain, gamma, label):
    """(slope, offset, power) from lift / gain / gamma"""
    g = max(Fraction(-1), min(Fraction(1), gamma))
    slope = ((gain + 2) * (1 - lift / 2) - 2) * 2048 + 2048
    offset = ((gain + 2) * (lift / 2)) * 2048 + 2048
    power = (2 / (1 + g / 2) - 2) * 2048 + 2048
    return (min(4095, sat(st.round(slope, label + "/trim_slope"), 65535)),
            min(4095, sat(st.round(offset, label + "/trim_offset"), 65535)),
            min(4095, sat(st.round(power, label + "/trim_power"), 65535)))


def enc_vec8(st, v, label):
    return min(255, sat(st.round(v * 128 + 128, label), 255))


def enc_l1(st, vals, cm40, label):
    """XML order: min, avg, max -> block order min_pq, max_pq, avg_pq; then the L1 clamp"""
    mn, av, mx = [sat(st.round(Fraction(t) * 4095, label + "/" + n), 65535) for t, n in zip(vals, ("min", "avg", "max"))]
    mn = min(mn, 12)
    mx = max(2081, min(4095, mx))
    av = max(1229 if cm40 else 819, min(av, mx - 1))
    return (1, 5, [mn, mx, av])


def enc_l3(st, vals, label):
    """XML order: min, avg, max -> block order min, max, avg; no clamp: a value above 4095 is not encodable"""
    mn, av, mx = [sat(st.round(Fraction(t) * 2048 + 2048, label + "/" + n), 65535) for t, n in zip(vals, ("min", "avg", "max"))]
    return (3, 5, [mn, mx, av])


def enc_l5(st, canvas_ar, image_ar, cw, ch, label):
    """active-area offsets (left, right, top, bottom) from the canvas size and the two aspect ratios"""
    if cw is None or ch is None:
        return (5, 7, [0, 0, 0, 0])
    c, i = Fraction(canvas_ar), Fraction(image_ar)
    if c == i:
        return (5, 7, [0, 0, 0, 0])
    if i > c:
        image_h = st.round(ch * (c / i), label + "/image_h")
        diff = ch - image_h
        top = diff // 2 if diff >= 0 else -((-diff) // 2)
        bottom = diff - top
        return (5, 7, [0, 0, sat(top, 65535), sat(bottom, 65535)])
    image_w = st.round(cw * (i / c), label + "/image_w")
    diff = cw - image_w
    left = diff // 2 if diff >= 0 else -((-diff) // 2)
    right = diff - left
    return (5, 7, [sat(left, 65535), sat(right, 65535), 0, 0])


def l8_length(mid, clip, satv, huev):
    if any(v != 128 for v in huev):
        return 25
    if any(v != 128 for v in satv):
        return 19
    if clip != 2048:
        return 13
    if mid != 2048:
        return 12
    return 10


def enc_l8(st, node, label):
    _, tid, l8, mid, clip, satv, huev = node
    f = [Fraction(t) for t in l8]
    slope, offset, power = enc_trim(st, f[0], f[1], f[2], label)
    chroma = enc_lin12(st, f[3], label + "/trim_chroma_weight")
    sg = enc_lin12(st, f[4], label + "/trim_saturation_gain")
    ms = enc_lin12(st, f[5], label + "/ms_weight")
    midv = enc_lin12(st, Fraction(mid), label + "/target_mid_contrast")
    clipv = enc_lin12(st, Fraction(clip), label + "/clip_trim")
    sv = [enc_vec8(st, Fraction(t), label + "/sat%d" % k) for k, t in enumerate(satv)]
    hv = [enc_vec8(st, Fraction(t), label + "/hue%d" % k) for k, t in enumerate(huev)]
    if not 0 <= tid <= 255:
        raise Unencodable("target id %d" % tid)
    return (8, l8_length(midv, clipv, sv, hv), [tid, slope, offset, power, chroma, sg, ms, midv, clipv] + sv + hv)


def enc_l2(st, node, target_max_pq, label, ms_i16=False):
    _, tid, tr = node
    f = [Fraction(t) for t in tr]
    slope, offset, power = enc_trim(st, f[3], f[4], f[5], label)
    chroma = enc_lin12(st, f[6], label + "/trim_chroma_weight")
    sg = enc_lin12(st, f[7], label + "/trim_saturation_gain")
    if ms_i16:
        # known deviation of the tool (`as i16`): a negative value is kept instead of saturating to 0
        r = st.round(f[8] * 2048 + 2048, label + "/ms_weight")
        ms = min(4095, max(-32768, min(32767, r)))
    else:
        ms = enc_lin12(st, f[8], label + "/ms_weight")
    return (2, 11, [target_max_pq, slope, offset, power, chroma, sg, ms])


def primary_index(prim, realdevice):
    """exact match against the preset tables: colour spaces first, then (L9 only) real devices offset by 9"""
    p = [Fraction(t) for t in prim]
    for k, row in enumerate(_COLORSPACE):
        if row == p:
            return k
    if realdevice:
        for k, row in enumerate(_REALDEVICE):
            if row == p:
                return k + len(_COLORSPACE)
    return 255


def enc_primaries(st, prim, label):
    return [sat(st.round(Fraction(t) * 32767, label + "/p%d" % k), 65535) for k, t in enumerate(prim)]


def enc_l9(st, prim, label):
    idx = primary_index(prim, True)
    if idx != 255:
        return (9, 1, [idx] + [0] * 8)
    return (9, 17, [255] + enc_primaries(st, prim, label))


def enc_l10(st, t, label):
    idx = primary_index(t["prim"], False)
    mx = min(4095, sat(st.round(pq_scaled(Fraction(t["peak"])), label + "/target_max_pq"), 65535))
    mn = min(4095, sat(st.round(pq_scaled(Fraction(t["min"])), label + "/target_min_pq"), 65535))
    if idx != 255:
        return (10, 5, [t["id"], mx, mn, idx] + [0] * 8)
    return (10, 21, [t["id"], mx, mn, 255] + enc_primaries(st, t["prim"], label))


# ---------------------------------------------------------------------------------------------
# containers: upsert keyed by level (and target for L2 / L8 / L10), kept sorted
# ---------------------------------------------------------------------------------------------

def upsert(blocks, b, cm40):
    """blocks: list of (level, length, vals); returns the new list (order irrelevant: sorted at the end)"""
    level = b[0]
    if level in CMV40_LEVELS and not cm40:
        if level in (8, 10):
            raise Unencodable("L%d without CM v4.0 metadata" % level)
        return blocks
    if level in KEYED:
        out = []
        done = False
        for x in blocks:
            if not done and x[0] == level and x[2][0] == b[2][0]:
                out.append(b)
                done = True
            else:
                out.append(x)
        if not done:
            out.append(b)
        return out
    return [x for x in blocks if x[0] != level] + [b]


def sort_blocks(blocks):
    return sorted(blocks, key=lambda b: (b[0], b[2][0] if b[0] in (2, 8, 9, 10) else 0))


def validate_frame(blocks):
    """the ranges of the RPU syntax (what the writer can encode)"""
    cnt = {}
    for level, length, vals in blocks:
        cnt[level] = cnt.get(level, 0) + 1
        if level in (1, 2, 3) and any(v > 4095 for v in vals):
            raise Unencodable("L%d value above 4095" % level)
        if level == 2 and vals[6] < -1:          # only reachable with the `l2-ms-weight-as-i16` quirk
            raise Unencodable("L2 ms_weight below -1")
        if level == 5 and any(v > 8191 for v in vals):
            raise Unencodable("L5 offset above 8191")
        if level == 6 and any(v > 10000 for v in vals):
            raise Unencodable("L6 value above 10000")
        if level == 9 and length == 17 and any(v == 0 for v in vals[1:]):
            raise Unencodable("L9 custom primary 0")
        if level == 10:
            if vals[0] in PRESET_TARGETS or vals[1] > 10000 or vals[2] > 10000:
                raise Unencodable("L10 target")
            if length == 21 and any(v == 0 for v in vals[4:]):
                raise Unencodable("L10 custom primary 0")
        if level == 11 and (vals[0] > 15 or vals[1] > 15):
            raise Unencodable("L11 value above 15")
    if cnt.get(2, 0) > 8:
        raise Unencodable("more than 8 L2 blocks")
    if cnt.get(8, 0) > 5:
        raise Unencodable("more than 5 L8 blocks")
    if cnt.get(10, 0) > 4:
        raise Unencodable("more than 4 L10 blocks")


# ---------------------------------------------------------------------------------------------
# the document
# ---------------------------------------------------------------------------------------------

QUIRKS = ("l2-ms-weight-as-i16", "frame-node-read-as-shot-node", "trim-for-non-home-target-panics")


def traits(doc):
    """which known deviations of the tool a document can run into (see known_findings.json)"""
    out = set()
    v5 = doc["version"].startswith("5")
    excluded = set(t["id"] for t in doc["targets"] if v5 and t["app"] != "HOME")
    for s in doc["shots"]:
        if s["levels"] is None and any(f["levels"] is not None for f in s["frames"]):
            out.add("frame-node-read-as-shot-node")
        for nodes in [s["levels"]] + [f["levels"] for f in s["frames"]]:
            for nd in nodes or []:
                if nd[0] == "L2" and Fraction(nd[2][8]) * 2048 + 2048 < -HALF + MARGIN:
                    out.add("l2-ms-weight-as-i16")
                if nd[0] in ("L2", "L8") and nd[1] in excluded:
                    out.add("trim-for-non-home-target-panics")
    return out


def spec(doc, cw=None, ch=None, flips=frozenset(), quirks=frozenset()):
    """expected generation result of `generate --xml doc [--canvas-width cw --canvas-height ch]`;
    `quirks`: evaluate with the named known deviations of the tool instead of the documented behaviour"""
    st = Sites(flips)
    ver = doc["version"]
    cm40 = ver != "2.0.5"
    v5 = ver.startswith("5")
    res = {"cm40": cm40, "status": "ok", "reason": ""}
    excluded = set(t["id"] for t in doc["targets"] if v5 and t["app"] != "HOME")

    # global L5
    if doc["canvas_ar"] is not None and doc["image_ar"] is not None:
        level5 = enc_l5(st, doc["canvas_ar"], doc["image_ar"], cw, ch, "global/L5")
    else:
        level5 = (5, 7, [0, 0, 0, 0])

    # L6 + mastering display
    if doc["level6"] is not None:
        maxcll = sat(st.round(Fraction(doc["level6"]["maxcll"]), "L6/maxcll"), 65535)
        maxfall = sat(st.round(Fraction(doc["level6"]["maxfall"]), "L6/maxfall"), 65535)
    else:
        maxcll = maxfall = 0
    if doc["mastering"] is not None:
        mdl_min = sat(st.round(Fraction(doc["mastering"]["min"]) * 10000, "mastering/min"), 65535)
        mdl_max = doc["mastering"]["peak"]
    else:
        mdl_min = mdl_max = 0
    level6 = (6, 8, [mdl_max, mdl_min, maxcll, maxfall])
    source_min_pq = sat(st.round(pq_scaled(Fraction(mdl_min, 10000)), "source_min_pq"), 65535)
    source_max_pq = sat(st.round(pq_scaled(Fraction(mdl_max)), "source_max_pq"), 65535)

    # L254: from the node for v4+, default otherwise (absent in CM v2.9)
    l254 = None
    if cm40:
        l254 = doc["level254"] if doc["level254"] is not None else (0, 2)

    # targets (v5+: only HOME application type), keyed by id; a later duplicate replaces an earlier one
    targets = {}
    for t in doc["targets"]:
        if v5 and t["app"] != "HOME":
            continue
        targets[t["id"]] = t
    target_pq = {}
    for tid, t in targets.items():
        target_pq[tid] = sat(st.round(pq_scaled(Fraction(t["peak"])), "target%d/max_pq" % tid), 65535)

    # default blocks: L11 from the node, L10 for custom target ids (CM v4.0 documents only)
    defaults = []
    if cm40 and doc["level11"] is not None:
        defaults.append((11, 4, [doc["level11"][0], doc["level11"][1], 0, 0, 0]))
    if cm40:
        for tid, t in targets.items():
            b = enc_l10(st, t, "target%d/L10" % tid)
            if tid not in PRESET_TARGETS:
                defaults.append(b)

    def enc_nodes(nodes, label):
        out = []
        for k, nd in enumerate(nodes or []):
            lab = "%s/%s#%d" % (label, nd[0], k)
            if nd[0] == "L1":
                out.append(enc_l1(st, nd[1], cm40, lab))
            elif nd[0] in ("L2", "L8") and nd[1] in excluded and nd[1] not in targets:
                # v5: only HOME targets are read; a trim for another application type has no target here
                if "trim-for-non-home-target-panics" in quirks:
                    res["status"] = "panic"
                continue
            elif nd[0] == "L2":
                if nd[1] not in targets:
                    raise KeyError("trim for an unknown target")
                out.append(enc_l2(st, nd, target_pq[nd[1]], lab, "l2-ms-weight-as-i16" in quirks))
            elif nd[0] == "L3":
                out.append(enc_l3(st, nd[1], lab))
            elif nd[0] == "L5":
                out.append(enc_l5(st, nd[1][0], nd[1][1], cw, ch, lab))
            elif nd[0] == "L8":
                if nd[1] not in targets:
                    raise KeyError("trim for an unknown target")
                out.append(enc_l8(st, nd, lab))
            elif nd[0] == "L9":
                out.append(enc_l9(st, nd[1], lab))
        return out

    shots = []
    for k, s in enumerate(doc["shots"]):
        own = s["levels"]
        if own is None and "frame-node-read-as-shot-node" in quirks:
            # known deviation: the first dynamic-data node below the Shot (a Frame's) is taken as the shot's
            own = next((f["levels"] for f in s["frames"] if f["levels"] is not None), None)
        shots.append({"start": s["start"], "duration": s["duration"], "blocks": enc_nodes(own, "shot%d" % k),
                      "edits": [(f["offset"], enc_nodes(f["levels"], "shot%d/edit%d" % (k, j))) for j, f in enumerate(s["frames"])]})

    res["config"] = {"cm40": cm40, "level5": level5[2], "level6": level6[2], "min": source_min_pq, "max": source_max_pq,
                     "defaults": defaults, "shots": shots, "l254": l254}

    # generation: static -> defaults -> shot -> frame edit; shots sorted stably by start
    frames = []
    try:
        base = []
        if cm40:
            base.append((254, 2, list(l254)))
        base = upsert(base, level5, cm40)
        base = upsert(base, level6, cm40)
        base = upsert(base, (9, 1, [0] * 9), cm40)
        base = upsert(base, (11, 4, [1, 0, 1, 0, 0]), cm40)
        for b in defaults:
            if b[0] not in (5, 6):
                base = upsert(base, b, cm40)
        order = sorted(range(len(shots)), key=lambda i: shots[i]["start"])     # sorted() is stable
        for si in order:
            s = shots[si]
            for i in range(s["duration"]):
                bl = list(base)
                for b in s["blocks"]:
                    bl = upsert(bl, b, cm40)
                for off, eb in s["edits"]:
                    if off == i:
                        for b in eb:
                            bl = upsert(bl, b, cm40)
                        break                # the first edit with this offset
                bl = sort_blocks(bl)
                validate_frame(bl)
                if source_min_pq > 4095 or source_max_pq > 4095:
                    raise Unencodable("source PQ above 4095")
                frames.append({"scene_refresh_flag": 1 if i == 0 else 0, "source_min_pq": source_min_pq,
                               "source_max_pq": source_max_pq, "blocks": bl, "shot": si, "offset": i})
    except Unencodable as e:
        if res["status"] == "ok":
            res["status"] = "unencodable"
            res["reason"] = str(e)
    res["frames"] = frames
    res["sites"] = st.n
    res["ambiguous"] = st.ambiguous
    return res


# ---------------------------------------------------------------------------------------------
# views
# ---------------------------------------------------------------------------------------------

def block_json(b):
    """the block as the tool's JSON view prints it (fields beyond the block length are not printed)"""
    level, length, vals = b
    names = FIELDS[level]
    d = {}
    if level in WRITTEN:
        d["length"] = length
        n = WRITTEN[level][length]
    else:
        n = len(names)
    for name, v in list(zip(names, vals))[:n]:
        d[name] = bool(v) if name == "reference_mode_flag" else v
    return {"Level%d" % level: d}


def frame_json(fr, cm40):
    """the projection of the tool's per-frame JSON that the specification determines"""
    c29 = [block_json(b) for b in fr["blocks"] if b[0] in CMV29_LEVELS]
    out = {"dovi_profile": 8, "scene_refresh_flag": fr["scene_refresh_flag"], "source_min_pq": fr["source_min_pq"],
           "source_max_pq": fr["source_max_pq"],
           "cmv29_metadata": {"num_ext_blocks": len(c29), "ext_metadata_blocks": c29}}
    if cm40:
        c40 = [block_json(b) for b in fr["blocks"] if b[0] in CMV40_LEVELS]
        out["cmv40_metadata"] = {"num_ext_blocks": len(c40), "ext_metadata_blocks": c40}
    return out


def project_tool_json(j):
    """the same projection of what the tool produced"""
    dm = j.get("vdr_dm_data") or {}
    out = {"dovi_profile": j.get("dovi_profile"), "scene_refresh_flag": dm.get("scene_refresh_flag"),
           "source_min_pq": dm.get("source_min_pq"), "source_max_pq": dm.get("source_max_pq")}
    for k in ("cmv29_metadata", "cmv40_metadata"):
        if k in dm:
            out[k] = dm[k]
    return out


def compact_block(b):
    return "%d/%d/%s" % (b[0], b[1], ",".join(str(v) for v in b[2]))


def model_line(cfg):
    """`genxml <cfg> <l254>` for the Lean model: the integer config in document order (the model sorts)"""
    c = ["cm=%s" % ("40" if cfg["cm40"] else "29"), "min=%d" % cfg["min"], "max=%d" % cfg["max"],
         "l5=" + ":".join(map(str, cfg["level5"])), "l6=" + ":".join(map(str, cfg["level6"]))]
    if cfg["defaults"]:
        c.append("defaults=" + ";".join(compact_block(b) for b in cfg["defaults"]))
    sh = []
    for s in cfg["shots"]:
        eds = "^".join("%d@%s" % (off, "+".join(compact_block(b) for b in bl)) for off, bl in s["edits"])
        sh.append("%d:%d:%s:%s" % (s["start"], s["duration"], ";".join(compact_block(b) for b in s["blocks"]), eds))
    c.append("shots=" + "~".join(sh))
    l254 = cfg["l254"]
    return "genxml %s %s" % ("&".join(c), "-" if l254 is None else "%d:%d" % l254)
