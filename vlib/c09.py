"""C09 — the RPU editor applies exactly the configured edits to exactly the configured frames."""
import concurrent.futures
import json
import os

from . import common, rpucases, specgen, editorgen, clirun


def hx(b):
    return bytes(b).hex() if len(b) else "-"


def parse_range(k):
    """documented meaning of a well-formed inclusive range "a-b" (None when not of that form)"""
    p = k.split("-")
    if len(p) == 2 and p[0].isdigit() and p[1].isdigit():
        return int(p[0]), int(p[1])
    return None


def run_case(args):
    i, work, rpus, cfg_json, src = args
    d = os.path.join(work, "c%d" % i)
    os.makedirs(d, exist_ok=True)
    inp = os.path.join(d, "in.bin")
    clirun.write_rpu_file(inp, rpus)
    if src is not None:
        sp = os.path.join(d, "src.bin")
        clirun.write_rpu_file(sp, src)
        cfg_json = dict(cfg_json)
        cfg_json["source_rpu"] = sp
    cfg = os.path.join(d, "cfg.json")
    json.dump(cfg_json, open(cfg, "w"))
    outp = os.path.join(d, "out.bin")
    rc, so, se = clirun.run(["editor", "-i", inp, "-j", cfg, "-o", outp])
    out = None
    if rc == 0 and os.path.exists(outp):
        out = clirun.read_rpu_file(outp)
    extra = {}
    if rc == 0 and out is not None and cfg_json:
        # metamorphic companions, computed by the real tool itself:
        #  (a) the same config without list-wide entries (ranges, remove, duplicate, source): per-frame result of every frame
        #  (b) the same config without `duplicate`: the list duplication starts from
        pf = {k: v for k, v in cfg_json.items() if k not in ("remove", "duplicate", "source_rpu", "rpu_levels")}
        if "scene_cuts" in pf:
            pf["scene_cuts"] = {k: v for k, v in pf["scene_cuts"].items() if k.lower() == "all"}
        if "active_area" in pf and "edits" in pf["active_area"]:
            pf["active_area"] = dict(pf["active_area"])
            pf["active_area"]["edits"] = {k: v for k, v in pf["active_area"]["edits"].items() if k.lower() == "all"}
        for tag, cj in (("perframe", pf), ("nodup", {k: v for k, v in cfg_json.items() if k != "duplicate"})):
            if tag == "nodup" and "duplicate" not in cfg_json:
                continue
            cp = os.path.join(d, tag + ".json")
            json.dump(cj, open(cp, "w"))
            op = os.path.join(d, tag + ".bin")
            rc2, _, _ = clirun.run(["editor", "-i", inp, "-j", cp, "-o", op])
            extra[tag] = clirun.read_rpu_file(op) if rc2 == 0 and os.path.exists(op) else None
    return rc, out, se[-300:].decode(errors="replace"), extra


def run(ctx):
    ctx.rule = ("RPU lists of 1..40 frames (structured RPUs of mixed profiles, with/without CM v4.0 and L5) x editor configs over "
                "every operation and combination: ranges at (start,end) incl. start=end, end=N-1, end=N, start>end, unparsable "
                "halves, overlapping ranges, 'all' keys in several spellings, remove of first/last/all frames and single indices, "
                "duplicate with source/offset at the bounds and several entries, unknown preset ids, source_rpu of equal / "
                "different length with and without rpu_levels; the real CLI's output list and exit status are compared with the "
                "Lean EditorModel, and checked directly: no crash (exit 101 / signal), length = input - removed + duplicated, "
                "frames outside every range byte-identical when no per-frame operation is configured, empty config = identity; "
                "non-trivial = editor succeeded with a non-empty config; distinct by (list, config) hash")
    ctx.assumptions = ["the JSON rendering of the abstract config is glue (deny_unknown_fields makes the tool reject a wrong rendering)"]
    ctx.build_and_audit(need_cli=True)
    rng = ctx.rng.fork("c09")
    ncases = 900 if ctx.tier == "quick" else 6000
    pool = [b for b, j, t in rpucases.gen_structured(rng.fork("gen"), 500) if len(b) >= 25 and "remaining=0" in t]
    # keep RPUs that the tool can rewrite unmodified (so that the identity oracle is meaningful)
    chk, _, _ = common.run_lines_sharded(common.LIBCASE, ["rpu.write " + hx(b) for b in pool])
    pool = [b for b, o in zip(pool, chk) if o.startswith("ok ") and o != "ok werr"]
    pool += [p for _, p in rpucases.asset_rpus()]
    work = clirun.workdir("c09")
    cases = []
    lines = []
    for i in range(ncases):
        n = rng.choice([1, 2, 3, 5, 8, 13, 40]) if rng.chance(9, 10) else 1 + rng.below(40)
        rpus = [rng.choice(pool) for _ in range(n)]
        if rng.chance(1, 4):
            # runs of identical frames (static metadata): a range boundary may fall inside a run
            rpus = []
            while len(rpus) < n:
                rpus += [rng.choice(pool)] * (1 + rng.below(5))
            rpus = rpus[:n]
        with_src = rng.chance(1, 8)
        cfg_json, compact, facts = editorgen.gen_config(rng, n, with_src)
        if i % 25 == 0:
            cfg_json, compact, facts = {}, "-", {"per_frame": False, "ranges": []}
            with_src = False
        src = None
        if with_src:
            # docs/editor.md: "The RPUs must have the same length, after the `remove` pass"
            rem = set()
            for r in facts.get("remove", []):
                pr = parse_range(r)
                if pr:
                    rem.update(k for k in range(pr[0], pr[1] + 1) if k < n)
                elif r.isdigit() and int(r) < n:
                    rem.add(int(r))
            left = n - len(rem)
            m = rng.choice([left, left, left, n, max(1, left + rng.choice([-1, 1]))])
            src = [rng.choice(pool) for _ in range(max(0, m))] or None
        cases.append((i, work, rpus, cfg_json, src, compact, facts))
        lines.append("editor %s %s %s" % (compact, ",".join(hx(b) for b in rpus), ",".join(hx(b) for b in src) if src else "-"))
    try:
        with concurrent.futures.ThreadPoolExecutor(max_workers=14) as ex:
            res = list(ex.map(run_case, [c[:5] for c in cases]))
    finally:
        clirun.cleanup(work)
    mo, _, _ = common.run_lines_sharded(common.MODEL_EXE, lines)
    ctx.evaluations += len(lines)
    for (i, _, rpus, cfg_json, src, compact, facts), (rc, out, se, extra), m, l in zip(cases, res, mo, lines):
        n = len(rpus)
        ctx.count("frames=%d" % n)
        for k in cfg_json:
            ctx.count("cfg=" + k)
        # --- direct oracles ---------------------------------------------------------------
        if rc not in (0, 1):
            ctx.oracle_fail({"op": "editor", "input": l[:6000], "config": cfg_json, "observed": "exit %s %s" % (rc, se[-200:]),
                             "expected": "exit 0 or an error message (exit 1)", "shape": "crash"})
        impl = "err"
        if rc == 0 and out is not None:
            impl = "ok %d %s" % (len(out), ",".join("7c01" + o.hex() for o in out) if out else "-")
            ctx.count("result=ok")
            if compact != "-":
                ctx.nontriv(l)
            if not cfg_json:
                want = [specgen.escape(b) for b in rpus]
                if out != want:
                    ctx.oracle_fail({"op": "editor", "input": l[:6000], "config": cfg_json, "observed": "output differs",
                                     "expected": "empty config is the identity", "shape": "identity"})
            # frame accounting
            removed = set()
            ok_ranges = True
            for r in facts.get("remove", []):
                pr = parse_range(r)
                if pr:
                    removed.update(range(pr[0], pr[1] + 1))
                elif r.isdigit():
                    removed.add(int(r))
                elif "-" in r or r.startswith("+"):
                    ok_ranges = False      # unusual spelling: the accounting oracle does not interpret it
            if ok_ranges:
                dup = sum(d["length"] for d in facts.get("dups", []))
                if len(out) != n - len(removed) + dup:
                    ctx.oracle_fail({"op": "editor", "input": l[:6000], "config": cfg_json,
                                     "observed": "%d frames out" % len(out), "expected": "%d - %d + %d" % (n, len(removed), dup),
                                     "shape": "frame-accounting"})
            # frame locality: only range-based edits configured, no removal/duplication
            if not facts["per_frame"] and "remove" not in facts and "dups" not in facts and facts["ranges"]:
                rs = [parse_range(k) for k in facts["ranges"]]
                if all(r is not None for r in rs) and len(out) == n:
                    touched = set()
                    for a, b in rs:
                        touched.update(range(a, b + 1))
                    for idx in range(n):
                        if idx not in touched and out[idx] != specgen.escape(rpus[idx]):
                            ctx.oracle_fail({"op": "editor", "input": l[:6000], "config": cfg_json, "frame": idx,
                                             "observed": "frame outside every range changed", "expected": "byte-identical",
                                             "shape": "frame-locality"})
                            break
            # level replacement from the source list: the k-th remaining frame takes the listed levels of source
            # entry k (docs/editor.md) — judged on L5/L6 (single-instance levels present in most RPUs)
            if src is not None and ok_ranges and "dups" not in facts and len(src) != len(out):
                ctx.oracle_fail({"op": "editor", "input": l[:6000], "config": cfg_json,
                                 "observed": "accepted a source list of %d RPUs for %d remaining frames" % (len(src), len(out)),
                                 "expected": "an error (docs/editor.md: same length after the remove pass)", "shape": "source-length"})
            if src is not None and ok_ranges and "dups" not in facts and cfg_json.get("rpu_levels"):
                lv = [x for x in cfg_json["rpu_levels"] if x in (5, 6)]
                if lv and len(out) == len(src):
                    pj, _, _ = common.run_lines(common.LIBCASE, ["nalu.json 7c01" + o.hex() for o in out] + ["rpu.json " + hx(b) for b in src])
                    oj, sj = pj[:len(out)], pj[len(out):]

                    def blk(line, level):
                        if not line.startswith("ok {"):
                            return "unparsed"
                        dmj = json.loads(line[3:]).get("vdr_dm_data") or {}
                        for b in (dmj.get("cmv29_metadata") or {}).get("ext_metadata_blocks", []):
                            if "Level%d" % level in b:
                                return b["Level%d" % level]
                        return None
                    for k2 in range(len(out)):
                        for level in lv:
                            want = blk(sj[k2], level)
                            got = blk(oj[k2], level)
                            # (a source entry without a block of that level replaces nothing)
                            if want is None or want == "unparsed" or got == "unparsed" or not sj[k2].startswith("ok {") or "cmv29_metadata" not in (json.loads(oj[k2][3:]).get("vdr_dm_data") or {}):
                                continue
                            ctx.count("source-alignment-checked")
                            if want != got:
                                ctx.oracle_fail({"op": "editor", "input": l[:6000], "config": cfg_json, "frame": k2,
                                                 "observed": "L%d of remaining frame %d: %s" % (level, k2, json.dumps(got)[:200]),
                                                 "expected": "that of source entry %d: %s" % (k2, json.dumps(want)[:200]),
                                                 "shape": "source-alignment"})
                                break
            # --- metamorphic oracles on the real tool (no model involved) ----------------------
            removed_ok = ok_ranges
            kept = [k for k in range(n) if k not in removed]
            base = out
            if "dups" in facts:
                nd = extra.get("nodup")
                if nd is not None:
                    # documented duplication: entries by descending offset (stable, reversed), each inserts
                    # `length` copies of the frame at `source` (index in the list at that moment) before `offset`
                    exp = list(nd)
                    ds = sorted(enumerate(facts["dups"]), key=lambda t: (t[1]["offset"], t[0]))
                    ds.reverse()
                    okd = True
                    for _, dd in ds:
                        if not (dd["source"] < len(exp) and dd["offset"] <= len(exp)):
                            okd = False
                            break
                        srcf = exp[dd["source"]]
                        exp[dd["offset"]:dd["offset"]] = [srcf] * dd["length"]
                    if okd and exp != out:
                        ctx.oracle_fail({"op": "editor", "input": l[:6000], "config": cfg_json,
                                         "observed": "duplicate result differs from splicing copies of the source frame into the list produced without `duplicate`",
                                         "expected": "%d frames, copies of frame `source` at `offset`" % len(exp), "shape": "duplicate-semantics"})
                    base = nd
            pfl = extra.get("perframe")
            if pfl is not None and removed_ok and base is not None and src is None and len(pfl) == n and len(base) == len(kept):
                rs = [parse_range(k) for k in facts["ranges"]]
                if all(r is not None for r in rs):
                    touched = set()
                    for a, b in rs:
                        touched.update(range(a, b + 1))
                    for pos, idx in enumerate(kept):
                        if idx not in touched and base[pos] != pfl[idx]:
                            ctx.oracle_fail({"op": "editor", "input": l[:6000], "config": cfg_json, "frame": idx,
                                             "observed": "input frame %d lies outside every configured range but differs from its per-frame result" % idx,
                                             "expected": "only the per-frame operations apply to it", "shape": "range-applied-to-wrong-frame"})
                            break
                    # frames inside a range: scene flag / L5 must be the range's value on top of the per-frame result;
                    # checked through the model correspondence
        else:
            ctx.count("result=err")
            # a syntactically fine config with in-bounds ranges must not fail merely because of the ranges
        # --- model vs implementation -----------------------------------------------------
        if m != impl:
            ctx.disagree("editor", l[:6000], m[:400], impl[:400] + " | " + se[-150:])
    ctx.sample({"config": cases[1][3], "frames": len(cases[1][2]), "model_line": lines[1][:300]})
    ctx.sample({"config": cases[2][3], "frames": len(cases[2][2])})
