"""C15 — AV1 ITU-T T.35 wrapping round-trips every RPU of every size."""
from . import common, rpucases, specgen


def hx(b):
    return bytes(b).hex() if len(b) else "-"


def run(ctx):
    ctx.rule = ("every payload size in the tier's size set (quick: 24..1600, 65496..65575 and 65752..65791, the one/two-group "
                "boundary 255/256/257 included; thorough: every size 24..65791 and 65792..65800 which must be rejected): "
                "(a) model vs real wrap on pseudo-random content per size (digest per block of sizes); (b) direct oracle on "
                "the real code: a valid RPU of exactly that payload size (padding in the data before the CRC32), 0..3 "
                "trailing zero bytes, wrapped with and without the 0xB5 country code, header bytes checked, parsed back "
                "through parse_itu_t35_dovi_metadata_obu and re-written: bytes must equal the RPU without trailing zeros; "
                "(c) structured RPUs of C01 through av1.obu / av1.json (model vs real); non-trivial = wrap succeeded; "
                "distinct by size")
    ctx.assumptions = ["sizes above 65791 cannot occur for an RPU and may be rejected (property text)"]
    ctx.build_and_audit()
    rng = ctx.rng.fork("c15")
    seed = rng.below(1 << 30)
    # size blocks
    if ctx.tier == "quick":
        blocks = [(lo, min(lo + 99, 1600)) for lo in range(24, 1601, 100)] + [(65496, 65535), (65536, 65575), (65752, 65791)]
    else:
        blocks = [(lo, min(lo + 127, 65791)) for lo in range(24, 65792, 128)]
        ctx.exhaustive = True
    lines = ["av1.sizes %d %d %d" % (lo, hi, seed) for lo, hi in blocks]
    # beyond the two-group range: both must reject
    lines.append("av1.sizes 65792 65800 %d" % seed)
    mo, io_ = ctx.correspond("av1.sizes", lines, shards=16)
    nsizes = 0
    for l, m, o in zip(lines, mo, io_):
        if "model-roundtrip-fail" in m:
            ctx.proof_failures.append({"what": "model unwrap(wrap x) != x evaluated in the driver", "case": l, "model": m})
        p = o.split(" ")
        if len(p) >= 4 and p[0] == "ok":
            nsizes += int(p[2])
            lo, hi = int(l.split(" ")[1]), int(l.split(" ")[2])
            errs = int(p[3].split("=")[1])
            if hi <= 65791 and errs:
                # locate the failing size on the real code
                for s in range(lo, hi + 1):
                    r, _, _ = common.run_lines(common.LIBCASE, ["av1.sizes %d %d %d" % (s, s, seed)])
                    if r and "errs=1" in r[0]:
                        ctx.oracle_fail({"op": "av1.wrap", "size": s, "input": "content(seed=%d,size=%d)" % (seed, s),
                                         "observed": "encoding failed", "expected": "encodes (size within 24..65791)"})
                        break
    ctx.count("sizes_compared_model_vs_impl", nsizes)
    # direct oracle: valid RPUs of every size
    # base RPU: small, valid, without DM data (so that padding before the CRC32 is plain `remaining` data)
    base = None
    cands = rpucases.gen_structured(rng.fork("base"), 400)
    cands = [b.rstrip(b"\x00") for b, j, t in cands if "dm=0" in t and "remaining=0" in t and len(b.rstrip(b"\x00")) <= 24]
    cands.sort(key=len)
    for c in cands:
        padded = specgen.repair_crc(c[:-5] + bytes(30) + c[-5:])
        r, _, _ = common.run_lines(common.LIBCASE, ["rpu.class " + hx(padded)])
        if r and r[0] == "ok":
            base = c
            break
    if base is None:
        raise common.CheckError("no base RPU for the size sweep")
    rt = ["av1.rt %d %d %d %s" % (lo, hi, seed, hx(base)) for lo, hi in blocks]
    outs, _, _ = common.run_lines_sharded(common.LIBCASE, rt, shards=16)
    tested = 0
    for l, o in zip(rt, outs):
        p = o.split(" ")
        if o.startswith("ok pass"):
            tested += int(p[2])
        else:
            size = p[2].split("=")[1] if len(p) > 2 and "=" in p[2] else "?"
            ctx.oracle_fail({"op": "av1.rt", "size": int(size) if size.isdigit() else -1, "input": l[:200],
                             "observed": o, "expected": "ok pass"})
    for lo, hi in blocks:
        for s in (lo, hi):
            ctx.nontriv("size%d" % s)
    ctx.evaluations += tested
    ctx.count("valid_rpu_sizes_round_tripped_on_real_code", tested)
    ctx.extra["sizes_round_tripped"] = tested
    ctx.sample(rt[0][:200])
    ctx.sample(lines[0])
    # structured RPUs through the OBU form
    n = 600 if ctx.tier == "quick" else 20000
    gen = rpucases.gen_structured(rng.fork("gen"), n)
    l2 = ["av1.obu " + hx(b) for b, _, _ in gen]
    mo, io_ = ctx.correspond("av1.obu", l2)
    l3 = []
    for b, o in zip([g[0] for g in gen], io_):
        if o.startswith("ok ") and o not in ("ok werr",):
            obu = bytes.fromhex(o[3:])
            l3.append("av1.json " + hx(obu))
            l3.append("av1.json " + hx(obu[1:]))
            ctx.nontriv(hx(b))
            if rng.chance(1, 3):
                l3.append("av1.json " + hx(rpucases.mutate(rng, obu, repair=False)))
    ctx.correspond("av1.json", l3, canon=rpucases.canon_json_line)
    ctx.sample(l2[0][:200])
