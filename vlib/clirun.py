"""Helpers to run the dovi_tool binary built from /repo's working tree."""
import os
import shutil
import subprocess
import tempfile

from . import common, rpucases, specgen

SC4 = b"\x00\x00\x00\x01"


def workdir(tag):
    os.makedirs(common.WORK, exist_ok=True)
    return tempfile.mkdtemp(prefix=tag + "-", dir=common.WORK)


def write_rpu_file(path, rpus):
    with open(path, "wb") as f:
        for b in rpus:
            f.write(SC4 + specgen.escape(b))


def read_rpu_file(path):
    """payloads (escaped form, without start code) of an RPU .bin file, split independently of the tool"""
    d = open(path, "rb").read()
    if not d:
        return []
    parts = d.split(SC4)
    return [p for p in parts[1:]]


def run(args, cwd=None, env=None, timeout=120, stdin=None):
    e = dict(os.environ)
    e.setdefault("RUST_BACKTRACE", "0")
    e["RUST_LIB_BACKTRACE"] = "0"
    if env:
        e.update(env)
    try:
        r = subprocess.run([common.DOVI_TOOL] + args, cwd=cwd, env=e, capture_output=True, timeout=timeout, input=stdin)
        return r.returncode, r.stdout, r.stderr
    except subprocess.TimeoutExpired:
        return -999, b"", b"timeout"


def cleanup(d):
    shutil.rmtree(d, ignore_errors=True)
