"""C05 — HEVC pass-through commands (convert, demux, remove) neither lose, alter nor reorder NAL units.

Direct oracle on the real binary: synthetic streams from vlib/hevcgen.py, every output file re-split by
the generator's independent Annex-B splitter and compared with the reference routing of vlib/hevcref.py."""
import json
import os

from . import common
from . import hevcgen as H
from . import hevcmodel as M
from . import hevcref as F
from . import hevcrun as R

HOOK = "DOVI_TOOL_VERIF_CHUNK_SIZE"
REAL_CHUNK = 100000


def _cfg_name(c):
    parts = [c["cmd"]]
    if c.get("edit") is not None:
        parts.append("edit=%s" % (",".join(str(int(x)) for x in c["edit"])))
    if c.get("mode") is not None:
        parts.append("m%d" % c["mode"])
    for k in ("crop", "discard", "el_only"):
        if c.get(k):
            parts.append(k)
    if c.get("start_code"):
        parts.append("sc=" + c["start_code"])
    parts.append("chunk=%s" % (c.get("chunk") or "real"))
    parts.append("stdin" if c.get("stdin") else "file")
    return " ".join(parts)


def build_args(c, inp, jobdir):
    """command line of one configuration; returns (args, {name: output path})"""
    g = []
    if c.get("mode") is not None:
        g += ["-m", str(c["mode"])]
    if c.get("crop"):
        g += ["--crop"]
    if c.get("edit") is not None:
        p = os.path.join(jobdir, "edit.json")
        with open(p, "w") as fh:
            json.dump(F.edit_config_json(c["edit"]), fh)
        g += ["--edit-config", p]
    if c.get("start_code"):
        g += ["--start-code", c["start_code"]]
    if c.get("drop"):
        g += ["--drop-hdr10plus"]
    src = "-" if c.get("stdin") else inp
    inform = ["-i", src] if c.get("iflag") else [src]
    outs = {}
    if c["cmd"] == "convert":
        outs["out"] = os.path.join(jobdir, "out.hevc")
        a = ["convert"] + inform + ["-o", outs["out"]] + (["--discard"] if c.get("discard") else [])
    elif c["cmd"] == "demux":
        outs["el"] = os.path.join(jobdir, "EL_out.hevc")
        a = ["demux"] + inform + ["-e", outs["el"]]
        if c.get("el_only"):
            a += ["--el-only"]
        outs["bl"] = os.path.join(jobdir, "BL_out.hevc")
        a += ["-b", outs["bl"]]
    else:
        outs["bl"] = os.path.join(jobdir, "BL_out.hevc")
        a = ["remove"] + inform + ["-o", outs["bl"]]
    return g + a, outs


def run_job(job):
    """executes one configuration on one stream; returns a result dict (evaluated in the worker)"""
    c = job["cfg"]
    jobdir = job["work"].sub("c")
    env = {}
    if c.get("chunk"):
        env[HOOK] = str(c["chunk"])
    args, outs = build_args(c, job["input"], jobdir)
    if c.get("stdin"):
        res = R.run_tool(args, env=env, stdin_data=job["data"], pieces=c["pieces"], cwd=jobdir, timeout=job.get("timeout", 180))
    else:
        res = R.run_tool(args, env=env, cwd=jobdir, timeout=job.get("timeout", 180))
    exp = job["expected"]
    out = {"job": job, "res": res, "fail": None, "notes": {}, "cmdline": res.cmdline()}
    out["model_fail"] = model_check(job, res, outs)
    if job.get("model_only"):
        # shapes outside the property's quantifier: only the model's description of the tool is checked
        if res.crashed():
            out["fail"] = ("no crash", res.brief())
        out["class"] = "model-only"
        return out
    if exp is None:
        # the library refuses to rewrite one of the RPUs: the command must end with an error, not crash
        if res.rc == 0 or res.crashed():
            out["fail"] = ("error exit (library cannot convert an RPU of this stream)", res.brief())
        out["class"] = "expected-error"
        return out
    if res.rc != 0:
        out["fail"] = ("exit status 0 and conserved NAL units", res.brief())
        return out
    for name, e in exp.items():
        if name == "bl" and c.get("el_only"):
            if os.path.exists(outs["bl"]):
                out["fail"] = ("no BL file with --el-only", "BL file written")
            continue
        if not os.path.exists(outs[name]):
            out["fail"] = ("output file %s" % name, "missing")
            break
        got = F.read_split(outs[name])
        ok, msg, notes = F.compare(got, e, check_sc=False)
        for kk, vv in notes.items():
            out["notes"][kk] = out["notes"].get(kk, 0) + vv
        if not ok:
            out["fail"] = ("%s file = reference routing of the input NAL units (%d NALs)" % (name, len(e)), msg)
            break
        if job["check_sc"]:
            ok, msg, _ = F.compare(got, e, check_sc=True)
            if not ok:
                if c.get("start_code") == "annex-b" or c.get("start_code") in (None, "four"):
                    out["fail"] = ("%s file start codes as documented for --start-code %s" % (name, c.get("start_code") or "four"), msg)
                    break
    out["class"] = "ok"
    return out


def model_check(job, res, outs):
    """the Lean model's answer for the same stream and options against what the CLI did; None = they agree,
    else (model, implementation)"""
    if job.get("model_ans") is None:
        return None
    c = job["cfg"]
    m = M.parse_general(job["model_ans"])
    if m is None:
        if res.rc == 0 or res.crashed():
            return ("err (the command fails)", res.brief())
        return None
    if res.rc != 0:
        return ("ok, " + ", ".join("%s: %d NAL units" % (k, len(v)) for k, v in m.items()), res.brief())
    skip = ("bl",) if c.get("el_only") else ()
    if c.get("el_only") and os.path.exists(outs["bl"]):
        return ("no BL writer with --el-only", "BL file written")
    return M.compare_files(m, outs, check_sc=job["check_sc"], skip=skip)


def gen_cfgs(rng, n, chunks, allow_modes=True, stdin_share=3):
    """n varied configurations"""
    out = []
    for _ in range(n):
        cmd = rng.choice(["convert", "convert", "convert", "demux", "demux", "remove"])
        c = {"cmd": cmd, "iflag": rng.chance(1, 3)}
        if cmd != "remove" and allow_modes:
            r = rng.below(10)
            if r < 4:
                c["mode"] = rng.below(6)
                c["crop"] = rng.chance(1, 4)
            elif r < 5:
                c["crop"] = True
            elif r < 6:
                c["edit"] = rng.choice([(0, False, False), (1, False, False), (2, False, False), (3, False, True), (4, False, False),
                                        (5, False, False), (0, True, False), (0, False, True), (2, True, True)])
                if rng.chance(1, 2):
                    c["mode"] = rng.below(6)   # must be overridden by the config
        if cmd == "convert" and rng.chance(1, 3):
            c["discard"] = True
        if cmd == "demux" and rng.chance(1, 4):
            c["el_only"] = True
        c["start_code"] = rng.choice([None, None, "four", "annex-b", "annex-b"])
        c["chunk"] = rng.choice(chunks)
        c["stdin"] = rng.below(10) < stdin_share
        out.append(c)
    return out


def run(ctx):
    ctx.rule = ("synthetic Annex-B streams [AUD][VPS SPS PPS][prefix SEI]* slice{1..4} [UNSPEC63 EL]* [suffix SEI][RPU][EOS/EOB] "
                "with real parameter sets, hand-written slice headers, GOP structures with reordering, one distinct valid RPU per "
                "frame; classes: shape (all AU shapes, mixed 3/4-byte start codes, trailing zero bytes), size (NALs from 3 bytes to "
                "several read chunks), align (a start code at every offset -4..+4 around multiples of the read chunk, hooked chunk "
                "sizes 64/257/4096 and the real 100000 on streams > 250 kB), each run through convert / demux / remove x "
                "{no mode, -m 0..5, --crop, --edit-config, --discard, --el-only, --start-code four|annex-b} x {file, stdin with a "
                "random write fragmentation}; every output re-split by an independent splitter and compared as (type, payload) "
                "sequence with the reference routing; RPU rewrites compared with the library conversion of the same NAL "
                "(harness op cli.convert / cli.edit); start-code lengths checked against the documented --start-code presets on "
                "streams without trailing zero bytes; non-trivial = a run that succeeded with at least one RPU and one EL NAL or a "
                "mode; distinct by (stream, configuration)")
    ctx.assumptions = ["well-formed streams only: at most one RPU per access unit, no NAL unit ends with a zero byte",
                       "hooked chunk sizes are used on files below 100000 bytes (the file reader's BufReader keeps its 100000-byte "
                       "capacity, so a smaller hooked chunk on a larger file would see short reads that the unhooked tool never sees); "
                       "larger streams run with the real chunk size or through stdin",
                       "frame labels come from hevc_parser; streams whose POC arithmetic underflows in hevc_parser (negative POC, BLA LSB "
                       "far above the previous POC) are not generated"]
    ctx.build_and_audit(need_cli=True)
    rng = ctx.rng.fork("c05")
    quick = ctx.tier == "quick"
    ps = H.ParamSets()
    pool = H.rpu_pool(rng.fork("pool"), 160 if quick else 600)
    rpus = [r for r, _ in pool]
    conv = F.Conv()
    uni = F.universal_rpus(conv, rpus)
    ctx.count("rpu_pool", len(rpus))
    ctx.count("rpu_pool_convertible_in_every_mode", len(uni))

    def pick(r, n):
        # mostly RPUs that every mode can convert (so that mode runs succeed), sometimes the whole pool (then the
        # command must fail cleanly when the library refuses one RPU)
        return r.shuffle(uni if (len(uni) >= n and r.chance(5, 6)) else rpus)[:max(1, n)]
    jobs = []
    streams = []

    def add_stream(tag, st, cfgs, check_sc_ok=True, model_only=False):
        data = st.render()
        assert H.nal_seq(data) == st.seq(), "generator self-check: render/split disagree"
        sid = len(streams)
        streams.append((tag, st, data))
        items = F.items_of(st)
        has_tz = any(n.tz for n in st.nals())
        for c in cfgs:
            if not c.get("stdin") and c.get("chunk") and len(data) >= REAL_CHUNK and REAL_CHUNK % c["chunk"] != 0:
                c["chunk"] = rng.choice([1000, 3125, 20000])   # divisors of the BufReader capacity: no artificial short read
            if c.get("stdin"):
                prof, pieces = R.fragmentation(rng.fork("frag%d" % len(jobs)), len(data), c.get("chunk"))
                c["pieces"] = pieces
                c["frag"] = prof
            key = F.rpu_key(c.get("mode"), c.get("crop"), c.get("edit"))
            conv.ensure([(key, n.data) for n in st.nals() if n.type == H.UNSPEC62])
            exp = F.ref_general(items, c["cmd"], conv, key=key, discard=c.get("discard", False),
                                start_code=c.get("start_code"), drop=False)
            jobs.append({"sid": sid, "tag": tag, "cfg": c, "expected": exp, "check_sc": check_sc_ok and not has_tz,
                         "key": key, "model_only": model_only,
                         "mline": M.general_line(c["cmd"], items, conv, key=key, discard=c.get("discard", False),
                                                 el_only=c.get("el_only", False), start_code=c.get("start_code"), drop=False,
                                                 late=(not c.get("stdin")) and M.first_nal_late(data, c.get("chunk")))})

    # ---- class 1: shapes
    n_shape = 400 if quick else 3000
    hooked = [64, 257, 4096]
    for i in range(n_shape):
        r = rng.fork("shape%d" % i)
        pb = r.choice([4, 5, 8, 8, 16])
        nfr = r.choice([1, 2, 3, 5, 8, 13, 21, 34])
        specs = H.gen_structure(r, nfr, poc_bits=pb)
        el = r.choice(["none", "free", "free", "parse"])
        st = H.build_stream(r, H.Codec(ps, pb), specs, pick(r, nfr),
                            aud=r.choice(["canonical", "any", "none", "mixed"]), params=r.choice(["irap", "first", "every", "mixed"]),
                            el=el, eos=r.choice(["none", "end", "mid", "every"]), sc=r.choice(["four", "three", "mixed", "mixed"]),
                            tz=r.choice([0, 0, 1, 3]), hdr10plus=r.choice([0, 2]), rpu=not r.chance(1, 12),
                            pad=(0, r.choice([4, 40, 200])))
        if st.size() >= REAL_CHUNK - 2000:
            continue
        add_stream("shape", st, gen_cfgs(r, 7 if quick else 8, hooked + ([None] if r.chance(1, 4) else [])))
    # ---- class 2: sizes (3 bytes .. several chunks)
    n_size = 24 if quick else 300
    for i in range(n_size):
        r = rng.fork("size%d" % i)
        chunk = r.choice(hooked)
        specs = H.gen_structure(r, r.choice([3, 6, 10]), poc_bits=8)
        st = H.build_stream(r, H.Codec(ps), specs, pick(r, 10), el=r.choice(["free", "parse"]), sc="mixed",
                            tz=r.choice([0, 2]), eos="end", pad=(0, 10))
        H.inflate(st, r, 4, chunk - 8, min(6 * chunk, 30000))
        if st.size() >= REAL_CHUNK - 2000:
            continue
        cfgs = gen_cfgs(r, 4 if quick else 6, [chunk])
        add_stream("size", st, cfgs)
    # ---- class 3: start codes at every offset -4..+4 around chunk multiples
    deltas = list(range(-4, 5))
    n_align = 6 if quick else 40
    for chunk in hooked:
        for i in range(n_align):
            r = rng.fork("align%d-%d" % (chunk, i))
            nfr = 10 if chunk < 4096 else 9
            specs = H.gen_structure(r, nfr, poc_bits=8)
            st = H.build_stream(r, H.Codec(ps), specs, pick(r, nfr), el=r.choice(["free", "parse", "none"]),
                                sc=r.choice(["mixed", "four", "three"]), tz=0, eos="end", pad=(0, 6), prefix_sei=(0, 1),
                                aud=r.choice(["canonical", "none"]))
            dl = r.shuffle(deltas)
            k = 0
            pos = 0
            for au in st.aus:
                # one NAL after the first slice of this AU (any kind), its start code put at k*chunk + delta
                base = pos
                first_slice = next(j for j, n in enumerate(au.nals) if n.role == "slice")
                cands = list(range(first_slice + 1, len(au.nals)))
                pos += len(au.nals)
                if not cands:
                    continue
                j = base + r.choice(cands)
                H.align_start_code(st, j, chunk, dl[k % 9])
                k += 1
            if st.size() >= REAL_CHUNK - 2000:
                continue
            for off in H.start_code_offsets(st):
                d = ((off + 4) % chunk) - 4
                if -4 <= d <= 4:
                    ctx.count("align chunk=%d delta=%+d" % (chunk, d))
            cfgs = gen_cfgs(r, 5 if quick else 8, [chunk], stdin_share=2)
            add_stream("align", st, cfgs)
    # ---- class 4: the real chunk size on streams > 250 kB, start codes around 100000 and 200000
    n_real = 9 if quick else 60
    for i in range(n_real):
        r = rng.fork("real%d" % i)
        specs = H.gen_structure(r, 9, poc_bits=8)
        st = H.build_stream(r, H.Codec(ps), specs, pick(r, 9), el=r.choice(["free", "parse"]), sc="mixed", tz=0,
                            eos="end", pad=(0, 30))
        nn = st.nals()
        idx = [j for j, n in enumerate(nn)]
        # two targets: a NAL in the 3rd AU and one in the 6th
        tgt = []
        pos = 0
        for au in st.aus:
            fs = next(j for j, n in enumerate(au.nals) if n.role == "slice")
            if au.index in (2, 5) and len(au.nals) > fs + 1:
                tgt.append(pos + fs + 1 + r.below(len(au.nals) - fs - 1))
            pos += len(au.nals)
        for t_i, j in enumerate(tgt):
            d = deltas[(2 * i + t_i) % 9]
            off = H.align_start_code(st, j, REAL_CHUNK, d)
            if off is not None:
                ctx.count("align chunk=real delta=%+d" % d)
        H.inflate(st, r, 1, 60000, 160000 if quick else 420000)
        cfgs = [{"cmd": "convert", "chunk": None, "stdin": False, "start_code": None},
                {"cmd": "demux", "chunk": None, "stdin": False, "start_code": r.choice([None, "annex-b"]), "mode": r.choice([None, 2])},
                {"cmd": "convert", "chunk": None, "stdin": True, "start_code": None, "discard": r.chance(1, 2)}]
        if not quick:
            cfgs += gen_cfgs(r, 3, [None, 1000, 20000])
        add_stream("real", st, cfgs)

    # ---- class 5 (model correspondence only): two RPUs in one access unit.  Outside the property's quantifier (at most
    # one RPU per access unit); the model says what the tool does (demux / remove discard the second one unless the frame
    # is frame 0, convert keeps both) and is compared with the CLI
    for i in range(8 if quick else 60):
        r = rng.fork("corner%d" % i)
        specs = H.gen_structure(r, 4, poc_bits=8)
        st = H.build_stream(r, H.Codec(ps), specs, pick(r, 4), el=r.choice(["free", "none", "parse"]), sc=r.choice(["four", "mixed"]),
                            tz=0, eos="end", pad=(0, 6))
        au = st.aus[i % 4]
        j = next(idx for idx, n in enumerate(au.nals) if n.role == "rpu")
        au.nals.insert(j + 1, H.Nal(r.choice(uni if uni else rpus), "rpu", au.nals[j].sc))
        cfgs = [{"cmd": cmd, "chunk": r.choice([257, None]), "stdin": False, "start_code": r.choice([None, "annex-b"])}
                for cmd in ("convert", "demux", "remove")]
        add_stream("two-rpus-in-one-au", st, cfgs, model_only=True)

    with R.Work("C05") as work:
        for sid, (tag, st, data) in enumerate(streams):
            p = os.path.join(work.dir, "s%d.hevc" % sid)
            with open(p, "wb") as fh:
                fh.write(data)
        for j in jobs:
            j["work"] = work
            j["input"] = os.path.join(work.dir, "s%d.hevc" % j["sid"])
            j["data"] = streams[j["sid"]][2]
        ctx.count("cases through the Lean model (hevc.general)", M.attach(jobs))
        results = R.pmap(run_job, jobs)
        for k, o in enumerate(results):
            j = o["job"]
            c = j["cfg"]
            tag, st, data = streams[j["sid"]]
            ctx.evaluations += 1
            ctx.count("class=" + tag)
            ctx.count("cmd=" + c["cmd"])
            ctx.count("mode=%s" % ("none" if c.get("mode") is None else c["mode"]))
            ctx.count("chunk=%s" % (c.get("chunk") or "real-100000"))
            ctx.count("input=%s" % ("stdin/" + c.get("frag", "") if c.get("stdin") else "file"))
            ctx.count("start_code=%s" % (c.get("start_code") or "default"))
            for f in ("crop", "discard", "el_only"):
                if c.get(f):
                    ctx.count("opt=" + f)
            if c.get("edit") is not None:
                ctx.count("opt=edit-config")
            ctx.count("outcome=" + (o.get("class") or "FAIL"))
            for kk, vv in o["notes"].items():
                ctx.count("note:" + kk, vv)
            if o["fail"] is None and o.get("class") == "ok":
                types = [n.type for n in st.nals()]
                if H.UNSPEC62 in types and (H.UNSPEC63 in types or j["key"] is not None):
                    ctx.nontriv("%d/%s" % (j["sid"], _cfg_name(c)))
            if k % 211 == 0:
                ctx.sample("%s stream#%d (%d bytes, %d NALs, %d frames): %s -> %s" % (
                    tag, j["sid"], len(data), len(st.nals()), len(st.aus), o["cmdline"].replace(work.dir, "$W"), o.get("class")))
            if o.get("model_fail") is not None:
                d = R.save_replay(ctx, "model-s%d-j%d" % (j["sid"], k), {"input.hevc": data},
                                  {"command": o["cmdline"].replace(j["input"], "input.hevc"), "config": {x: y for x, y in c.items() if x != "pieces"},
                                   "model": o["model_fail"][0], "implementation": o["model_fail"][1], "structure": H.describe(st)})
                ctx.disagree("hevc.general " + _cfg_name(c), "%s (stream class %s, seed %d): %s" % (
                    os.path.join(d, "input.hevc") if d else "stream#%d" % j["sid"], tag, ctx.seed, o["cmdline"].replace(work.dir, "$W")),
                    o["model_fail"][0], o["model_fail"][1])
            if o["fail"] is not None:
                case_id = "s%d-j%d" % (j["sid"], k)
                d = R.save_replay(ctx, case_id, {"input.hevc": data},
                                  {"command": o["cmdline"].replace(j["input"], "input.hevc"), "config": {x: y for x, y in c.items() if x != "pieces"},
                                   "stdin_pieces": c.get("pieces", [])[:200], "expected": o["fail"][0], "observed": o["fail"][1],
                                   "structure": H.describe(st)})
                ctx.oracle_fail({"op": "cli " + _cfg_name(c),
                                 "input": "%s (stream class %s, seed %d, %d bytes)" % (os.path.join(d, "input.hevc") if d else "stream#%d" % j["sid"], tag, ctx.seed, len(data)),
                                 "command": o["cmdline"].replace(work.dir, "$W"),
                                 "observed": o["fail"][1][:1500], "expected": o["fail"][0]})
    sizes = sorted(len(n.data) for _, st, _ in streams for n in st.nals())
    ctx.extra["nal_size_min_max"] = [sizes[0], sizes[-1]] if sizes else []
    ctx.extra["streams"] = len(streams)
    ctx.count("nal_sizes<=3", sum(1 for s in sizes if s <= 3))
    ctx.count("nal_sizes>=chunk4096", sum(1 for s in sizes if s >= 4096))
    ctx.count("nal_sizes>=100000", sum(1 for s in sizes if s >= 100000))


def replay(ctx, path):
    """every case is a deterministic function of (seed, tier): a replay re-runs the check with the seed and
    tier recorded in the replay file (the offending input files are kept next to it for inspection)"""
    import json
    d = json.load(open(path))
    ctx.seed = int(d.get("seed", ctx.seed))
    ctx.tier = d.get("tier", ctx.tier)
    ctx.rng = common.Lcg(ctx.seed)
    run(ctx)
    return ctx.finish()
