"""C10 — generator output matches its config: frame count, scene cuts, block precedence."""
import concurrent.futures
import json
import os

from . import common, rpucases, specgen, editgen, clirun, madvrgen


def hx(b):
    return bytes(b).hex() if len(b) else "-"


LEGAL_P = [3]


def block_pair(rng, level=None, bad_len=0):
    b = editgen.gen_block(rng, level, legal_p=LEGAL_P[0], bad_length_p=bad_len)
    r = editgen.render_block(b)
    compact, js = r.split("|", 1)
    return b, compact, json.loads(js)


def gen_config(rng):
    j = {}
    c = []
    clean = rng.chance(7, 10)       # mostly-valid configs: every block legal, length consistent
    LEGAL_P[0] = 4 if clean else 2
    cm = rng.choice(["V40", "V40", "V29", None])
    if cm:
        j["cm_version"] = cm; c.append("cm=%s" % cm[1:])
    prof = rng.choice([None, "5", "8.1", "8.4", "Profile81", "Profile5", "Profile84"])
    if prof:
        j["profile"] = prof; c.append("profile=%s" % prof.replace("Profile", "").replace(".", ""))
    if rng.chance(1, 5):
        j["long_play_mode"] = True; c.append("lp=1")
    if rng.chance(1, 4):
        v = rng.choice([0, 7, 62, 4095]); j["source_min_pq"] = v; c.append("min=%d" % v)
    if rng.chance(1, 4):
        v = rng.choice([0, 3079, 3696, 4095] + ([] if clean else [4096])); j["source_max_pq"] = v; c.append("max=%d" % v)
    if rng.chance(1, 5):
        v = rng.choice(["V29", "V40"]); j["l1_avg_pq_cm_version"] = v; c.append("l1cm=%s" % v[1:])
    if rng.chance(1, 2):
        v = [rng.choice([0, 100, 8191] + ([] if clean else [8192])) for _ in range(4)]
        j["level5"] = dict(zip(["active_area_left_offset", "active_area_right_offset", "active_area_top_offset", "active_area_bottom_offset"], v))
        c.append("l5=" + ":".join(map(str, v)))
    if rng.chance(3, 4):
        v = [rng.choice([1000, 2000, 4000, 10000, 600] + ([] if clean else [10001])), rng.choice([1, 50, 10, 11, 9, 49, 51, 0]), rng.below(5000), rng.below(1000)]
        j["level6"] = dict(zip(["max_display_mastering_luminance", "min_display_mastering_luminance",
                                "max_content_light_level", "max_frame_average_light_level"], v))
        c.append("l6=" + ":".join(map(str, v)))
    v29only = clean and cm == "V29"
    pick = (lambda opts: rng.choice([x for x in opts if x in (1, 2, 4, 255)] or [1])) if v29only else (lambda opts: rng.choice(opts))
    bad = 12 if (not clean and rng.chance(1, 3)) else 0
    if rng.chance(1, 2):
        bl = [block_pair(rng, pick([1, 2, 3, 4, 8, 9, 10, 11, 255, None]), bad) for _ in range(1 + rng.below(4))]
        j["default_metadata_blocks"] = [x[2] for x in bl]
        c.append("defaults=" + ";".join(x[1] for x in bl))
    nshots = rng.choice([0, 0, 1, 2, 3, 5])
    shots = []
    cs = []
    total = 0
    start = 0
    for s in range(nshots):
        dur = rng.choice([0, 1, 2, 3, 7])
        bl = [block_pair(rng, pick([1, 1, 2, 3, 8, 10, None]), bad) for _ in range(rng.below(4))]
        eds = []
        ecs = []
        for _ in range(rng.below(3)):
            off = rng.choice([0, max(0, dur - 1), dur, dur + 3, rng.below(dur + 1)])
            eb = [block_pair(rng, pick([1, 2, 8, None]), bad) for _ in range(1 + rng.below(2))]
            eds.append({"edit_offset": off, "metadata_blocks": [x[2] for x in eb]})
            ecs.append("%d@%s" % (off, "+".join(x[1] for x in eb)))
        st = start if rng.chance(3, 4) else rng.below(50)
        shots.append({"start": st, "duration": dur, "metadata_blocks": [x[2] for x in bl], "frame_edits": eds})
        cs.append("%d:%d:%s:%s" % (st, dur, ";".join(x[1] for x in bl), "^".join(ecs)))
        total += dur
        start += dur
    if shots:
        j["shots"] = shots
        c.append("shots=" + "~".join(cs))
    k = rng.below(10)
    if k < 4 or not shots:
        ln = total if (shots and (clean or rng.chance(1, 2))) else rng.choice([0, 1, 3, total + 1, 9] + ([2 ** 62, 2 ** 64 - 1] if shots else []))
        j["length"] = ln; c.append("length=%d" % ln)
    return j, ("&".join(c) if c else "-")


KEYED = {"Level2": "target_max_pq", "Level8": "target_display_index", "Level10": "target_display_index"}


def clamp_l1(b, cm40):
    """GenerateConfig::fixup_l1 (CLI, non-XML sources): ExtMetadataBlockLevel1::clamp_values_int"""
    mn = min(max(b["min_pq"], 0), 12)
    mx = min(max(b["max_pq"], 2081), 4095)
    lo = 1229 if cm40 else 819
    av = min(max(b["avg_pq"], lo), mx - 1) if lo <= mx - 1 else None
    return {"min_pq": mn, "max_pq": mx, "avg_pq": av}


def winners(blocks):
    """per (level, key): the last block of a source list"""
    w = {}
    for b in blocks:
        name = list(b)[0]
        key = b[name].get(KEYED[name]) if name in KEYED else None
        w[(name, key)] = b[name]
    return w


def frame_blocks(jj):
    out = {}
    for ck in ("cmv29_metadata", "cmv40_metadata"):
        for b in (jj["vdr_dm_data"].get(ck) or {}).get("ext_metadata_blocks", []):
            name = list(b)[0]
            key = b[name].get(KEYED[name]) if name in KEYED else None
            out.setdefault((name, key), []).append(b[name])
    return out


def precedence_expect(cfg, shot, i):
    """(source, {(level,key): block}) the property requires in frame `i` of `shot`: blocks of the frame edit at that
    offset win over the shot's, which win over the defaults. Frames with two edits at the same offset are
    skipped (the property does not say which wins)."""
    exp = {}
    for b, v in winners(cfg.get("default_metadata_blocks") or []).items():
        # docs/generator.md: the default list "does not accept L5, L6 and L254 metadata" (L5/L6 come from
        # the config's level5/level6 keys)
        if b[0] not in ("Level5", "Level6", "Level254"):
            exp[b] = ("default", v)
    for b, v in winners(shot.get("metadata_blocks") or []).items():
        exp[b] = ("shot", v)
    eds = [e for e in shot.get("frame_edits") or [] if e["edit_offset"] == i]
    if len(eds) > 1:
        return None
    for e in eds:
        for b, v in winners(e["metadata_blocks"]).items():
            exp[b] = ("edit", v)
    return exp


def run_case(args):
    i, work, cfg, popt, lpopt = args
    d = os.path.join(work, "c%d" % i)
    os.makedirs(d, exist_ok=True)
    cp = os.path.join(d, "cfg.json")
    json.dump(cfg, open(cp, "w"))
    outp = os.path.join(d, "out.bin")
    a = ["generate", "-j", cp, "-o", outp]
    if popt:
        a += ["-p", popt]
    if lpopt is not None:
        a += ["--long-play-mode", "true" if lpopt else "false"]
    rc, so, se = clirun.run(a)
    out = clirun.read_rpu_file(outp) if rc == 0 and os.path.exists(outp) else None
    return rc, out, se[-300:].decode(errors="replace")


def hdr10plus_cases(ctx, rng, work):
    """`generate --hdr10plus-json`: synthesised HDR10+ JSON (1..k scenes, every peak source) plus a JSON config whose
    shots carry override blocks: frame count, scene cuts at the scene starts, one L1 per scene computed from the
    scene's first frame (exact ST 2084 codes, clamped), override blocks of shot k on every frame of scene k"""
    from . import c19
    ncase = 24 if ctx.tier == "quick" else 400
    mlines = []          # (model request line, the real CLI's answer, stderr tail) — compared after the loop
    for i in range(ncase):
        nsc = 1 + rng.below(5)
        lens = [1 + rng.below(6) for _ in range(nsc)]
        first0 = rng.choice([0, 0, 5])
        frames = []
        firsts = []
        idx = first0
        for sc, ln in enumerate(lens):
            firsts.append(idx)
            for f in range(ln):
                maxscl = [rng.below(100000) for _ in range(3)]
                dist = sorted(rng.below(100000) for _ in range(9))
                frames.append({"LuminanceParameters": {"AverageRGB": rng.choice([rng.below(20000), rng.below(20000), rng.below(120), rng.below(40)]),
                                                       "LuminanceDistributions": {"DistributionIndex": [1, 5, 10, 25, 50, 75, 90, 95, 99],
                                                                                  "DistributionValues": dist},
                                                       "MaxScl": maxscl},
                               "NumberOfWindows": 1, "TargetedSystemDisplayMaximumLuminance": 0,
                               "SceneFrameIndex": f, "SceneId": sc, "SequenceFrameIndex": idx})
                idx += 1
        hj = {"JSONInfo": {"HDR10plusProfile": "A", "Version": "1.0"}, "SceneInfo": frames,
              "SceneInfoSummary": {"SceneFirstFrameIndex": firsts, "SceneFrameNumbers": lens},
              "ToolInfo": {"Tool": "verif", "Version": "0"}}
        d = os.path.join(work, "h%d" % i)
        os.makedirs(d, exist_ok=True)
        hp = os.path.join(d, "h.json")
        json.dump(hj, open(hp, "w"))
        cm40 = rng.chance(1, 2)
        cfg = {"cm_version": "V40" if cm40 else "V29", "length": 0,
               "level6": {"max_display_mastering_luminance": 1000, "min_display_mastering_luminance": 1,
                          "max_content_light_level": 0, "max_frame_average_light_level": 0}, "shots": []}
        over = []
        overc = []
        for sc in range(rng.below(nsc + 2)):
            b, bc, js = block_pair(rng, rng.choice([2, 2, 1]))
            cfg["shots"].append({"start": 0, "duration": 0, "metadata_blocks": [js]})
            over.append(js)
            overc.append("0:0:%s:" % bc)
        cp = os.path.join(d, "cfg.json")
        json.dump(cfg, open(cp, "w"))
        src = rng.choice(["histogram", "histogram99", "max-scl", "max-scl-luminance"])
        outp = os.path.join(d, "out.bin")
        rc, so, se = clirun.run(["generate", "-j", cp, "--hdr10plus-json", hp, "--hdr10plus-peak-source", src, "-o", outp])
        ctx.evaluations += 1
        ctx.count("hdr10plus peak-source=%s" % src)
        case = {"op": "generate --hdr10plus-json", "input": json.dumps({"hdr10plus": hj["SceneInfoSummary"], "config": cfg, "peak_source": src})[:3000]}
        # the Lean model of this path (Model/GenSources.lean hdr10plusConfig): same config, decoded source data
        compact = "cm=%s&length=0&l6=1000:1:0:0" % ("40" if cm40 else "29") + ("&shots=" + "~".join(overc) if overc else "")
        mlines.append(("c10.gensrc hdr10plus %s - - %s" % (compact, madvrgen.hdr10plus_source(hj, src)),
                       impl_answer(rc, outp), se[-150:].decode(errors="replace")))
        if rc not in (0, 1):
            ctx.oracle_fail(dict(case, observed="exit %s %s" % (rc, se[-200:]), expected="exit 0 or an error", shape="crash"))
            continue
        if rc != 0:
            ctx.count("hdr10plus result=err")
            continue
        out = clirun.read_rpu_file(outp)
        ctx.nontriv("hdr10plus%d" % i)
        total = sum(lens)
        if len(out) != total:
            ctx.oracle_fail(dict(case, observed="%d frames" % len(out), expected="%d frames" % total, shape="frame-count"))
            continue
        pj, _, _ = common.run_lines(common.LIBCASE, ["nalu.json 7c01" + o.hex() for o in out])
        starts = set(x - first0 for x in firsts)
        k = 0
        for sc, ln in enumerate(lens):
            fm = frames[k]["LuminanceParameters"]
            avg_nits = round_half_even_free(fm["AverageRGB"] / 10.0)
            lo = 1229 if cm40 else 819
            for f in range(ln):
                jj = json.loads(pj[k + f][3:]) if pj[k + f].startswith("ok {") else None
                if jj is None:
                    ctx.oracle_fail(dict(case, observed="frame %d does not parse" % (k + f), expected="parses", shape="unparsable"))
                    break
                flag = jj["vdr_dm_data"]["scene_refresh_flag"]
                if flag != (1 if (k + f) in starts else 0):
                    ctx.oracle_fail(dict(case, frame=k + f, observed="scene flag %d" % flag, expected="1 exactly on the first frame of each HDR10+ scene", shape="profile-or-scene-cut"))
                    break
                have = frame_blocks(jj)
                l1 = (have.get(("Level1", None)) or [None])[0]
                if src == "max-scl" and l1 is not None:
                    mx_nits = round_half_even_free(max(fm["MaxScl"]) / 10.0)
                    want_max = min(max(c19.code_dec(c19.D(mx_nits))[0], 2081), 4095)
                    want_avg = min(max(c19.code_dec(c19.D(avg_nits))[0], lo), want_max - 1)
                    ov_l1 = [o["Level1"] for o in over[sc:sc + 1] if "Level1" in o]
                    if not ov_l1 and (l1["max_pq"], l1["avg_pq"], l1["min_pq"]) != (want_max, want_avg, 0):
                        ctx.oracle_fail(dict(case, frame=k + f, observed=json.dumps(l1), expected="L1 max_pq %d avg_pq %d min_pq 0 (ST 2084 codes of the scene's first frame, clamped)" % (want_max, want_avg), shape="hdr10plus-l1"))
                        break
                if sc < len(over):
                    name = list(over[sc])[0]
                    if name != "Level1":
                        key = over[sc][name].get(KEYED[name]) if name in KEYED else None
                        got = have.get((name, key), [])
                        if not any(all(over[sc][name].get(kk) == vv for kk, vv in g.items()) for g in got):
                            ctx.oracle_fail(dict(case, frame=k + f, observed="%s in frame: %s" % (name, json.dumps(got)[:200]),
                                                 expected="the override block of config shot %d: %s" % (sc, json.dumps(over[sc][name])[:200]), shape="precedence"))
                            break
            k += ln
    compare_with_model(ctx, "generate --hdr10plus-json", mlines)


def impl_answer(rc, outp):
    """the real CLI's result in the model's answer format"""
    if rc == 0 and os.path.exists(outp):
        out = clirun.read_rpu_file(outp)
        return "ok %d %s" % (len(out), ",".join(rpucases.unescape(o).hex() for o in out) if out else "-")
    return "err" if rc == 1 else ("panic" if rc == 101 else "exit %s" % rc)


def compare_with_model(ctx, op, mlines):
    """mlines: (request line, real CLI's answer, stderr tail); every difference is a model/implementation disagreement"""
    if not mlines:
        return
    mo, _, _ = common.run_lines_sharded(common.MODEL_EXE, [m[0] for m in mlines])
    ctx.evaluations += len(mlines)
    for (line, impl, se), m in zip(mlines, mo):
        ctx.count("%s: model %s" % (op, m.split(" ")[0]))
        if m != impl:
            ctx.disagree(op, line[:5000], m[:300], impl[:300] + " | " + se)


def gen_src_config(rng, nshots, force_floor=False):
    """a config for the HDR10+ / madVR paths: `nshots` shots (their start/duration are ignored by the tool) carrying
    blocks of every level (L1 ones must be dropped by the merge) and frame edits at small offsets (duplicates included).
    Returns (json, compact form, clean) — `clean`: all blocks legal for the CM version."""
    j = {}
    c = []
    clean = rng.chance(6, 7)
    LEGAL_P[0] = 4 if clean else 2
    cm = rng.choice(["V40", "V40", "V29", None])
    if force_floor:
        # the L1 average floor of the *other* CM version (819 under CM v4.0, 1229 under CM v2.9)
        cm = rng.choice(["V40", None, "V29"])
    if cm:
        j["cm_version"] = cm; c.append("cm=%s" % cm[1:])
    prof = rng.choice([None, None, "5", "8.1", "8.4"])
    if prof:
        j["profile"] = prof; c.append("profile=%s" % prof.replace(".", ""))
    if rng.chance(1, 5):
        j["long_play_mode"] = True; c.append("lp=1")
    if force_floor:
        v = "V40" if cm == "V29" else "V29"; j["l1_avg_pq_cm_version"] = v; c.append("l1cm=%s" % v[1:])
    elif rng.chance(1, 4):
        v = rng.choice(["V29", "V40"]); j["l1_avg_pq_cm_version"] = v; c.append("l1cm=%s" % v[1:])
    if rng.chance(1, 4):
        v = [rng.choice([0, 100, 8191]) for _ in range(4)]
        j["level5"] = dict(zip(["active_area_left_offset", "active_area_right_offset", "active_area_top_offset", "active_area_bottom_offset"], v))
        c.append("l5=" + ":".join(map(str, v)))
    if rng.chance(5, 6):
        v = [rng.choice([1000, 4000, 10000]), rng.choice([1, 50]), rng.choice([0, 0, 1, 999, 10000]), rng.choice([0, 0, 1, 400])]
        j["level6"] = dict(zip(["max_display_mastering_luminance", "min_display_mastering_luminance",
                                "max_content_light_level", "max_frame_average_light_level"], v))
        c.append("l6=" + ":".join(map(str, v)))
    v29only = clean and cm == "V29"
    pick = (lambda opts: rng.choice([x for x in opts if x in (1, 2, 4, 255)] or [2])) if v29only else (lambda opts: rng.choice(opts))
    if rng.chance(1, 3):
        bl = [block_pair(rng, pick([1, 2, 3, 4, 8, 9, 11])) for _ in range(1 + rng.below(3))]
        j["default_metadata_blocks"] = [x[2] for x in bl]
        c.append("defaults=" + ";".join(x[1] for x in bl))
    shots = []
    cs = []
    for s in range(nshots):
        bl = [block_pair(rng, pick([1, 2, 2, 3, 4, 8, 10, 255])) for _ in range(rng.below(4))]
        eds = []
        ecs = []
        for _ in range(rng.below(4)):
            off = rng.choice([0, 0, 1, 2, 3, 7, 50])
            eb = [block_pair(rng, pick([1, 2, 2, 3, 8])) for _ in range(1 + rng.below(2))]
            eds.append({"edit_offset": off, "metadata_blocks": [x[2] for x in eb]})
            ecs.append("%d@%s" % (off, "+".join(x[1] for x in eb)))
        st, dur = rng.choice([(0, 0), (0, 0), (3, 5), (0, 1)])
        shots.append({"start": st, "duration": dur, "metadata_blocks": [x[2] for x in bl], "frame_edits": eds})
        cs.append("%d:%d:%s:%s" % (st, dur, ";".join(x[1] for x in bl), "^".join(ecs)))
    if shots:
        j["shots"] = shots
        c.append("shots=" + "~".join(cs))
    if rng.chance(1, 3):
        ln = rng.choice([0, 1, 7, 1000])
        j["length"] = ln; c.append("length=%d" % ln)
    return j, ("&".join(c) if c else "-"), clean


MADVR_KINDS = ["valid"] * 12 + ["unordered", "shifted-same-sum", "no-scenes", "end-beyond", "end-beyond", "not-tiling", "not-tiling", "truncated",
                                "truncated", "flags0", "bad-targets", "bad-magic", "end-zero", "end-before-start", "tiny"]


def not_l1(blocks):
    return [b for b in blocks if list(b)[0] != "Level1"]


def madvr_cases(ctx, rng, work):
    """`generate --madvr-file`: synthesised madVR measurement files (vlib/madvrgen.py: versions 4/5/6, flags 1/2/3/7,
    1..6 scenes tiling 1..40 frames, peak nits and MaxCLL/MaxFALL at and beyond their limits, empty / saturated
    histograms; scenes in any order, a scene shifted by one frame with the lengths still adding up (accepted by the tool);
    malformed: scene end beyond the frames, scenes not tiling the frames, truncated, flags 0, end word 0,
    end before start, wrong number of per-frame targets, bad magic) x configs with 0..3 shots carrying non-L1 and L1
    blocks and frame edits x --use-custom-targets. Three-way: the real CLI, the Lean model (`c10.gensrc madvr` on the
    integers decoded independently by madvrgen.decode_bytes) and the direct oracle madvrgen.oracle (frame count, scene
    cuts, per-frame L1, L6 MaxCLL/MaxFALL; config shot k's non-L1 blocks on the frames of scene k)."""
    from . import c19
    ncase = 60 if ctx.tier == "quick" else 1500
    code_dec = lambda nits: c19.code_dec(c19.D(nits))
    mlines = []
    for i in range(ncase):
        kind = rng.choice(MADVR_KINDS)
        spec = madvrgen.gen_spec(rng, kind)
        dark = i % 4 == 3
        if dark and spec.get("frames"):
            # dark scenes: every frame's average lands between the two L1 floors (819 / 1229)
            for fr_ in spec["frames"]:
                nb = len(fr_["lum"])
                h_ = [0] * nb
                h_[(17 + rng.below(8)) if nb == 256 else rng.choice([5, 6])] = 64000
                fr_["lum"] = h_
            ctx.count("madvr dark scenes with the other CM version's L1 floor")
        cfg, compact, clean = gen_src_config(rng, rng.choice([0, 1, 2, 3]), force_floor=dark)
        custom = rng.chance(1, 2)
        popt = rng.choice([None, None, None, "5", "8.4"])
        lpopt = rng.choice([None, None, None, True, False])
        d = os.path.join(work, "m%d" % i)
        os.makedirs(d, exist_ok=True)
        data = madvrgen.encode(spec)
        mp = os.path.join(d, "m.bin")
        open(mp, "wb").write(data)
        cp = os.path.join(d, "cfg.json")
        json.dump(cfg, open(cp, "w"))
        outp = os.path.join(d, "out.bin")
        a = ["generate", "-j", cp, "--madvr-file", mp, "-o", outp] + (["--use-custom-targets"] if custom else [])
        if popt:
            a += ["-p", popt]
        if lpopt is not None:
            a += ["--long-play-mode", "true" if lpopt else "false"]
        # no backtrace, whatever the caller's environment says: the known-finding matcher looks for the panic site in the
        # last 300 bytes of stderr
        rc, so, se = clirun.run(a, env={"RUST_BACKTRACE": "0"})
        ctx.evaluations += 1
        ctx.count("madvr kind=%s" % kind)
        ctx.count("madvr version=%d flags=%d%s" % (spec["version"], spec["flags"], " custom" if custom else ""))
        impl = impl_answer(rc, outp)
        set_ = se[-300:].decode(errors="replace")
        case = {"op": "generate --madvr-file", "kind": kind, "madvr_hex": data.hex() if len(data) <= 40000 else data[:2000].hex() + "...",
                "config": cfg, "args": " ".join(a[5:]),
                "input": json.dumps({"kind": kind, "version": spec["version"], "flags": spec["flags"], "scenes": spec["scenes"],
                                     "frames": len(spec["frames"]), "maxcll": spec["maxcll"], "maxfall": spec["maxfall"],
                                     "truncate_to": spec.get("truncate_to"), "custom": custom})[:3000]}
        # 1. no crash, whatever the file is
        if rc not in (0, 1):
            ctx.oracle_fail(dict(case, observed="exit %s %s" % (rc, set_), expected="exit 0 or an error message", shape="crash"))
        # 2. the model, on the independently decoded integers (or the byte-level reader's own outcome)
        dec = madvrgen.decode_bytes(data)
        if dec["outcome"] == "model":
            mlines.append(("c10.gensrc madvr %s %d %s %s %s" % (compact, 1 if custom else 0, popt.replace(".", "") if popt else "-",
                                                                "-" if lpopt is None else ("1" if lpopt else "0"), madvrgen.model_source(dec)),
                           impl, set_))
        else:
            ctx.count("madvr byte-level reader outcome=%s" % dec["outcome"])
            if impl != dec["outcome"]:
                ctx.disagree("generate --madvr-file (byte-level reader)", case["input"], dec["outcome"] + ": " + dec["why"], impl + " | " + set_)
        # 3. the direct oracle
        if "truncate_to" in spec or kind in ("bad-magic", "bad-targets"):
            if rc == 0:
                ctx.oracle_fail(dict(case, observed="exit 0", expected="an error: the file is not a complete measurement file", shape="malformed-accepted"))
            continue
        want = madvrgen.oracle(spec, cfg, custom, code_dec)
        if want in ("err", "malformed"):
            if rc == 0:
                ctx.oracle_fail(dict(case, observed="exit 0, %s" % impl[:40], expected="an error (%s)" % kind, shape="malformed-accepted"))
            continue
        if want["l6"] is not None and max(want["l6"]) > 10000:
            if rc == 0:
                ctx.oracle_fail(dict(case, observed="exit 0", expected="an error: MaxCLL/MaxFALL above 10000", shape="l6-range"))
            continue
        if rc != 0:
            if clean:
                ctx.count("madvr well-formed file, legal config, rejected")
                ctx.oracle_fail(dict(case, observed="exit %s %s" % (rc, set_), expected="%d RPUs" % len(want["frames"]), shape="wellformed-rejected"))
            continue
        out = clirun.read_rpu_file(outp)
        ctx.nontriv("madvr%d" % i)
        if len(out) != len(want["frames"]):
            ctx.oracle_fail(dict(case, observed="%d frames" % len(out), expected="%d frames" % len(want["frames"]), shape="frame-count"))
            continue
        pj, _, _ = common.run_lines(common.LIBCASE, ["nalu.json 7c01" + o.hex() for o in out])
        lp = lpopt if lpopt is not None else cfg.get("long_play_mode", False)
        # frame -> (scene index, offset)
        where = []
        for k, (st, e1, pk) in enumerate(spec["scenes"]):
            where += [(k, j) for j in range(e1 - st)]
        for f, o in enumerate(pj):
            if not o.startswith("ok {"):
                ctx.oracle_fail(dict(case, frame=f, observed="generated RPU does not parse", expected="parses", shape="unparsable"))
                break
            jj = json.loads(o[3:])
            cut, l1w, fuzzy = want["frames"][f]
            cut = 1 if (lp or cut) else 0
            if jj["vdr_dm_data"]["scene_refresh_flag"] != cut:
                ctx.oracle_fail(dict(case, frame=f, observed="scene flag %s" % jj["vdr_dm_data"]["scene_refresh_flag"],
                                     expected="%d (1 exactly on the first frame of each madVR scene)" % cut, shape="profile-or-scene-cut"))
                break
            have = frame_blocks(jj)
            l1 = (have.get(("Level1", None)) or [None])[0]
            if l1w is None:
                ctx.count("madvr no scene: frame without source L1")
            elif fuzzy:
                ctx.count("madvr L1 within 1e-6 of a rounding tie (not judged)")
            else:
                ctx.count("madvr L1 checked")
                if l1 is None or (l1["min_pq"], l1["max_pq"], l1["avg_pq"]) != l1w:
                    ctx.oracle_fail(dict(case, frame=f, observed="L1 %s" % json.dumps(l1), expected="L1 min/max/avg %s (%s)" % (
                        l1w, "frame target, scene average" if (custom and spec["flags"] == 3) else "scene peak, scene average"), shape="madvr-l1"))
                    break
            k, j = where[f] if f < len(where) else (None, None)
            sh = (cfg.get("shots") or [])[k] if (k is not None and k < len(cfg.get("shots") or [])) else None
            eff = {"metadata_blocks": not_l1(sh.get("metadata_blocks") or []),
                   "frame_edits": [{"edit_offset": e["edit_offset"], "metadata_blocks": not_l1(e["metadata_blocks"])}
                                   for e in sh.get("frame_edits") or []]} if sh else {"metadata_blocks": [], "frame_edits": []}
            exp = precedence_expect(dict(cfg, default_metadata_blocks=not_l1(cfg.get("default_metadata_blocks") or [])
                                         if l1w is not None else cfg.get("default_metadata_blocks") or []), eff, j if j is not None else f)
            l6 = (have.get(("Level6", None)) or [None])[0]
            if want["l6"] is not None and not any(nm == "Level6" for (nm, _) in (exp or {})) and exp is not None:
                ctx.count("madvr L6 checked")
                if l6 is None or (l6["max_content_light_level"], l6["max_frame_average_light_level"]) != want["l6"]:
                    ctx.oracle_fail(dict(case, frame=f, observed="L6 %s" % json.dumps(l6), expected="MaxCLL/MaxFALL %s (config value, else the file's when 0)" % (want["l6"],), shape="madvr-l6"))
                    break
            bad = False
            for (name, key), (src, wantb) in (exp or {}).items():
                if cfg.get("cm_version", "V40") == "V29" and name not in ("Level1", "Level2", "Level4", "Level5", "Level6", "Level255"):
                    continue
                if name == "Level1":
                    continue
                got = have.get((name, key), [])
                ctx.count("madvr precedence-checked=%s" % src)
                if not any(all(wantb.get(kk) == vv for kk, vv in g.items()) for g in got):
                    ctx.oracle_fail(dict(case, frame=f, observed="%s key %s in frame: %s" % (name, key, json.dumps(got)[:300]),
                                         expected="the %s block %s of config shot %s" % (src, json.dumps(wantb)[:300], k), shape="precedence"))
                    bad = True
                    break
            if bad:
                break
    compare_with_model(ctx, "generate --madvr-file", mlines)


def hdr10plus_malformed_cases(ctx, rng, work):
    """HDR10+ JSON whose summary arrays do not fit the frames (empty / decreasing `SceneFirstFrameIndex`, too few
    `SceneFrameNumbers`, a first frame without a peak value, scene lengths not adding up): the real CLI vs the model
    (Model/GenSources.lean hdr10plusConfig: `.error` in all these cases since /repo 3502e27, never `.panic`);
    direct oracle: an error exit with a message — neither a crash nor success — for every summary that does not fit the
    frames and when the scene lengths do not add up to the frame count"""
    ncase = 16 if ctx.tier == "quick" else 200
    mlines = []
    for i in range(ncase):
        nfr = 1 + rng.below(8)
        kind = rng.choice(["empty-firsts", "decreasing", "short-lengths", "no-peak", "bad-sum", "duplicate-firsts", "beyond", "fine"])
        frames = [{"LuminanceParameters": {"AverageRGB": rng.choice([rng.below(20000), rng.below(20000), rng.below(120), rng.below(40)]),
                                           "LuminanceDistributions": {"DistributionIndex": [1, 5, 10, 25, 50, 75, 90, 95, 99],
                                                                      "DistributionValues": sorted(rng.below(100000) for _ in range(9))},
                                           "MaxScl": [rng.below(100000) for _ in range(3)]},
                   "NumberOfWindows": 1, "TargetedSystemDisplayMaximumLuminance": 0,
                   "SceneFrameIndex": 0, "SceneId": 0, "SequenceFrameIndex": f} for f in range(nfr)]
        cutp = sorted(set([0] + [rng.below(nfr) for _ in range(rng.below(3))]))
        first0 = rng.choice([0, 3])
        firsts = [first0 + x for x in cutp]
        lens = [b - a for a, b in zip(cutp, cutp[1:] + [nfr])]
        src = rng.choice(["histogram", "histogram99", "max-scl", "max-scl-luminance"])
        if kind == "empty-firsts":
            firsts = []
        elif kind == "decreasing":
            firsts = [first0 + 2] + [first0 + x for x in cutp]
        elif kind == "short-lengths":
            lens = lens[:-1]
        elif kind == "no-peak":
            fm = frames[rng.choice(cutp)]["LuminanceParameters"]
            fm["LuminanceDistributions"]["DistributionValues"] = []
            fm["MaxScl"] = rng.choice([[], [1, 2], [1, 2, 3, 4]])
        elif kind == "bad-sum":
            lens[rng.below(len(lens))] += rng.choice([1, 2, 7])
        elif kind == "duplicate-firsts":
            firsts = firsts + [firsts[-1]]
        elif kind == "beyond":
            firsts = firsts + [first0 + nfr + rng.below(3)]
            lens = lens + [1]
        hj = {"JSONInfo": {"HDR10plusProfile": "A", "Version": "1.0"}, "SceneInfo": frames,
              "SceneInfoSummary": {"SceneFirstFrameIndex": firsts, "SceneFrameNumbers": lens},
              "ToolInfo": {"Tool": "verif", "Version": "0"}}
        cfg, compact, clean = gen_src_config(rng, rng.choice([0, 1, 2]))
        d = os.path.join(work, "hm%d" % i)
        os.makedirs(d, exist_ok=True)
        hp = os.path.join(d, "h.json")
        json.dump(hj, open(hp, "w"))
        cp = os.path.join(d, "cfg.json")
        json.dump(cfg, open(cp, "w"))
        outp = os.path.join(d, "out.bin")
        rc, so, se = clirun.run(["generate", "-j", cp, "--hdr10plus-json", hp, "--hdr10plus-peak-source", src, "-o", outp],
                                env={"RUST_BACKTRACE": "0"})
        ctx.evaluations += 1
        ctx.count("hdr10plus malformed kind=%s" % kind)
        set_ = se[-300:].decode(errors="replace")
        case = {"op": "generate --hdr10plus-json", "kind": kind, "config": cfg, "hdr10plus": hj if nfr <= 3 else hj["SceneInfoSummary"],
                "input": json.dumps({"kind": kind, "summary": hj["SceneInfoSummary"], "frames": nfr, "peak_source": src})}
        if rc not in (0, 1):
            ctx.oracle_fail(dict(case, observed="exit %s %s" % (rc, set_), expected="exit 0 or an error message", shape="crash"))
        if kind == "bad-sum" and rc == 0:
            ctx.oracle_fail(dict(case, observed="exit 0", expected="an error: scene lengths do not add up to the frame count", shape="malformed-accepted"))
        # summaries that do not fit the frames: an error message (these were panics before /repo 3502e27)
        unfit = kind in ("empty-firsts", "decreasing", "short-lengths") or (
            kind == "no-peak" and (src in ("histogram", "histogram99", "max-scl-luminance") or fm["MaxScl"] == []))
        if unfit:
            ctx.count("hdr10plus malformed: summary does not fit, error expected")
            if rc == 0 or (rc == 1 and b"Error" not in se):
                ctx.oracle_fail(dict(case, observed="exit %s %s" % (rc, set_), expected="exit 1 with an error message (%s)" % kind,
                                     shape="malformed-accepted" if rc == 0 else "error-without-message"))
        mlines.append(("c10.gensrc hdr10plus %s - - %s" % (compact, madvrgen.hdr10plus_source(hj, src)), impl_answer(rc, outp), set_))
    compare_with_model(ctx, "generate --hdr10plus-json (malformed)", mlines)


def round_half_even_free(x):
    """f64::round (half away from zero) for x >= 0"""
    import math
    r = math.floor(x)
    return r + 1 if x - r >= 0.5 else r


def run(ctx):
    ctx.rule = ("generator configs over cm_version x profile x long_play_mode, 0..5 shots of any durations (0 included) in any "
                "order, frame edits at offsets 0 / last / beyond the shot / duplicated, blocks of every level and length variant "
                "with in- and out-of-range values (and unsupported L8/L9/L10 lengths) in defaults, shots and edits, length "
                "given / omitted / inconsistent, level5/level6 given or omitted, CLI overrides -p and --long-play-mode; the real "
                "CLI's RPU list and exit status are compared with the Lean GenModel, and checked directly: no crash, exactly "
                "sum-of-durations frames, every RPU parses with the requested profile, scene-cut flag exactly at shot starts "
                "(everywhere in long-play mode); non-trivial = generation succeeded with >= 1 shot block or edit; distinct by config hash")
    ctx.rule += ("; plus `--hdr10plus-json` runs on synthesised HDR10+ JSON (1..5 scenes, every peak source) with override shots: "
                 "frame count, scene cuts at the scene starts, per-scene L1 from the first frame (exact ST 2084 codes, clamped; "
                 "max-scl source), override blocks on every frame of their scene — direct oracles, and the real CLI's RPU list "
                 "against the Lean model of the path (Model/GenSources.lean hdr10plusConfig via `c10.gensrc hdr10plus`, fed with "
                 "the PQ codes decoded independently in vlib/madvrgen.py); a malformed HDR10+ family (summary arrays that do "
                 "not fit the frames) against the model; plus `--madvr-file` runs on synthesised madVR measurement files "
                 "(vlib/madvrgen.py: versions 4/5/6, flags 1/2/3/7, 1..6 scenes tiling 1..40 frames, peak nits / MaxCLL / MaxFALL "
                 "at and beyond their limits, empty and saturated histograms, and malformed files: scene beyond the frames, "
                 "scenes not tiling, truncated, flags 0, end word 0, end before start, wrong target count, bad magic) x configs "
                 "with 0..3 shots carrying L1 and non-L1 blocks and frame edits x --use-custom-targets: the real CLI against "
                 "the Lean model (`c10.gensrc madvr`) and against the direct oracle madvrgen.oracle (frame count, scene cuts, "
                 "per-frame L1 from the 60-digit ST 2084 evaluation and the exact histogram average, L6 MaxCLL/MaxFALL fill-in, "
                 "config shot k's non-L1 blocks on scene k)")
    ctx.assumptions = ["the HDR10+ JSON reader and the madVR measurement reader are third-party parsers; their byte/JSON level is not "
                       "modelled in Lean: vlib/madvrgen.py decodes the files independently (same f64 operation order as the Rust "
                       "code) and feeds the model the integers (PQ codes before clamping, scene words, header words); the f64 "
                       "parts (nits -> PQ, histogram average, round) are inputs of the model (parameter PqCode in "
                       "Model/GenSources.lean) and are checked by the direct oracle only"]
    ctx.build_and_audit(need_cli=True)
    rng = ctx.rng.fork("c10")
    n = 500 if ctx.tier == "quick" else 8000
    work = clirun.workdir("c10")
    cases = []
    lines = []
    for i in range(n):
        cfg, compact = gen_config(rng)
        popt = rng.choice([None, None, None, "5", "8.1", "8.4"])
        lpopt = rng.choice([None, None, None, True, False])
        cases.append((i, work, cfg, popt, lpopt))
        lines.append("gen %s %s %s" % (compact, popt.replace(".", "") if popt else "-", "-" if lpopt is None else ("1" if lpopt else "0")))
    try:
        with concurrent.futures.ThreadPoolExecutor(max_workers=14) as ex:
            res = list(ex.map(run_case, cases))
        hdr10plus_cases(ctx, rng.fork("hdr10plus"), work)
        hdr10plus_malformed_cases(ctx, rng.fork("hdr10plus-malformed"), work)
        madvr_cases(ctx, rng.fork("madvr"), work)
    finally:
        clirun.cleanup(work)
    mo, _, _ = common.run_lines_sharded(common.MODEL_EXE, lines)
    ctx.evaluations += n
    for (i, _, cfg, popt, lpopt), (rc, out, se), m, l in zip(cases, res, mo, lines):
        if rc not in (0, 1):
            ctx.oracle_fail({"op": "generate", "input": l[:5000], "config": cfg, "observed": "exit %s %s" % (rc, se[-200:]),
                             "expected": "exit 0 or an error message", "shape": "crash"})
        impl = "err"
        if rc == 0 and out is not None:
            impl = "ok %d %s" % (len(out), ",".join(rpucases.unescape(o).hex() for o in out) if out else "-")
            ctx.count("result=ok")
            shots = cfg.get("shots") or [{"duration": cfg.get("length", 0)}]
            total = sum(s["duration"] for s in shots)
            if len(out) != total:
                ctx.oracle_fail({"op": "generate", "input": l[:5000], "config": cfg, "observed": "%d frames" % len(out),
                                 "expected": "%d frames (sum of shot durations)" % total, "shape": "frame-count"})
            else:
                pj, _, _ = common.run_lines(common.LIBCASE, ["nalu.json 7c01" + o.hex() for o in out])
                prof = popt or cfg.get("profile") or "8.1"
                want_prof = 5 if prof in ("5", "Profile5") else 8
                lp = lpopt if lpopt is not None else cfg.get("long_play_mode", False)
                starts = set()
                k = 0
                for s in shots:
                    if s["duration"] > 0:
                        starts.add(k)
                    k += s["duration"]
                for f, o in enumerate(pj):
                    if not o.startswith("ok {"):
                        ctx.oracle_fail({"op": "generate", "input": l[:5000], "config": cfg, "frame": f,
                                         "observed": "generated RPU does not parse", "expected": "parses", "shape": "unparsable"})
                        break
                    jj = json.loads(o[3:])
                    flag = jj["vdr_dm_data"]["scene_refresh_flag"]
                    if jj["dovi_profile"] != want_prof or flag != (1 if (lp or f in starts) else 0):
                        ctx.oracle_fail({"op": "generate", "input": l[:5000], "config": cfg, "frame": f,
                                         "observed": "profile %s scene flag %s" % (jj["dovi_profile"], flag),
                                         "expected": "profile %s, flag %d" % (want_prof, 1 if (lp or f in starts) else 0),
                                         "shape": "profile-or-scene-cut"})
                        break
                    # precedence, decided directly on the real output (independent of the Lean model)
                    if "shots" in cfg:
                        k2 = 0
                        for sh in cfg["shots"]:
                            if f < k2 + sh["duration"]:
                                break
                            k2 += sh["duration"]
                        exp = precedence_expect(cfg, sh, f - k2)
                        have = frame_blocks(jj)
                        l1cm40 = (cfg.get("l1_avg_pq_cm_version") or cfg.get("cm_version", "V40")) == "V40"
                        for (name, key), (src, want) in (exp or {}).items():
                            # a CM v4.0 level in a CM v2.9-only config has no container to live in (the tool ignores it)
                            if cfg.get("cm_version", "V40") == "V29" and name not in ("Level1", "Level2", "Level4", "Level5", "Level6", "Level255"):
                                continue
                            if name == "Level1":
                                want = clamp_l1(want, l1cm40)
                                if want["avg_pq"] is None:
                                    continue
                            got = have.get((name, key), [])
                            ctx.count("precedence-checked=%s" % src)
                            # a short L8/L9/L10 block serialises only the fields its length carries
                            if not any(all(want.get(kk) == vv for kk, vv in g.items()) for g in got):
                                ctx.oracle_fail({"op": "generate", "input": l[:5000], "config": cfg, "frame": f,
                                                 "observed": "%s key %s in frame: %s" % (name, key, json.dumps(got)[:300]),
                                                 "expected": "the %s block %s" % (src, json.dumps(want)[:300]),
                                                 "shape": "precedence"})
                                break
                    want_cm40 = cfg.get("cm_version", "V40") == "V40"
                    if ("cmv40_metadata" in jj["vdr_dm_data"]) != want_cm40:
                        ctx.oracle_fail({"op": "generate", "input": l[:5000], "config": cfg, "frame": f,
                                         "observed": "cm v4.0 present: %s" % (not want_cm40), "expected": str(want_cm40), "shape": "cm-version"})
                        break
            if cfg.get("shots") or cfg.get("default_metadata_blocks"):
                ctx.nontriv(l)
        else:
            ctx.count("result=err")
        if m != impl:
            ctx.disagree("generate", l[:5000], m[:300], impl[:300] + " | " + se[-150:])
    # how many generated RPUs lie inside the hypothesis of C03.write_parse_sound / C01.parse_write_exact
    # (model-only evaluation of the decidable shape predicate on the real CLI's output)
    wl = []
    for (i, _, cfg, popt, lpopt), (rc, out, se) in zip(cases, res):
        if rc == 0 and out:
            wl += ["nalu.wf 7c01" + o.hex() for o in out[:3]]
    wo, _, _ = common.run_lines_sharded(common.MODEL_EXE, wl[:3000])
    for o in wo:
        if o.startswith("sesmall="):
            f = dict(x.split("=") for x in o.split(" "))
            ctx.count("generated RPU inside the write->parse theorem hypothesis" if f["wf"] == "1"
                      else "generated RPU outside the theorem hypothesis (%s)" % f["why"])
    ctx.sample({"config": cases[0][2], "model_line": lines[0][:300]})
    ctx.sample({"config": cases[5][2]})
