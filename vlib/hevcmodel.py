"""Correspondence of the stream commands with the Lean model (lean/DoviModel/Model/Hevc.lean, driver ops
lean/Driver/OpsHevc.lean): the generator's description of a stream is rendered as one driver line, the model's
answer is parsed into the same `(type, bytes, start_code_len)` lists the reference produces, and the files the
real CLI wrote are compared with it by the comparison code of hevcref (same tolerances).

The labels hevc_parser contributes (access unit of each NAL, presentation numbers, regenerated AUD bytes,
frame count) and the library's RPU rewrites are inputs of the model; here they come from the generator's own
labels and from the library executor, exactly as for the reference oracle."""
import os

from . import common
from . import hevcgen as H
from . import hevcref as F


def hx(b):
    return bytes(b).hex() if len(b) else "-"


def items_str(items):
    """items: iterable of (type, bytes, au, ...)"""
    s = ",".join("%d:%d:%s" % (it[0], it[2], hx(it[1])) for it in items)
    return s or "-"


def conv_str(conv, key, nals):
    if key is None:
        return "-"
    seen = set()
    out = []
    for d in nals:
        if d in seen:
            continue
        seen.add(d)
        r = conv.get(key, d)
        out.append("%s=%s" % (d.hex(), "-" if r is None else r.hex()))
    return ",".join(out) or "-"


def _flags(**kw):
    m = {"conv": "c", "discard": "d", "el_only": "o", "annexb": "a", "drop": "h", "no_add_aud": "n", "eos_before_el": "e", "late": "L"}
    s = "".join(m[k] for k, v in kw.items() if v)
    return s or "-"


def first_nal_late(data, chunk):
    """file input: the first read of `chunk` bytes is full and holds a single start code — hevc_parser then delivers an
    empty NAL list first and the first NAL of the stream is not recognised as such (model: `generalFrom true`)"""
    chunk = chunk or 100000
    return len(data) >= chunk and data[:chunk].count(b"\x00\x00\x01") == 1


def general_line(cmd, items, conv, key=None, discard=False, el_only=False, start_code=None, drop=False, late=False):
    rpus = [it[1] for it in items if it[0] == H.UNSPEC62]
    return "hevc.general %s %s %s %s" % (
        cmd, _flags(conv=key is not None, discard=discard, el_only=el_only, annexb=start_code == "annex-b", drop=drop, late=late),
        conv_str(conv, key, rpus), items_str(items))


def extract_line(stream, conv, key=None):
    items = F.items_of(stream)
    rpus = [it[1] for it in items if it[0] == H.UNSPEC62]
    pres = stream.pres()
    return "hevc.extract %s %d %s %s %s" % (
        _flags(conv=key is not None), len(stream.aus), ",".join(str(p) for p in pres) or "-",
        conv_str(conv, key, rpus), items_str(items))


def auds_of(stypes):
    return ",".join(H.canonical_aud_for(s).hex() for s in stypes) or "-"


def trailing_items(trailing, nframes):
    """NALs behind the last slice of a stream (an AUD, a prefix SEI, VPS/SPS/PPS ...): hevc_parser labels them with
    the frame count (`decoded_frame_index == ordered_frames().len()`); `trailing`: iterable of hevcgen.Nal"""
    return [(n.type, n.data, nframes, k == 0) for k, n in enumerate(trailing)]


def inject_line(stream, rpus, no_add_aud=False, start_code=None, drop=False, trailing=()):
    """trailing: NALs that follow the last access unit of `stream` in the file (see trailing_items)"""
    items = F.items_of(stream) + trailing_items(trailing, len(stream.aus))
    return "hevc.inject %s %d %s %s %s %s" % (
        _flags(no_add_aud=no_add_aud, annexb=start_code == "annex-b", drop=drop), len(stream.aus),
        ",".join(str(p) for p in stream.pres()) or "-", auds_of([au.spec.stype for au in stream.aus]),
        ",".join(r.hex() for r in rpus) or "-", items_str(items))


def mux_line(bl_aus, el_frames, conv, key=None, no_add_aud=False, eos_before_el=False, discard=False,
             start_code=None, drop=False, bl_trailing=()):
    """bl_aus: [(slice type, [(type, bytes)..])] per BL frame; el_frames: [[(type, bytes)..]] per EL frame;
    bl_trailing: NALs that follow the last access unit of the BL file (see trailing_items).  The frame count of the
    BL (every BL frame holds a slice) is part of the line: `Muxer::finalize` compares the last frame buffer's number
    with it."""
    bl = [(t, d, k) for k, (_, nals) in enumerate(bl_aus) for t, d in nals]
    bl += [it[:3] for it in trailing_items(bl_trailing, len(bl_aus))]
    el = [(t, d, k) for k, fr in enumerate(el_frames) for t, d in fr]
    rpus = [d for t, d, _ in el if t == H.UNSPEC62]
    return "hevc.mux %s %d %s %s %s %s" % (
        _flags(conv=key is not None, discard=discard, annexb=start_code == "annex-b", drop=drop, no_add_aud=no_add_aud,
               eos_before_el=eos_before_el), len(bl_aus),
        auds_of([s for s, _ in bl_aus]), conv_str(conv, key, rpus), items_str(bl), items_str(el))


TRAILING_KINDS = ("aud", "aud+psei", "params")


def gen_trailing(rng, codec, kind, stype=None, sc=4):
    """NALs to append behind the last slice of a stream: an AUD; an AUD and a prefix SEI; VPS SPS PPS"""
    stype = H.SLICE_I if stype is None else stype
    if kind == "aud":
        out = [H.Nal(H.aud_nal(stype, rng.chance(1, 2)), "aud")]
    elif kind == "aud+psei":
        out = [H.Nal(H.aud_nal(stype, rng.chance(1, 2)), "aud"),
               H.Nal(H.sei_nal(H.gen_sei_messages(rng, with_hdr=False), H.SEI_PREFIX, 0), "psei")]
    elif kind == "params":
        out = codec.param_nals("vsp")
    else:
        raise ValueError(kind)
    for n in out:
        n.sc = sc if sc in (3, 4) else rng.choice([3, 4])
    return out


def parse_outs(s):
    if s == "-":
        return []
    out = []
    for e in s.split(","):
        sc, h = e.split(":")
        d = b"" if h == "-" else bytes.fromhex(h)
        out.append((H.nal_type(d) if d else 0, d, int(sc)))
    return out


def parse_general(ans):
    """None = the model says the command fails; else dict name -> expected list"""
    if ans == "err":
        return None
    if not ans.startswith("ok "):
        raise common.CheckError("model driver answered %r to hevc.general" % ans[:80])
    d = {}
    for part in ans[3:].split(" "):
        k, v = part.split("=", 1)
        d[k] = parse_outs(v)
    return d


def parse_list(ans):
    """hevc.inject / hevc.mux: (expected list or None, error flag)"""
    if ans == "err":
        return None, True
    if ans.startswith("okerr "):
        return parse_outs(ans[6:]), True
    if ans.startswith("ok "):
        return parse_outs(ans[3:]), False
    raise common.CheckError("model driver answered %r" % ans[:80])


def parse_extract(ans):
    if ans == "err":
        return None
    if not ans.startswith("ok "):
        raise common.CheckError("model driver answered %r to hevc.extract" % ans[:80])
    if ans[3:] == "-":
        return []
    out = []
    for h in ans[3:].split(","):
        d = bytes.fromhex(h)
        out.append((H.nal_type(d), d, 4))
    return out


def run_model(lines, shards=16):
    if not lines:
        return []
    if not os.path.exists(common.MODEL_EXE):
        raise common.CheckError("model executable missing: " + common.MODEL_EXE)
    out, rc, err = common.run_lines_sharded(common.MODEL_EXE, lines, shards=shards)
    if len(out) != len(lines) or any(o in ("abort", "not-run", "bad-op") for o in out):
        raise common.CheckError("model driver failed on the hevc ops (rc %s): %s" % (rc, err[-500:]))
    return out


def attach(jobs, key="mline", dst="model_ans"):
    """runs the model on job[key] of every job that has one and stores the raw answer in job[dst]; the line is
    dropped afterwards (they are large)"""
    idx = [i for i, j in enumerate(jobs) if j.get(key)]
    ans = run_model([jobs[i][key] for i in idx])
    for i, a in zip(idx, ans):
        jobs[i][dst] = a
        jobs[i][key] = None
    return len(idx)


def compare_files(model, paths, check_sc=False, skip=()):
    """model: dict name -> expected list; paths: dict name -> file.  Returns None when every file equals the
    model's expectation, else (model text, implementation text)"""
    for name, e in model.items():
        if name in skip:
            continue
        p = paths.get(name)
        if p is None or not os.path.exists(p):
            if e:
                return ("%s: %d NAL units" % (name, len(e)), "%s: file missing" % name)
            continue
        got = F.read_split(p)
        ok, msg, _ = F.compare(got, e, check_sc=check_sc)
        if not ok:
            return ("%s: %d NAL units %s" % (name, len(e), brief(e)), "%s: %s" % (name, msg))
    return None


def compare_list(exp, path, check_sc=False):
    got = F.read_split(path) if os.path.exists(path) else []
    ok, msg, _ = F.compare(got, exp, check_sc=check_sc)
    if not ok:
        return ("%d NAL units %s" % (len(exp), brief(exp)), msg)
    return None


def brief(e, n=40):
    return "types " + " ".join("%d/%d" % (t, sc) for t, _, sc in e[:n])
